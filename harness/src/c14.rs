//! C14: Kademlia routing table correspondence. Case / trace format: see coq/C14/Glue.v.
//!
//! Keys with chosen raw bytes (seed 0) are built with the `verif_from_raw` hook; because
//! `KBucketEntry::insert` and `add_known_peer` recompute the key from the peer id, insertion of
//! such keys goes through the real `RoutingTable::entry` and then writes the returned slot the
//! way those two functions do. Keys with seed > 0 are SHA-256 keys of real peer ids and use the
//! real `add_known_peer` / `KBucketEntry::insert`.
use crate::util::*;
use litep2p::{
    protocol::libp2p::kademlia::verif::{ConnectionType, KBucketEntry, KademliaPeer, Key, RoutingTable},
    transport::Endpoint,
    types::ConnectionId,
    PeerId,
};
use multiaddr::{Multiaddr, Protocol};
use std::{
    collections::HashMap,
    panic::{catch_unwind, AssertUnwindSafe},
    path::Path,
};

const LIMBS: usize = 8;
const NADDR: usize = 6;

pub(crate) fn peer_from_seed(seed: u64) -> PeerId {
    let mut b = vec![0x00u8, 32];
    let mut d = [0x5au8; 32];
    d[..8].copy_from_slice(&seed.to_be_bytes());
    b.extend_from_slice(&d);
    PeerId::from_bytes(&b).expect("identity multihash of 32 bytes is a valid peer id")
}

fn limbs_to_raw(l: &[u64]) -> [u8; 32] {
    let mut r = [0u8; 32];
    for i in 0..LIMBS {
        r[4 * i..4 * i + 4].copy_from_slice(&(l[i] as u32).to_be_bytes());
    }
    r
}

fn raw_to_limbs(r: &[u8; 32]) -> [u64; LIMBS] {
    let mut l = [0u64; LIMBS];
    for i in 0..LIMBS {
        l[i] = u32::from_be_bytes([r[4 * i], r[4 * i + 1], r[4 * i + 2], r[4 * i + 3]]) as u64;
    }
    l
}

fn conn_of(x: u64) -> ConnectionType {
    match x {
        1 => ConnectionType::Connected,
        2 => ConnectionType::CanConnect,
        3 => ConnectionType::CannotConnect,
        _ => ConnectionType::NotConnected,
    }
}

fn conn_code(c: ConnectionType) -> u64 {
    match c {
        ConnectionType::NotConnected => 0,
        ConnectionType::Connected => 1,
        ConnectionType::CanConnect => 2,
        ConnectionType::CannotConnect => 3,
    }
}

fn entry_code(e: &KBucketEntry<'_>) -> u64 {
    match e {
        KBucketEntry::LocalNode => 0,
        KBucketEntry::Occupied(_) => 1,
        KBucketEntry::Vacant(_) => 2,
        KBucketEntry::NoSlot => 3,
    }
}

struct KeyEnt {
    real: bool,
    peer: PeerId,
    key: Key<PeerId>,
}

type Snap = Vec<Vec<[u64; 3]>>;

fn snapshot(t: &RoutingTable, ids: &HashMap<[u8; 32], u64>) -> Snap {
    (0..t.verif_num_buckets())
        .map(|i| {
            t.verif_bucket(i)
                .iter()
                .map(|n| {
                    [
                        ids.get(&n.verif_key().verif_raw()).copied().unwrap_or(0),
                        n.verif_has_addresses() as u64,
                        conn_code(n.verif_connection()),
                    ]
                })
                .collect()
        })
        .collect()
}

fn emit_buckets(out: &mut Vec<u64>, l: &[(usize, &Vec<[u64; 3]>)]) {
    out.push(l.len() as u64);
    for (i, b) in l {
        out.push(*i as u64);
        out.push(b.len() as u64);
        for n in b.iter() {
            out.extend(n);
        }
    }
}

fn addrs(n: usize) -> Vec<Multiaddr> {
    (0..n.min(NADDR))
        .map(|i| format!("/ip4/10.0.0.{}/tcp/{}", i + 1, 1000 + i).parse().unwrap())
        .collect()
}

/// what `add_known_peer` does to the addresses before storing them
fn with_p2p(a: Vec<Multiaddr>, peer: PeerId) -> Vec<Multiaddr> {
    a.into_iter()
        .map(|x| {
            if matches!(x.iter().last(), Some(Protocol::P2p(_))) {
                x
            } else {
                x.with(Protocol::P2p(peer.into()))
            }
        })
        .collect()
}

/// Runs one case against the real RoutingTable; seeds > 0 get their key limbs filled in.
fn run_case(c: &mut Vec<u64>) -> Option<Vec<u64>> {
    let nkeys = *c.first()? as usize;
    if nkeys == 0 || c.len() < 1 + nkeys * (LIMBS + 1) + 1 {
        return None;
    }
    let mut keys: Vec<KeyEnt> = Vec::with_capacity(nkeys);
    for i in 0..nkeys {
        let off = 1 + i * (LIMBS + 1);
        let seed = c[off];
        if seed > 0 {
            let peer = peer_from_seed(seed);
            let key = Key::from(peer);
            let l = raw_to_limbs(&key.verif_raw());
            c[off + 1..off + 1 + LIMBS].copy_from_slice(&l);
            keys.push(KeyEnt { real: true, peer, key });
        } else {
            if c[off + 1..off + 1 + LIMBS].iter().any(|x| *x > u32::MAX as u64) {
                return None;
            }
            let raw = limbs_to_raw(&c[off + 1..off + 1 + LIMBS]);
            let peer = peer_from_seed((1u64 << 40) + i as u64);
            keys.push(KeyEnt { real: false, peer, key: Key::verif_from_raw(raw, peer) });
        }
    }
    let mut ids: HashMap<[u8; 32], u64> = HashMap::new();
    for (i, k) in keys.iter().enumerate() {
        ids.entry(k.key.verif_raw()).or_insert(i as u64 + 1);
    }
    let mut i = 1 + nkeys * (LIMBS + 1);
    let nops = *c.get(i)? as usize;
    i += 1;
    if nops > c.len() {
        return None;
    }
    let mut table = RoutingTable::new(keys[0].key.clone());
    let mut snap = snapshot(&table, &ids);
    let mut out = vec![1u64];
    for _ in 0..nops {
        let tag = *c.get(i)?;
        let ke = keys.get(*c.get(i + 1)? as usize)?;
        let (key, peer) = (ke.key.clone(), ke.peer);
        i += 2;
        let code: u64;
        match tag {
            0 => code = entry_code(&table.entry(key)),
            1 => {
                let (a, cn) = (*c.get(i)? != 0, conn_of(*c.get(i + 1)?));
                i += 2;
                let ad = addrs(a as usize);
                if ke.real {
                    let mut e = table.entry(key);
                    code = entry_code(&e);
                    e.insert(KademliaPeer::new(peer, ad, cn));
                } else {
                    code = match table.entry(key.clone()) {
                        KBucketEntry::Vacant(n) => {
                            n.verif_overwrite(key, peer, ad, cn);
                            2
                        }
                        e => entry_code(&e),
                    };
                }
            }
            2 => {
                let (na, cn) = (*c.get(i)? as usize, conn_of(*c.get(i + 1)?));
                i += 2;
                if ke.real {
                    table.add_known_peer(peer, addrs(na), cn);
                    code = 9;
                } else if na == 0 {
                    code = 4;
                } else {
                    let ad = with_p2p(addrs(na), peer);
                    code = match table.entry(key.clone()) {
                        KBucketEntry::Occupied(n) => {
                            n.push_addresses(ad);
                            // the rule of add_known_peer (fix F-C14b): NotConnected does not
                            // overwrite Connected
                            if !(n.verif_connection() == ConnectionType::Connected
                                && cn == ConnectionType::NotConnected)
                            {
                                n.verif_set_connection(cn);
                            }
                            1
                        }
                        KBucketEntry::Vacant(n) => {
                            n.verif_overwrite(key, peer, ad, cn);
                            2
                        }
                        e => entry_code(&e),
                    };
                }
            }
            3 => {
                let dialer = *c.get(i)? != 0;
                i += 1;
                let address = addrs(1).pop().unwrap();
                let connection_id = ConnectionId::new();
                let ep = if dialer {
                    Endpoint::Dialer { address, connection_id }
                } else {
                    Endpoint::Listener { address, connection_id }
                };
                table.on_connection_established(key, ep);
                code = 9;
            }
            4 => {
                let na = *c.get(i)? as usize;
                i += 1;
                table.on_dial_failure(key, &addrs(na));
                code = 9;
            }
            5 => {
                let k = *c.get(i)? as usize;
                i += 1;
                let res = table.closest(&key, k);
                out.push(res.len() as u64);
                for n in res.iter() {
                    out.push(ids.get(&n.verif_key().verif_raw()).copied().unwrap_or(0));
                }
                continue;
            }
            6 => {
                let ord = table.verif_bucket_order(&key);
                out.push(ord.len() as u64);
                out.extend(ord.iter().map(|x| *x as u64));
                continue;
            }
            _ => return None,
        }
        let next = snapshot(&table, &ids);
        out.push(code);
        let ch: Vec<(usize, &Vec<[u64; 3]>)> =
            (0..next.len()).filter(|j| snap[*j] != next[*j]).map(|j| (j, &next[j])).collect();
        emit_buckets(&mut out, &ch);
        drop(ch);
        snap = next;
    }
    if i != c.len() {
        return None;
    }
    let ne: Vec<(usize, &Vec<[u64; 3]>)> =
        (0..snap.len()).filter(|j| !snap[*j].is_empty()).map(|j| (j, &snap[j])).collect();
    emit_buckets(&mut out, &ne);
    Some(out)
}

// ---------------------------------------------------------------- generator

fn rand_raw(rng: &mut Rng) -> [u8; 32] {
    let mut r = [0u8; 32];
    for i in 0..4 {
        r[8 * i..8 * i + 8].copy_from_slice(&rng.next().to_be_bytes());
    }
    r
}

fn xor(a: &[u8; 32], b: &[u8; 32]) -> [u8; 32] {
    let mut r = [0u8; 32];
    for i in 0..32 {
        r[i] = a[i] ^ b[i];
    }
    r
}

/// a distance whose highest set bit is `j`, lower bits from `low`
fn dist_in_bucket(j: usize, low: &[u8; 32]) -> [u8; 32] {
    let mut d = *low;
    let byte = 31 - j / 8;
    for b in d.iter_mut().take(byte) {
        *b = 0;
    }
    let bit = j % 8;
    d[byte] &= (1u8 << bit).wrapping_sub(1);
    d[byte] |= 1u8 << bit;
    d
}

fn small_dist(e: u64, shift: usize) -> [u8; 32] {
    // e << shift as a 256-bit big-endian number (e < 2^8, shift <= 248)
    let mut d = [0u8; 32];
    let v = (e as u16) << (shift % 8);
    let lo = 31 - shift / 8;
    d[lo] = v as u8;
    if lo > 0 {
        d[lo - 1] = (v >> 8) as u8;
    }
    d
}

struct Builder {
    keys: Vec<(u64, [u8; 32])>,
    ops: Vec<u64>,
    nops: u64,
}

impl Builder {
    fn key(&mut self, seed: u64, raw: [u8; 32]) -> u64 {
        self.keys.push((seed, raw));
        self.keys.len() as u64 - 1
    }
    fn op(&mut self, xs: &[u64]) {
        self.ops.extend_from_slice(xs);
        self.nops += 1;
    }
    fn finish(self) -> Vec<u64> {
        let mut c = vec![self.keys.len() as u64];
        for (s, r) in self.keys.iter() {
            c.push(*s);
            c.extend(raw_to_limbs(r));
        }
        c.push(self.nops);
        c.extend(self.ops);
        c
    }
}

fn pick_conn(rng: &mut Rng) -> u64 {
    match rng.below(100) {
        0..=39 => 0,
        40..=69 => 1,
        70..=84 => 2,
        _ => 3,
    }
}

/// all 6-bit distance patterns (shifted to `shift`) as stored peers and as targets
fn gen_pattern_case(rng: &mut Rng, local: [u8; 32], shift: usize, conn: u64) -> Vec<u64> {
    let mut b = Builder { keys: vec![], ops: vec![], nops: 0 };
    b.key(0, local);
    let mut order: Vec<u64> = (1..64).collect();
    for i in (1..order.len()).rev() {
        order.swap(i, rng.below(i as u64 + 1) as usize);
    }
    for e in order {
        let k = b.key(0, xor(&local, &small_dist(e, shift)));
        b.op(&[2, k, 1, conn]);
    }
    for d in 0..64u64 {
        let t = if d == 0 { 0 } else { b.key(0, xor(&local, &small_dist(d, shift))) };
        b.op(&[5, t, 100]);
        b.op(&[5, t, rng.pick(&[0u64, 1, 3, 20, 25])]);
        b.op(&[6, t]);
    }
    b.finish()
}

fn gen_case(rng: &mut Rng, small: bool, thorough: bool) -> Vec<u64> {
    let mut b = Builder { keys: vec![], ops: vec![], nops: 0 };
    let local = match rng.below(10) {
        0 | 1 => [0u8; 32],
        2 => [0xffu8; 32],
        _ => rand_raw(rng),
    };
    b.key(0, local);
    let mut stored: Vec<u64> = Vec::new(); // key indices used by table operations
    let mut focus_groups: Vec<Vec<u64>> = Vec::new();
    let nfocus = if small { rng.range(1, 2) } else { rng.range(3, 5) };
    for _ in 0..nfocus {
        let j = match rng.below(12) {
            0 => 0usize,
            1 => 1,
            2 => 254,
            3 => 255,
            4 => 5,
            5 => 6,
            6 => rng.range(2, 4) as usize,
            7 => rng.range(7, 12) as usize,
            _ => rng.below(256) as usize,
        };
        let want = if small { rng.range(1, 6) } else { rng.range(4, 30) };
        let mut g = Vec::new();
        for _ in 0..want {
            let d = dist_in_bucket(j, &rand_raw(rng));
            let k = b.key(0, xor(&local, &d));
            g.push(k);
            stored.push(k);
        }
        focus_groups.push(g);
    }
    let nscatter = if small { rng.range(0, 3) } else { rng.range(5, 20) };
    for _ in 0..nscatter {
        let j = rng.below(256) as usize;
        let k = b.key(0, xor(&local, &dist_in_bucket(j, &rand_raw(rng))));
        stored.push(k);
    }
    if !small && rng.chance(30) {
        let n = rng.range(10, 60);
        let mut g = Vec::new();
        for _ in 0..n {
            let k = b.key(rng.range(1, 1_000_000), [0u8; 32]);
            g.push(k);
            stored.push(k);
        }
        focus_groups.push(g);
    }
    let mut targets: Vec<u64> = vec![0];
    let ntargets = if small { rng.range(1, 4) } else { rng.range(10, 30) };
    for _ in 0..ntargets {
        let d = match rng.below(10) {
            0 => small_dist(rng.range(1, 63), 0),
            1 => small_dist(rng.range(1, 63), 250),
            _ => dist_in_bucket(rng.below(256) as usize, &rand_raw(rng)),
        };
        targets.push(b.key(0, xor(&local, &d)));
    }
    let nops = if small {
        rng.range(5, 25)
    } else if thorough {
        rng.range(20, 400)
    } else {
        rng.range(20, 150)
    };
    let ks: [u64; 6] = [0, 1, 3, 20, 25, 1000];
    for _ in 0..nops {
        // operations concentrate on one group so that its bucket overflows
        let k = if rng.chance(70) && !focus_groups.is_empty() {
            let g = &focus_groups[rng.below(focus_groups.len() as u64) as usize];
            g[rng.below(g.len() as u64) as usize]
        } else if rng.chance(3) {
            0
        } else if !stored.is_empty() {
            stored[rng.below(stored.len() as u64) as usize]
        } else {
            0
        };
        match rng.below(100) {
            0..=39 => {
                let na = if rng.chance(6) { 0 } else { rng.range(1, 3) };
                b.op(&[2, k, na, pick_conn(rng)]);
            }
            40..=54 => {
                let a = rng.chance(75) as u64;
                b.op(&[1, k, a, pick_conn(rng)]);
            }
            55..=66 => b.op(&[3, k, rng.chance(50) as u64]),
            67..=74 => b.op(&[4, k, rng.pick(&[0u64, 1, 2])]),
            75..=79 => b.op(&[0, k]),
            80..=96 => {
                let t = if rng.chance(70) {
                    targets[rng.below(targets.len() as u64) as usize]
                } else {
                    k
                };
                b.op(&[5, t, rng.pick(&ks)]);
            }
            _ => {
                let t = targets[rng.below(targets.len() as u64) as usize];
                b.op(&[6, t]);
            }
        }
    }
    let nfinal = if small { 2 } else { 10 };
    for _ in 0..nfinal {
        let t = if rng.chance(80) || stored.is_empty() {
            targets[rng.below(targets.len() as u64) as usize]
        } else {
            stored[rng.below(stored.len() as u64) as usize]
        };
        b.op(&[5, t, rng.pick(&ks)]);
    }
    b.finish()
}

fn run_emit(out: &mut Outputs, mut c: Vec<u64>) {
    if c.first() == Some(&0) {
        // glue case (second stream): the observed operations are written back into the case
        match catch_unwind(AssertUnwindSafe(|| crate::c14_glue::run_stored(&c))) {
            Ok(Some((case, trace))) => out.emit(&case, &trace),
            Ok(None) => out.emit(&c, &[0]),
            Err(_) => out.emit(&c, &[PANIC_MARK]),
        }
        return;
    }
    let t = catch_unwind(AssertUnwindSafe(|| run_case(&mut c)))
        .unwrap_or(Some(vec![PANIC_MARK]))
        .unwrap_or(vec![0]);
    out.emit(&c, &t);
}

pub fn main(args: &Args) {
    let seed = args.u64("seed", 1);
    let ncases = args.u64("cases", 100);
    let thorough = args.str("tier") == Some("thorough");
    let mut out = Outputs::open(args);
    let mut rng = Rng::new(seed);

    let mut stored: Vec<Vec<u64>> = Vec::new();
    if let Some(r) = args.str("replay") {
        stored = read_cases(Path::new(r));
    } else if let Some(d) = args.str("corpus") {
        stored = read_cases(Path::new(d));
    }
    for c in stored {
        run_emit(&mut out, c);
    }
    if args.str("replay").is_some() {
        return;
    }
    for n in 0..ncases {
        let mut r = rng.fork();
        if n % 3 == 2 {
            // second stream: the Kademlia event loop around the table
            match catch_unwind(AssertUnwindSafe(|| crate::c14_glue::generate(&mut r, n < 40, thorough))) {
                Ok(Some((case, trace))) => out.emit(&case, &trace),
                Ok(None) => out.emit(&[0, 0], &[0]),
                Err(_) => out.emit(&[0, 0], &[PANIC_MARK]),
            }
            continue;
        }
        let c = match n {
            // every 6-bit pattern of the low / high distance bits, as peers and as targets
            40 => gen_pattern_case(&mut r, [0u8; 32], 0, 1),
            41 => {
                let l = rand_raw(&mut r);
                gen_pattern_case(&mut r, l, 0, 0)
            }
            42 => {
                let l = rand_raw(&mut r);
                gen_pattern_case(&mut r, l, 250, 1)
            }
            43 => {
                let l = rand_raw(&mut r);
                gen_pattern_case(&mut r, l, 123, 2)
            }
            _ => gen_case(&mut r, n < 40, thorough),
        };
        run_emit(&mut out, c);
    }
}
