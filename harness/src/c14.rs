//! C14: Kademlia routing table correspondence. Case / trace format: see coq/C14/Glue.v.
//!
//! Keys with chosen raw bytes (seed 0) are built with the `verif_from_raw` hook; because
//! `KBucketEntry::insert` and `add_known_peer` recompute the key from the peer id, insertion of
//! such keys goes through the real `RoutingTable::entry` and then writes the returned slot the
//! way those two functions do. Keys with seed > 0 are SHA-256 keys of real peer ids and use the
//! real `add_known_peer` / `KBucketEntry::insert`.
use crate::util::*;
use litep2p::{
    protocol::libp2p::kademlia::verif::{ConnectionType, KBucketEntry, KademliaPeer, Key, RoutingTable, SchemaPeer},
    transport::Endpoint,
    types::ConnectionId,
    PeerId,
};
use litep2p::transport::verif::take_evicted;
use multiaddr::{Multiaddr, Protocol};
use std::{
    collections::HashMap,
    panic::{catch_unwind, AssertUnwindSafe},
    path::Path,
};

const LIMBS: usize = 8;

pub(crate) fn peer_from_seed(seed: u64) -> PeerId {
    let mut b = vec![0x00u8, 32];
    let mut d = [0x5au8; 32];
    d[..8].copy_from_slice(&seed.to_be_bytes());
    b.extend_from_slice(&d);
    PeerId::from_bytes(&b).expect("identity multihash of 32 bytes is a valid peer id")
}

fn limbs_to_raw(l: &[u64]) -> [u8; 32] {
    let mut r = [0u8; 32];
    for i in 0..LIMBS {
        r[4 * i..4 * i + 4].copy_from_slice(&(l[i] as u32).to_be_bytes());
    }
    r
}

fn raw_to_limbs(r: &[u8; 32]) -> [u64; LIMBS] {
    let mut l = [0u64; LIMBS];
    for i in 0..LIMBS {
        l[i] = u32::from_be_bytes([r[4 * i], r[4 * i + 1], r[4 * i + 2], r[4 * i + 3]]) as u64;
    }
    l
}

fn conn_of(x: u64) -> ConnectionType {
    match x {
        1 => ConnectionType::Connected,
        2 => ConnectionType::CanConnect,
        3 => ConnectionType::CannotConnect,
        _ => ConnectionType::NotConnected,
    }
}

fn conn_code(c: ConnectionType) -> u64 {
    match c {
        ConnectionType::NotConnected => 0,
        ConnectionType::Connected => 1,
        ConnectionType::CanConnect => 2,
        ConnectionType::CannotConnect => 3,
    }
}

fn entry_code(e: &KBucketEntry<'_>) -> u64 {
    match e {
        KBucketEntry::LocalNode => 0,
        KBucketEntry::Occupied(_) => 1,
        KBucketEntry::Vacant(_) => 2,
        KBucketEntry::NoSlot => 3,
    }
}

struct KeyEnt {
    real: bool,
    peer: PeerId,
    key: Key<PeerId>,
}

/// Address number a (see coq/C14/AddrModel.v): a = 2m is address m with the /p2p suffix of the
/// peer, a = 2m+1 the same address without it; m < 100 private (10.0.0.m+1), m >= 100 global
/// (8.8.x.y); the TCP port carries m so that dumps can be mapped back.
fn addr_of(a: u64, peer: &PeerId) -> Multiaddr {
    let m = (a / 2) % 60_000;
    let base: Multiaddr = if m < 100 {
        format!("/ip4/10.0.0.{}/tcp/{}", m + 1, 1000 + m).parse().unwrap()
    } else {
        format!("/ip4/8.8.{}.{}/tcp/{}", (m - 100) / 200, (m - 100) % 200 + 1, 1000 + m).parse().unwrap()
    };
    if a % 2 == 0 {
        base.with(Protocol::P2p((*peer).into()))
    } else {
        base
    }
}

fn addr_id(x: &Multiaddr) -> u64 {
    let mut m = 0u64;
    let mut suffix = false;
    for p in x.iter() {
        match p {
            Protocol::Tcp(port) => m = (port as u64).wrapping_sub(1000),
            Protocol::P2p(_) => suffix = true,
            _ => {}
        }
    }
    2 * m + (!suffix) as u64
}

fn addrs_of(l: &[u64], peer: &PeerId) -> Vec<Multiaddr> {
    l.iter().map(|a| addr_of(*a, peer)).collect()
}

/// the address lists of the short operation forms: numbers 1, 3, 5, ... (at most six)
fn addrs_old(n: u64) -> Vec<u64> {
    (0..n.min(6)).map(|i| 2 * i + 1).collect()
}

const SCORE_OFF: i64 = 1 << 31;

/// one node of a dump: key id, has-address flag, connection, address store sorted by number
type SnapNode = (u64, u64, u64, Vec<(u64, u64)>);
type Snap = Vec<Vec<SnapNode>>;

fn snapshot(t: &RoutingTable, ids: &HashMap<[u8; 32], u64>) -> Snap {
    (0..t.verif_num_buckets())
        .map(|i| {
            t.verif_bucket(i)
                .iter()
                .map(|n| {
                    let mut st: Vec<(u64, u64)> = n
                        .verif_address_records()
                        .iter()
                        .map(|(a, sc)| (addr_id(a), (*sc as i64 + SCORE_OFF) as u64))
                        .collect();
                    st.sort();
                    (
                        ids.get(&n.verif_key().verif_raw()).copied().unwrap_or(0),
                        n.verif_has_addresses() as u64,
                        conn_code(n.verif_connection()),
                        st,
                    )
                })
                .collect()
        })
        .collect()
}

fn emit_buckets(out: &mut Vec<u64>, l: &[(usize, &Vec<SnapNode>)]) {
    out.push(l.len() as u64);
    for (i, b) in l {
        out.push(*i as u64);
        out.push(b.len() as u64);
        for n in b.iter() {
            out.extend([n.0, n.1, n.2, n.3.len() as u64]);
            for (a, sc) in n.3.iter() {
                out.extend([*a, *sc]);
            }
        }
    }
}

/// what `add_known_peer` does to the addresses before storing them
fn with_p2p(a: Vec<Multiaddr>, peer: PeerId) -> Vec<Multiaddr> {
    a.into_iter()
        .map(|x| {
            if matches!(x.iter().last(), Some(Protocol::P2p(_))) {
                x
            } else {
                x.with(Protocol::P2p(peer.into()))
            }
        })
        .collect()
}

struct Reader<'a> {
    c: &'a [u64],
    i: usize,
}

impl<'a> Reader<'a> {
    fn n(&mut self) -> Option<u64> {
        let x = *self.c.get(self.i)?;
        self.i += 1;
        Some(x)
    }
    fn list(&mut self) -> Option<Vec<u64>> {
        let n = self.n()? as usize;
        if n > self.c.len() {
            return None;
        }
        let l = self.c.get(self.i..self.i + n)?.to_vec();
        self.i += n;
        Some(l)
    }
}

fn put_list(out: &mut Vec<u64>, l: &[u64]) {
    out.push(l.len() as u64);
    out.extend(l);
}

/// Runs one case against the real RoutingTable. Returns the case as it is handed to the model
/// (limbs of SHA-256 keys, evicted addresses and observed address lists filled in) and the trace.
fn run_case(c: &[u64]) -> Option<(Vec<u64>, Vec<u64>)> {
    let nkeys = *c.first()? as usize;
    if nkeys == 0 || c.len() < 1 + nkeys * (LIMBS + 1) + 1 {
        return None;
    }
    let mut case: Vec<u64> = vec![nkeys as u64];
    let mut keys: Vec<KeyEnt> = Vec::with_capacity(nkeys);
    for i in 0..nkeys {
        let off = 1 + i * (LIMBS + 1);
        let seed = c[off];
        case.push(seed);
        if seed > 0 {
            let peer = peer_from_seed(seed);
            let key = Key::from(peer);
            case.extend(raw_to_limbs(&key.verif_raw()));
            keys.push(KeyEnt { real: true, peer, key });
        } else {
            if c[off + 1..off + 1 + LIMBS].iter().any(|x| *x > u32::MAX as u64) {
                return None;
            }
            case.extend(&c[off + 1..off + 1 + LIMBS]);
            let raw = limbs_to_raw(&c[off + 1..off + 1 + LIMBS]);
            // one peer id per key: an entry that repeats an earlier key names the same peer
            let first = keys.iter().position(|k: &KeyEnt| k.key.verif_raw() == raw).unwrap_or(i);
            let peer = peer_from_seed((1u64 << 40) + first as u64);
            keys.push(KeyEnt { real: false, peer, key: Key::verif_from_raw(raw, peer) });
        }
    }
    let mut ids: HashMap<[u8; 32], u64> = HashMap::new();
    for (i, k) in keys.iter().enumerate() {
        ids.entry(k.key.verif_raw()).or_insert(i as u64 + 1);
    }
    let mut rd = Reader { c, i: 1 + nkeys * (LIMBS + 1) };
    let nops = rd.n()? as usize;
    if nops > c.len() {
        return None;
    }
    case.push(nops as u64);
    let mut table = RoutingTable::new(keys[0].key.clone());
    let mut snap = snapshot(&table, &ids);
    let mut out = vec![1u64];
    let _ = take_evicted();
    for _ in 0..nops {
        let tag = rd.n()?;
        let kix = rd.n()?;
        let ke = keys.get(kix as usize)?;
        let (key, peer) = (ke.key.clone(), ke.peer);
        case.extend([tag, kix]);
        let code: u64;
        // rich operations carry a victims list that is observed, not given
        let mut rich = false;
        match tag {
            0 => code = entry_code(&table.entry(key)),
            1 | 11 => {
                let (l, cn) = if tag == 1 {
                    let a = rd.n()?;
                    let cn = rd.n()?;
                    case.extend([a, cn]);
                    (if a != 0 { vec![1] } else { vec![] }, cn)
                } else {
                    let l = rd.list()?;
                    let cn = rd.n()?;
                    let _ = rd.list()?;
                    put_list(&mut case, &l);
                    case.push(cn);
                    rich = true;
                    (l, cn)
                };
                let (ad, cn) = (addrs_of(&l, &peer), conn_of(cn));
                if ke.real {
                    let mut e = table.entry(key);
                    code = entry_code(&e);
                    e.insert(KademliaPeer::new(peer, ad, cn));
                } else {
                    code = match table.entry(key.clone()) {
                        KBucketEntry::Vacant(n) => {
                            n.verif_overwrite(key, peer, ad, cn);
                            2
                        }
                        e => entry_code(&e),
                    };
                }
            }
            2 | 12 => {
                let (l, cn) = if tag == 2 {
                    let a = rd.n()?;
                    let cn = rd.n()?;
                    case.extend([a, cn]);
                    (addrs_old(a), cn)
                } else {
                    let l = rd.list()?;
                    let cn = rd.n()?;
                    let _ = rd.list()?;
                    put_list(&mut case, &l);
                    case.push(cn);
                    rich = true;
                    (l, cn)
                };
                let (ad, cn) = (addrs_of(&l, &peer), conn_of(cn));
                if ke.real {
                    table.add_known_peer(peer, ad, cn);
                    code = 9;
                } else if ad.is_empty() {
                    code = 4;
                } else {
                    let ad = with_p2p(ad, peer);
                    code = match table.entry(key.clone()) {
                        KBucketEntry::Occupied(n) => {
                            n.push_addresses(ad);
                            // the rule of add_known_peer (fixes F-C14b, F-C14c): nothing but a
                            // disconnect takes Connected away
                            if n.verif_connection() != ConnectionType::Connected {
                                n.verif_set_connection(cn);
                            }
                            1
                        }
                        KBucketEntry::Vacant(n) => {
                            n.verif_overwrite(key, peer, ad, cn);
                            2
                        }
                        e => entry_code(&e),
                    };
                }
            }
            3 | 13 => {
                let dialed: Option<u64> = if tag == 3 {
                    let d = rd.n()?;
                    case.push(d);
                    (d != 0).then_some(1)
                } else {
                    let d = rd.n()?;
                    let _ = rd.list()?;
                    case.push(d);
                    rich = true;
                    d.checked_sub(1)
                };
                let connection_id = ConnectionId::new();
                let ep = match dialed {
                    Some(a) => Endpoint::Dialer { address: addr_of(a, &peer), connection_id },
                    None => Endpoint::Listener { address: addr_of(1, &peer), connection_id },
                };
                table.on_connection_established(key, ep);
                code = 9;
            }
            4 | 14 => {
                let l = if tag == 4 {
                    let a = rd.n()?;
                    case.push(a);
                    addrs_old(a)
                } else {
                    let l = rd.list()?;
                    let _ = rd.list()?;
                    put_list(&mut case, &l);
                    rich = true;
                    l
                };
                table.on_dial_failure(key, &addrs_of(&l, &peer));
                code = 9;
            }
            5 => {
                let k = rd.n()?;
                case.push(k);
                let res = table.closest(&key, k as usize);
                out.push(res.len() as u64);
                for n in res.iter() {
                    out.push(ids.get(&n.verif_key().verif_raw()).copied().unwrap_or(0));
                }
                continue;
            }
            6 => {
                let ord = table.verif_bucket_order(&key);
                out.push(ord.len() as u64);
                out.extend(ord.iter().map(|x| *x as u64));
                continue;
            }
            7 => {
                // Kademlia::disconnect_peer (mod.rs), table part: an Occupied entry becomes
                // NotConnected (the function itself is driven by the glue stream)
                if let KBucketEntry::Occupied(n) = table.entry(key) {
                    n.verif_set_connection(ConnectionType::NotConnected);
                }
                code = 9;
            }
            8 => {
                let _ = rd.list()?;
                // KademliaPeer::addresses() of the stored entry (what FIND_NODE replies carry);
                // found by a read-only scan because RoutingTable::entry pushes a dummy for a
                // vacant lookup
                let raw = key.verif_raw();
                let found = (0..table.verif_num_buckets())
                    .flat_map(|i| table.verif_bucket(i).iter())
                    .find(|n| n.verif_key().verif_raw() == raw);
                match found {
                    Some(n) => {
                        let obs: Vec<u64> = n.addresses().iter().map(addr_id).collect();
                        // the wire form of the entry (what a FIND_NODE reply carries) must name the
                        // same addresses in the same order and the entry's connection type
                        let wire = SchemaPeer::from(n);
                        let wire_addrs: Vec<u64> = wire
                            .addrs
                            .iter()
                            .filter_map(|a| Multiaddr::try_from(a.clone()).ok())
                            .map(|a| addr_id(&a))
                            .collect();
                        let same = wire_addrs == obs
                            && wire.addrs.len() == obs.len()
                            && wire.connection == conn_code(n.verif_connection()) as i32
                            && wire.id == n.verif_peer().to_bytes();
                        put_list(&mut case, &obs);
                        out.push(if same { 1 } else { 2 });
                        put_list(&mut out, &obs);
                    }
                    None => {
                        case.push(0);
                        out.push(0);
                    }
                }
                continue;
            }
            _ => return None,
        }
        if rich {
            let ev: Vec<u64> = take_evicted().iter().map(addr_id).collect();
            put_list(&mut case, &ev);
        } else if !take_evicted().is_empty() {
            return None;
        }
        let next = snapshot(&table, &ids);
        out.push(code);
        let ch: Vec<(usize, &Vec<SnapNode>)> =
            (0..next.len()).filter(|j| snap[*j] != next[*j]).map(|j| (j, &next[j])).collect();
        emit_buckets(&mut out, &ch);
        drop(ch);
        snap = next;
    }
    if rd.i != c.len() {
        return None;
    }
    let ne: Vec<(usize, &Vec<SnapNode>)> =
        (0..snap.len()).filter(|j| !snap[*j].is_empty()).map(|j| (j, &snap[j])).collect();
    emit_buckets(&mut out, &ne);
    Some((case, out))
}

// ---------------------------------------------------------------- generator

fn rand_raw(rng: &mut Rng) -> [u8; 32] {
    let mut r = [0u8; 32];
    for i in 0..4 {
        r[8 * i..8 * i + 8].copy_from_slice(&rng.next().to_be_bytes());
    }
    r
}

fn xor(a: &[u8; 32], b: &[u8; 32]) -> [u8; 32] {
    let mut r = [0u8; 32];
    for i in 0..32 {
        r[i] = a[i] ^ b[i];
    }
    r
}

/// a distance whose highest set bit is `j`, lower bits from `low`
fn dist_in_bucket(j: usize, low: &[u8; 32]) -> [u8; 32] {
    let mut d = *low;
    let byte = 31 - j / 8;
    for b in d.iter_mut().take(byte) {
        *b = 0;
    }
    let bit = j % 8;
    d[byte] &= (1u8 << bit).wrapping_sub(1);
    d[byte] |= 1u8 << bit;
    d
}

fn small_dist(e: u64, shift: usize) -> [u8; 32] {
    // e << shift as a 256-bit big-endian number (e < 2^8, shift <= 248)
    let mut d = [0u8; 32];
    let v = (e as u16) << (shift % 8);
    let lo = 31 - shift / 8;
    d[lo] = v as u8;
    if lo > 0 {
        d[lo - 1] = (v >> 8) as u8;
    }
    d
}

struct Builder {
    keys: Vec<(u64, [u8; 32])>,
    ops: Vec<u64>,
    nops: u64,
}

impl Builder {
    fn key(&mut self, seed: u64, raw: [u8; 32]) -> u64 {
        self.keys.push((seed, raw));
        self.keys.len() as u64 - 1
    }
    fn op(&mut self, xs: &[u64]) {
        self.ops.extend_from_slice(xs);
        self.nops += 1;
    }
    fn finish(self) -> Vec<u64> {
        let mut c = vec![self.keys.len() as u64];
        for (s, r) in self.keys.iter() {
            c.push(*s);
            c.extend(raw_to_limbs(r));
        }
        c.push(self.nops);
        c.extend(self.ops);
        c
    }
}

fn pick_conn(rng: &mut Rng) -> u64 {
    match rng.below(100) {
        0..=39 => 0,
        40..=69 => 1,
        70..=84 => 2,
        _ => 3,
    }
}

/// all 6-bit distance patterns (shifted to `shift`) as stored peers and as targets
fn gen_pattern_case(rng: &mut Rng, local: [u8; 32], shift: usize, conn: u64) -> Vec<u64> {
    let mut b = Builder { keys: vec![], ops: vec![], nops: 0 };
    b.key(0, local);
    let mut order: Vec<u64> = (1..64).collect();
    for i in (1..order.len()).rev() {
        order.swap(i, rng.below(i as u64 + 1) as usize);
    }
    for e in order {
        let k = b.key(0, xor(&local, &small_dist(e, shift)));
        b.op(&[2, k, 1, conn]);
    }
    for d in 0..64u64 {
        let t = if d == 0 { 0 } else { b.key(0, xor(&local, &small_dist(d, shift))) };
        b.op(&[5, t, 100]);
        b.op(&[5, t, rng.pick(&[0u64, 1, 3, 20, 25])]);
        b.op(&[6, t]);
    }
    b.finish()
}

fn gen_case(rng: &mut Rng, small: bool, thorough: bool) -> Vec<u64> {
    let mut b = Builder { keys: vec![], ops: vec![], nops: 0 };
    let local = match rng.below(10) {
        0 | 1 => [0u8; 32],
        2 => [0xffu8; 32],
        _ => rand_raw(rng),
    };
    b.key(0, local);
    let mut stored: Vec<u64> = Vec::new(); // key indices used by table operations
    let mut focus_groups: Vec<Vec<u64>> = Vec::new();
    let nfocus = if small { rng.range(1, 2) } else { rng.range(3, 5) };
    for _ in 0..nfocus {
        let j = match rng.below(12) {
            0 => 0usize,
            1 => 1,
            2 => 254,
            3 => 255,
            4 => 5,
            5 => 6,
            6 => rng.range(2, 4) as usize,
            7 => rng.range(7, 12) as usize,
            _ => rng.below(256) as usize,
        };
        let want = if small { rng.range(1, 6) } else { rng.range(4, 30) };
        let mut g = Vec::new();
        for _ in 0..want {
            let d = dist_in_bucket(j, &rand_raw(rng));
            let k = b.key(0, xor(&local, &d));
            g.push(k);
            stored.push(k);
        }
        focus_groups.push(g);
    }
    let nscatter = if small { rng.range(0, 3) } else { rng.range(5, 20) };
    for _ in 0..nscatter {
        let j = rng.below(256) as usize;
        let k = b.key(0, xor(&local, &dist_in_bucket(j, &rand_raw(rng))));
        stored.push(k);
    }
    if !small && rng.chance(30) {
        let n = rng.range(10, 60);
        let mut g = Vec::new();
        for _ in 0..n {
            let k = b.key(rng.range(1, 1_000_000), [0u8; 32]);
            g.push(k);
            stored.push(k);
        }
        focus_groups.push(g);
    }
    let mut targets: Vec<u64> = vec![0];
    let ntargets = if small { rng.range(1, 4) } else { rng.range(10, 30) };
    for _ in 0..ntargets {
        let d = match rng.below(10) {
            0 => small_dist(rng.range(1, 63), 0),
            1 => small_dist(rng.range(1, 63), 250),
            _ => dist_in_bucket(rng.below(256) as usize, &rand_raw(rng)),
        };
        targets.push(b.key(0, xor(&local, &d)));
    }
    let nops = if small {
        rng.range(5, 25)
    } else if thorough {
        rng.range(20, 400)
    } else {
        rng.range(20, 150)
    };
    let ks: [u64; 6] = [0, 1, 3, 20, 25, 1000];
    for _ in 0..nops {
        // operations concentrate on one group so that its bucket overflows
        let k = if rng.chance(70) && !focus_groups.is_empty() {
            let g = &focus_groups[rng.below(focus_groups.len() as u64) as usize];
            g[rng.below(g.len() as u64) as usize]
        } else if rng.chance(3) {
            0
        } else if !stored.is_empty() {
            stored[rng.below(stored.len() as u64) as usize]
        } else {
            0
        };
        match rng.below(100) {
            0..=39 => {
                let na = if rng.chance(6) { 0 } else { rng.range(1, 3) };
                b.op(&[2, k, na, pick_conn(rng)]);
            }
            40..=54 => {
                let a = rng.chance(75) as u64;
                b.op(&[1, k, a, pick_conn(rng)]);
            }
            55..=66 => b.op(&[3, k, rng.chance(50) as u64]),
            67..=74 => b.op(&[4, k, rng.pick(&[0u64, 1, 2])]),
            75..=79 => b.op(&[0, k]),
            80..=96 => {
                let t = if rng.chance(70) {
                    targets[rng.below(targets.len() as u64) as usize]
                } else {
                    k
                };
                b.op(&[5, t, rng.pick(&ks)]);
            }
            _ => {
                let t = targets[rng.below(targets.len() as u64) as usize];
                b.op(&[6, t]);
            }
        }
    }
    let nfinal = if small { 2 } else { 10 };
    for _ in 0..nfinal {
        let t = if rng.chance(80) || stored.is_empty() {
            targets[rng.below(targets.len() as u64) as usize]
        } else {
            stored[rng.below(stored.len() as u64) as usize]
        };
        b.op(&[5, t, rng.pick(&ks)]);
    }
    b.finish()
}

fn rich_list(b: &mut Vec<u64>, l: &[u64]) {
    b.push(l.len() as u64);
    b.extend(l);
}

impl Builder {
    /// rich forms (tags 11..14): explicit address numbers; the victims list is filled in by the run
    fn insert(&mut self, k: u64, l: &[u64], c: u64) {
        let mut o = vec![11, k];
        rich_list(&mut o, l);
        o.extend([c, 0]);
        self.op(&o);
    }
    fn add(&mut self, k: u64, l: &[u64], c: u64) {
        let mut o = vec![12, k];
        rich_list(&mut o, l);
        o.extend([c, 0]);
        self.op(&o);
    }
    fn connected(&mut self, k: u64, dialed: Option<u64>) {
        self.op(&[13, k, dialed.map_or(0, |a| a + 1), 0]);
    }
    fn dial_failure(&mut self, k: u64, l: &[u64]) {
        let mut o = vec![14, k];
        rich_list(&mut o, l);
        o.push(0);
        self.op(&o);
    }
}

fn small_addrs(rng: &mut Rng) -> Vec<u64> {
    match rng.below(8) {
        0 => vec![0],
        1 => vec![1],
        2 => vec![0, 2],
        3 => vec![1, 3],
        4 => vec![2],
        5 => vec![0, 1],
        6 => vec![200, 3], // a public address
        _ => vec![rng.below(6)],
    }
}

fn pick_local(rng: &mut Rng) -> [u8; 32] {
    match rng.below(10) {
        0 | 1 => [0u8; 32],
        2 => [0xffu8; 32],
        _ => rand_raw(rng),
    }
}

/// A bucket is filled to capacity with peers that are told to be connected (most of them through
/// an inbound connection, which adds no address); dial failures, re-mentions with every
/// connection type, inserts, lookups and a few disconnects follow; then newcomers of the same
/// bucket arrive. By ground truth no connected peer may lose its place.
fn gen_pressure_case(rng: &mut Rng, small: bool) -> Vec<u64> {
    let mut b = Builder { keys: vec![], ops: vec![], nops: 0 };
    let local = pick_local(rng);
    b.key(0, local);
    let real = rng.chance(25);
    let j = if real {
        255
    } else {
        match rng.below(8) {
            0 => 255usize,
            1 => 254,
            2 => 5,
            3 => 6,
            4 => 7,
            _ => rng.range(5, 255) as usize,
        }
    };
    let nold = if small { rng.range(3, 6) } else { 20 } as usize;
    let nnew = rng.range(1, if small { 2 } else { 5 }) as usize;
    let mut ks: Vec<u64> = Vec::new();
    if real {
        // SHA-256 keys of real peer ids that fall into bucket 255 of the local key
        let mut seed = 1 + rng.below(1_000_000) * 1000;
        while ks.len() < nold + nnew {
            let raw = Key::from(peer_from_seed(seed)).verif_raw();
            if (raw[0] ^ local[0]) & 0x80 != 0 {
                ks.push(b.key(seed, [0u8; 32]));
            }
            seed += 1;
        }
    } else {
        let mut seen: Vec<[u8; 32]> = Vec::new();
        while ks.len() < nold + nnew {
            let d = dist_in_bucket(j, &rand_raw(rng));
            if !seen.contains(&d) {
                seen.push(d);
                ks.push(b.key(0, xor(&local, &d)));
            }
        }
    }
    let (old, newc) = ks.split_at(nold);
    // what each peer's store is expected to hold (for dial failures that hit stored addresses)
    let mut known: HashMap<u64, Vec<u64>> = HashMap::new();
    // with a small bucket (K = 20 is fixed in the code) the bucket is not full: still a valid case
    for k in old.iter() {
        let l = small_addrs(rng);
        if rng.chance(70) {
            let c = if rng.chance(60) { 0 } else { pick_conn(rng) };
            b.add(*k, &l, c);
            known.insert(*k, l.iter().map(|a| a & !1).collect());
        } else {
            let l = if rng.chance(30) { vec![] } else { l };
            b.insert(*k, &l, pick_conn(rng));
            known.insert(*k, l.clone());
        }
        if rng.chance(85) {
            let dialed = if rng.chance(65) { None } else { Some(rng.below(6)) };
            b.connected(*k, dialed);
            if let Some(a) = dialed {
                known.entry(*k).or_default().push(a);
            }
        }
    }
    let nnoise = if small { rng.range(2, 10) } else { rng.range(10, 45) };
    for _ in 0..nnoise {
        let k = old[rng.below(old.len() as u64) as usize];
        match rng.below(100) {
            0..=34 => {
                // dial failure: the stored addresses (all of them, or one), or unrelated ones
                let st = known.get(&k).cloned().unwrap_or_default();
                let l = match rng.below(10) {
                    0..=4 => st,
                    5 | 6 => st.into_iter().take(1).collect(),
                    7 => vec![],
                    _ => small_addrs(rng),
                };
                b.dial_failure(k, &l);
            }
            35..=54 => {
                let l = if rng.chance(8) { vec![] } else { small_addrs(rng) };
                b.add(k, &l, rng.below(4));
                known.entry(k).or_default().extend(l.iter().map(|a| a & !1));
            }
            55..=62 => b.insert(k, &small_addrs(rng), rng.below(4)),
            63..=69 => b.op(&[0, k]),
            70..=79 => b.connected(k, if rng.chance(60) { None } else { Some(rng.below(6)) }),
            80..=87 => b.op(&[7, k]),
            88..=93 => b.op(&[8, k, 0]),
            _ => b.op(&[5, k, rng.pick(&[1u64, 20, 25])]),
        }
    }
    for n in newc.iter() {
        if rng.chance(70) {
            b.add(*n, &small_addrs(rng), pick_conn(rng));
        } else {
            b.insert(*n, &small_addrs(rng), pick_conn(rng));
        }
        if rng.chance(30) {
            let k = old[rng.below(old.len() as u64) as usize];
            b.dial_failure(k, &known.get(&k).cloned().unwrap_or_default());
        }
    }
    for _ in 0..3 {
        let k = ks[rng.below(ks.len() as u64) as usize];
        b.op(&[5, k, rng.pick(&[3u64, 20, 25, 1000])]);
    }
    b.finish()
}

/// Few peers, many addresses: the per-peer stores fill up (capacity 64, eviction of a minimal
/// record), scores move with dial results, and `addresses()` reports the best 32.
fn gen_addr_case(rng: &mut Rng, small: bool) -> Vec<u64> {
    let mut b = Builder { keys: vec![], ops: vec![], nops: 0 };
    let local = pick_local(rng);
    b.key(0, local);
    let npeers = rng.range(1, 4);
    let mut ks = Vec::new();
    for _ in 0..npeers {
        let j = rng.below(256) as usize;
        ks.push(b.key(0, xor(&local, &dist_in_bucket(j, &rand_raw(rng)))));
    }
    if rng.chance(30) {
        ks.push(b.key(rng.range(1, 1_000_000), [0u8; 32]));
    }
    let pool = if small { 12 } else { rng.pick(&[40u64, 90, 140, 200]) };
    let nops = if small { rng.range(4, 12) } else { rng.range(15, 60) };
    let some = |rng: &mut Rng, max: u64| -> Vec<u64> {
        let n = rng.range(1, max);
        (0..n).map(|_| 2 * rng.below(pool) + rng.chance(25) as u64 + if rng.chance(20) { 200 } else { 0 }).collect()
    };
    for _ in 0..nops {
        let k = ks[rng.below(ks.len() as u64) as usize];
        match rng.below(100) {
            0..=39 => b.add(k, &some(rng, if small { 4 } else { 45 }), if rng.chance(70) { 0 } else { rng.below(4) }),
            40..=46 => b.insert(k, &some(rng, if small { 4 } else { 70 }), rng.below(4)),
            47..=64 => b.dial_failure(k, &some(rng, if small { 3 } else { 30 })),
            65..=76 => b.connected(k, if rng.chance(80) { Some(2 * rng.below(pool) + rng.chance(50) as u64) } else { None }),
            77..=80 => b.op(&[7, k]),
            81..=94 => b.op(&[8, k, 0]),
            _ => b.op(&[5, k, 20]),
        }
    }
    for k in ks.iter() {
        b.op(&[8, *k, 0]);
    }
    b.finish()
}

/// The extremes of the key space: distances 1, 2, 3 (buckets 0 and 1), 2^255, 2^256-1, the local
/// key itself and keys given twice, as stored peers and as targets.
fn gen_extreme_case(rng: &mut Rng) -> Vec<u64> {
    let mut b = Builder { keys: vec![], ops: vec![], nops: 0 };
    let local = pick_local(rng);
    b.key(0, local);
    let mut top = [0u8; 32];
    top[0] = 0x80;
    let mut top1 = top;
    top1[31] = 1;
    let dists: Vec<[u8; 32]> = vec![
        small_dist(1, 0),
        small_dist(2, 0),
        small_dist(3, 0),
        top,
        top1,
        [0xffu8; 32],
        small_dist(1, 248),
        {
            let mut d = [0xffu8; 32];
            d[0] = 0x7f;
            d
        },
    ];
    let mut ks: Vec<u64> = dists.iter().map(|d| b.key(0, xor(&local, d))).collect();
    // the same keys once more (a second entry of the key table names the same peer)
    for d in dists.iter().take(3) {
        ks.push(b.key(0, xor(&local, d)));
    }
    ks.push(b.key(0, local)); // the local key under another index
    let nops = rng.range(10, 40);
    for _ in 0..nops {
        let k = ks[rng.below(ks.len() as u64) as usize];
        match rng.below(100) {
            0..=34 => b.add(k, &small_addrs(rng), pick_conn(rng)),
            35..=44 => b.insert(k, &small_addrs(rng), pick_conn(rng)),
            45..=52 => b.connected(k, if rng.chance(50) { None } else { Some(rng.below(4)) }),
            53..=58 => b.dial_failure(k, &small_addrs(rng)),
            59..=62 => b.op(&[7, k]),
            63..=66 => b.op(&[0, k]),
            67..=89 => b.op(&[5, k, rng.pick(&[0u64, 1, 2, 3, 20, 1000])]),
            90..=94 => b.op(&[8, k, 0]),
            _ => b.op(&[6, k]),
        }
    }
    for k in ks.clone() {
        b.op(&[5, k, 1000]);
        b.op(&[6, k]);
    }
    b.op(&[5, 0, 1000]);
    b.finish()
}

fn run_emit(out: &mut Outputs, c: Vec<u64>) {
    if c.first() == Some(&0) {
        // glue case (second stream): the observed operations are written back into the case
        match catch_unwind(AssertUnwindSafe(|| crate::c14_glue::run_stored(&c))) {
            Ok(Some((case, trace))) => out.emit(&case, &trace),
            Ok(None) => out.emit(&c, &[0]),
            Err(_) => out.emit(&c, &[PANIC_MARK]),
        }
        return;
    }
    match catch_unwind(AssertUnwindSafe(|| run_case(&c))) {
        Ok(Some((case, t))) => out.emit(&case, &t),
        Ok(None) => out.emit(&c, &[0]),
        Err(_) => out.emit(&c, &[PANIC_MARK]),
    }
}

pub fn main(args: &Args) {
    let seed = args.u64("seed", 1);
    let ncases = args.u64("cases", 100);
    let thorough = args.str("tier") == Some("thorough");
    let mut out = Outputs::open(args);
    let mut rng = Rng::new(seed);

    let mut stored: Vec<Vec<u64>> = Vec::new();
    if let Some(r) = args.str("replay") {
        stored = read_cases(Path::new(r));
    } else if let Some(d) = args.str("corpus") {
        stored = read_cases(Path::new(d));
    }
    for c in stored {
        run_emit(&mut out, c);
    }
    if args.str("replay").is_some() {
        return;
    }
    for n in 0..ncases {
        let mut r = rng.fork();
        if n % 3 == 2 {
            // second stream: the Kademlia event loop around the table
            match catch_unwind(AssertUnwindSafe(|| crate::c14_glue::generate(&mut r, n < 40, thorough))) {
                Ok(Some((case, trace))) => out.emit(&case, &trace),
                Ok(None) => out.emit(&[0, 0], &[0]),
                Err(_) => out.emit(&[0, 0], &[PANIC_MARK]),
            }
            continue;
        }
        let c = match n {
            // every 6-bit pattern of the low / high distance bits, as peers and as targets
            40 => gen_pattern_case(&mut r, [0u8; 32], 0, 1),
            41 => {
                let l = rand_raw(&mut r);
                gen_pattern_case(&mut r, l, 0, 0)
            }
            42 => {
                let l = rand_raw(&mut r);
                gen_pattern_case(&mut r, l, 250, 1)
            }
            43 => {
                let l = rand_raw(&mut r);
                gen_pattern_case(&mut r, l, 123, 2)
            }
            44 | 45 => gen_extreme_case(&mut r),
            _ => match n % 12 {
                0 | 4 | 6 => gen_pressure_case(&mut r, n < 40),
                9 => gen_addr_case(&mut r, n < 40),
                10 if n % 24 == 10 => gen_extreme_case(&mut r),
                _ => gen_case(&mut r, n < 40, thorough),
            },
        };
        run_emit(&mut out, c);
    }
}
