//! C13: request-response correspondence. The REAL `RequestResponseProtocol::run` future runs over a
//! real `TransportService` attached to the handle of a real `TransportManager`; the harness plays
//! the transport (scripted `InnerTransportEvent`s and connection command channels), the manager's
//! belief about every peer (which decides what `dial()` returns), the remote peers (in-memory byte
//! carriers under the crate's own `Substream` type) and the user (the public
//! `RequestResponseHandle`), on a paused tokio clock. After every stimulus the `run` future is
//! polled by hand until nothing is ready, and the events seen by the user, the frames seen by the
//! remote side, the `dial()` calls with their results and the private bookkeeping (published by
//! the loop itself every time it comes back to its `select!`) are printed.
//! Case and trace format: see coq/C13/Glue.v.
use crate::util::*;
use futures::{FutureExt, StreamExt};
use litep2p::{
    error::ImmediateDialError,
    protocol::request_response::{
        verif::{self as rrv, VerifProtocol},
        DialOptions, RejectReason, RequestResponseError, RequestResponseEvent,
        RequestResponseHandle,
    },
    types::RequestId,
    PeerId,
};
use std::{
    collections::VecDeque,
    io,
    panic::{catch_unwind, AssertUnwindSafe},
    path::Path,
    pin::Pin,
    sync::{Arc, Mutex},
    task::{Context, Poll, Waker},
    time::Duration,
};
use tokio::io::{AsyncRead, AsyncWrite, ReadBuf};

const NPEERS: usize = 4;
/// Fallback protocol names, by the number used in cases and traces (0 = the main protocol).
const FALLBACK_NAMES: [&str; 2] = ["/verif/req/0", "/verif/req/00"];

fn fallback_name(id: u64) -> Option<&'static str> {
    if id == 0 { None } else { FALLBACK_NAMES.get(id as usize - 1).copied() }
}

fn fallback_id(name: &Option<litep2p::types::protocol::ProtocolName>) -> u64 {
    match name {
        None => 0,
        Some(n) => FALLBACK_NAMES.iter().position(|x| **x == **n).map(|i| i as u64 + 1).unwrap_or(99),
    }
}

// ------------------------------------------------------------------ byte carrier

#[derive(Default)]
struct CarrierInner {
    gate: u8, // 0 = writes block, 1 = writes succeed, 2 = writes fail
    inbox: VecDeque<u8>,
    eof: bool,
    err: bool,
    outbox: Vec<u8>,
    read_waker: Option<Waker>,
    write_waker: Option<Waker>,
}

#[derive(Clone)]
struct Carrier(Arc<Mutex<CarrierInner>>);

impl Carrier {
    fn new(gate: u8) -> Self {
        Carrier(Arc::new(Mutex::new(CarrierInner { gate, ..Default::default() })))
    }
    fn set_gate(&self, gate: u8) {
        let mut c = self.0.lock().unwrap();
        c.gate = gate;
        if let Some(w) = c.write_waker.take() {
            w.wake();
        }
    }
    fn gate(&self) -> u8 {
        self.0.lock().unwrap().gate
    }
    fn feed(&self, bytes: &[u8]) {
        let mut c = self.0.lock().unwrap();
        c.inbox.extend(bytes.iter().copied());
        if let Some(w) = c.read_waker.take() {
            w.wake();
        }
    }
    fn close_read(&self, err: bool) {
        let mut c = self.0.lock().unwrap();
        if err {
            c.err = true;
        } else {
            c.eof = true;
        }
        if let Some(w) = c.read_waker.take() {
            w.wake();
        }
    }
    /// A whole unsigned-varint frame that arrived at the remote end, if any.
    fn take_frame(&self) -> Option<Vec<u8>> {
        let mut c = self.0.lock().unwrap();
        let mut len = 0usize;
        let mut shift = 0;
        let mut i = 0;
        loop {
            let b = *c.outbox.get(i)?;
            len |= ((b & 0x7f) as usize) << shift;
            shift += 7;
            i += 1;
            if b & 0x80 == 0 {
                break;
            }
        }
        if c.outbox.len() < i + len {
            return None;
        }
        let frame = c.outbox[i..i + len].to_vec();
        c.outbox.drain(..i + len);
        Some(frame)
    }
}

impl AsyncRead for Carrier {
    fn poll_read(self: Pin<&mut Self>, cx: &mut Context<'_>, buf: &mut ReadBuf<'_>) -> Poll<io::Result<()>> {
        let mut c = self.0.lock().unwrap();
        if !c.inbox.is_empty() {
            let n = buf.remaining().min(c.inbox.len());
            let bytes: Vec<u8> = c.inbox.drain(..n).collect();
            buf.put_slice(&bytes);
            return Poll::Ready(Ok(()));
        }
        if c.err {
            return Poll::Ready(Err(io::ErrorKind::ConnectionReset.into()));
        }
        if c.eof {
            return Poll::Ready(Ok(()));
        }
        c.read_waker = Some(cx.waker().clone());
        Poll::Pending
    }
}

impl AsyncWrite for Carrier {
    fn poll_write(self: Pin<&mut Self>, cx: &mut Context<'_>, buf: &[u8]) -> Poll<io::Result<usize>> {
        let mut c = self.0.lock().unwrap();
        match c.gate {
            0 => {
                c.write_waker = Some(cx.waker().clone());
                Poll::Pending
            }
            1 => {
                c.outbox.extend_from_slice(buf);
                Poll::Ready(Ok(buf.len()))
            }
            _ => Poll::Ready(Err(io::ErrorKind::BrokenPipe.into())),
        }
    }
    fn poll_flush(self: Pin<&mut Self>, _cx: &mut Context<'_>) -> Poll<io::Result<()>> {
        Poll::Ready(Ok(()))
    }
    fn poll_shutdown(self: Pin<&mut Self>, _cx: &mut Context<'_>) -> Poll<io::Result<()>> {
        Poll::Ready(Ok(()))
    }
}

fn payload(len: u64, tag: u64) -> Vec<u8> {
    (0..len).map(|i| ((tag + i) % 256) as u8).collect()
}

fn frame(len: u64, tag: u64) -> Vec<u8> {
    let mut out = Vec::new();
    let mut n = len;
    loop {
        let b = (n & 0x7f) as u8;
        n >>= 7;
        if n == 0 {
            out.push(b);
            break;
        }
        out.push(b | 0x80);
    }
    out.extend(payload(len, tag));
    out
}

/// (length, tag) of a byte string; tag 1000 marks bytes that are not one of our patterns.
fn describe(bytes: &[u8]) -> (u64, u64) {
    if bytes.is_empty() {
        return (0, 0);
    }
    let tag = bytes[0] as u64;
    if bytes == payload(bytes.len() as u64, tag).as_slice() {
        (bytes.len() as u64, tag)
    } else {
        (bytes.len() as u64, 1000)
    }
}

/// Result codes of `TransportService::dial` (D_* of coq/C13/Model.v; 0 and 1 are the two `Ok`s).
fn dial_error_code(e: &ImmediateDialError) -> u64 {
    match e {
        ImmediateDialError::TriedToDialSelf => 2,
        ImmediateDialError::AlreadyConnected => 3,
        ImmediateDialError::NoAddressAvailable => 4,
        ImmediateDialError::TaskClosed => 5,
        ImmediateDialError::ChannelClogged => 6,
        ImmediateDialError::PeerIdMissing => 7,
    }
}

fn error_code(e: &RequestResponseError) -> u64 {
    match e {
        RequestResponseError::Rejected(RejectReason::ConnectionClosed) => 0,
        RequestResponseError::Rejected(RejectReason::SubstreamClosed) => 1,
        RequestResponseError::Rejected(RejectReason::DialFailed(None)) => 2,
        RequestResponseError::Rejected(RejectReason::DialFailed(Some(e))) => 10 + dial_error_code(e),
        RequestResponseError::Rejected(RejectReason::SubstreamOpenError(_)) => 4,
        RequestResponseError::Canceled => 5,
        RequestResponseError::Timeout => 6,
        RequestResponseError::NotConnected => 7,
        RequestResponseError::TooLargePayload => 8,
        RequestResponseError::UnsupportedProtocol => 9,
    }
}

// ------------------------------------------------------------------ the world of one case

struct Chan {
    carrier: Carrier,
    out: bool,
    seen: bool,
}

struct World {
    peers: Vec<PeerId>,
    proto: VerifProtocol,
    /// `None` once the user has dropped the handle
    handle: Option<RequestResponseHandle>,
    connected: Vec<bool>,
    opens: Vec<(usize, usize)>, // (substream id, peer index)
    chans: Vec<Chan>,
    hpend: Vec<usize>,
    feedback: Vec<(usize, futures::channel::oneshot::Receiver<()>)>,
    /// the REAL `RequestResponseProtocol::run` future, polled by hand; `None` once it has returned
    run: Option<futures::future::BoxFuture<'static, ()>>,
    /// what the harness made the transport manager believe about each peer (view codes of Model.v)
    view: Vec<u64>,
    /// peers with an accepted dial that the environment has not answered yet
    owed: Vec<bool>,
    /// the manager's command channel was filled up by the harness
    clogged: bool,
    /// the environment's books and the manager's command channel disagree about the dials
    books_off: bool,
}

impl World {
    fn peer_index(&self, p: &PeerId) -> u64 {
        self.peers.iter().position(|x| x == p).map(|i| i as u64).unwrap_or(99)
    }

    /// Polls the real `run` future until nothing is ready; collects what became observable. The
    /// loop may park in the middle of a handler when the event channel is full, so the user's
    /// events are drained between polls until a poll brings nothing new.
    async fn settle(&mut self, events: &mut Vec<Vec<u64>>) {
        self.poll_loop(events).await;
        self.collect(events);
    }

    async fn poll_loop(&mut self, events: &mut Vec<Vec<u64>>) {
        let mut quiet = 0;
        for _ in 0..100_000 {
            let mut finished = false;
            match self.run.as_mut() {
                Some(run) => {
                    if let Poll::Ready(()) = futures::poll!(run.as_mut()) {
                        finished = true;
                    }
                }
                None => break,
            }
            if finished {
                self.run = None;
                events.push(vec![13, 1]);
            }
            // only the user side is drained while the loop may be parked in a handler; the scripted
            // connections read their command channels after the loop has come to rest
            let before = events.len();
            self.collect_user(events);
            if events.len() == before {
                quiet += 1;
                if quiet >= 3 {
                    break;
                }
            } else {
                quiet = 0;
            }
        }
    }

    fn collect(&mut self, events: &mut Vec<Vec<u64>>) {
        self.collect_user(events);
        self.collect_transport(events);
    }

    fn collect_user(&mut self, events: &mut Vec<Vec<u64>>) {
        while let Some(Some(ev)) = self.handle.as_mut().and_then(|h| h.next().now_or_never()) {
            match ev {
                RequestResponseEvent::ResponseReceived { request_id, response, fallback, .. } => {
                    let (len, tag) = describe(&response);
                    events.push(vec![2, request_id.verif_as_usize() as u64, len, tag]);
                    if fallback.is_some() {
                        events.push(vec![9, request_id.verif_as_usize() as u64, fallback_id(&fallback)]);
                    }
                }
                RequestResponseEvent::RequestFailed { request_id, error, .. } => {
                    events.push(vec![3, request_id.verif_as_usize() as u64, error_code(&error)]);
                }
                RequestResponseEvent::RequestReceived { peer, request_id, request, fallback } => {
                    let (len, tag) = describe(&request);
                    let irid = request_id.verif_as_usize();
                    self.hpend.push(irid);
                    events.push(vec![4, irid as u64, self.peer_index(&peer), len, tag]);
                    if fallback.is_some() {
                        events.push(vec![10, irid as u64, fallback_id(&fallback)]);
                    }
                }
            }
        }
        let mut waiting = Vec::new();
        for (irid, mut rx) in std::mem::take(&mut self.feedback) {
            match rx.try_recv() {
                Ok(Some(())) => events.push(vec![7, irid as u64, 1]),
                Ok(None) => waiting.push((irid, rx)),
                Err(_) => events.push(vec![7, irid as u64, 0]),
            }
        }
        self.feedback = waiting;
        // the calls of TransportService::dial and what they returned
        let mut sent_commands = vec![0usize; self.peers.len()];
        for (peer, error) in rrv::verif_dial_log::take() {
            let p = self.peer_index(&peer);
            let res = match error {
                Some(e) => dial_error_code(&e),
                // Ok(()): a command went to the manager unless a dial was in progress already
                None => {
                    if let Some(o) = self.owed.get_mut(p as usize) {
                        *o = true;
                    }
                    if matches!(self.view.get(p as usize), Some(3) | Some(5) | Some(6)) {
                        1
                    } else {
                        if let Some(n) = sent_commands.get_mut(p as usize) {
                            *n += 1;
                        }
                        0
                    }
                }
            };
            events.push(vec![11, p, res]);
        }
        // cross-check with the manager's command channel: one DialPeer per `Ok` outside a dial in progress
        if !self.clogged {
            let mut got = vec![0usize; self.peers.len()];
            for peer in self.proto.clog_manager(false) {
                if let Some(n) = got.get_mut(self.peer_index(&peer) as usize) {
                    *n += 1;
                }
            }
            if got != sent_commands {
                self.books_off = true;
            }
        }
    }

    fn collect_transport(&mut self, events: &mut Vec<Vec<u64>>) {
        for i in 0..self.peers.len() {
            if self.connected[i] {
                for sid in self.proto.take_open_requests(self.peers[i]) {
                    self.opens.push((sid, i));
                    events.push(vec![8, sid as u64, i as u64]);
                }
            }
        }
        for (i, ch) in self.chans.iter_mut().enumerate() {
            while let Some(f) = ch.carrier.take_frame() {
                let (len, tag) = describe(&f);
                if ch.out {
                    ch.seen = true;
                }
                events.push(vec![5, i as u64, len, tag]);
            }
        }
    }

    /// The bookkeeping the real loop published when it last came back to its `select!`.
    fn dump(&self, out: &mut Vec<u64>) {
        let d = match (self.run.is_some(), rrv::published_dump()) {
            (true, Some(d)) => d,
            _ => Default::default(),
        };
        let mut peers: Vec<(u64, Vec<usize>, Vec<usize>)> =
            d.peers.iter().map(|(p, a, i)| (self.peer_index(p), a.clone(), i.clone())).collect();
        peers.sort();
        out.push(peers.len() as u64);
        for (p, a, i) in peers {
            out.push(p);
            out.push(a.len() as u64);
            out.extend(a.iter().map(|x| *x as u64));
            out.push(i.len() as u64);
            out.extend(i.iter().map(|x| *x as u64));
        }
        let mut dials: Vec<(u64, Vec<usize>)> =
            d.pending_dials.iter().map(|(p, r)| (self.peer_index(p), r.clone())).collect();
        dials.sort();
        out.push(dials.len() as u64);
        for (p, r) in dials {
            out.push(p);
            out.push(r.len() as u64);
            out.extend(r.iter().map(|x| *x as u64));
        }
        out.push(d.pending_outbound.len() as u64);
        for (sid, p, rid) in d.pending_outbound.iter() {
            out.extend([*sid as u64, self.peer_index(p), *rid as u64]);
        }
        out.push(d.cancels.len() as u64);
        out.extend(d.cancels.iter().map(|x| *x as u64));
        out.extend([d.request_futures as u64, d.inbound_reading as u64, d.inbound_responding as u64]);
    }
}

fn nth_mod<T: Copy>(k: u64, l: &[T]) -> Option<T> {
    if l.is_empty() {
        None
    } else {
        Some(l[(k % l.len() as u64) as usize])
    }
}

/// What one stimulus made observable.
struct StepRec {
    target: Option<u64>,
    events: Vec<Vec<u64>>,
    dump: Vec<u64>,
}

/// How the event channel (protocol -> user) is sized: `None` = the default, `Some(n)` = capacity n.
type Mode = Option<usize>;

const TMO_MS: u64 = 5000;

/// Width (number of fields including the tag) of an op.
fn op_width(tag: u64) -> usize {
    match tag {
        0 | 23 => 8,
        1 | 3 | 4 | 7 | 8 | 10 | 11 | 12 | 16 | 17 | 26 | 27 | 29 => 2,
        2 | 5 | 9 | 13 | 14 | 21 => 4,
        6 | 28 => 3,
        15 | 25 => 5,
        18 | 19 | 20 => 6,
        24 => 7,
        22 | 30 | 31 => 1,
        _ => usize::MAX,
    }
}

/// Returns what every stimulus made observable and, for the stimuli that make two things ready
/// at the same instant, which one the implementation looked at first.
async fn run_ops(c: &[u64], mode: Mode) -> Option<(Vec<StepRec>, Vec<u64>)> {
    let (max_inb, ndial, max_size) = (*c.first()?, *c.get(1)?, *c.get(2)?);
    let (selfp, ccap) = (*c.get(3)?, *c.get(4)?);
    let nops = *c.get(5)? as usize;
    if max_size > 1 << 20 || ccap > 4096 {
        return None;
    }
    let channels = match mode {
        Some(event_cap) => Some((event_cap, if ccap > 0 { ccap as usize } else { 4096 })),
        None => if ccap > 0 { Some((4096, ccap as usize)) } else { None },
    };
    let mut choices: Vec<u64> = Vec::new();
    let mut peers: Vec<PeerId> = (0..NPEERS).map(|_| PeerId::random()).collect();
    let ndial = (ndial as usize).min(NPEERS);
    let dialable: Vec<PeerId> = peers.iter().take(ndial).cloned().collect();
    rrv::reset_published();
    rrv::verif_dial_log::enable(true);
    let (mut proto, handle) = VerifProtocol::new_full(
        max_size as usize,
        None,
        if max_inb == 0 { None } else { Some((max_inb - 1) as usize) },
        &dialable,
        &FALLBACK_NAMES,
        channels,
    );
    if selfp != 0 {
        peers[NPEERS - 1] = proto.local_peer();
    }
    let run = Some(proto.take_run());
    let mut w = World {
        run,
        peers,
        proto,
        handle: Some(handle),
        connected: vec![false; NPEERS],
        opens: Vec::new(),
        chans: Vec::new(),
        hpend: Vec::new(),
        feedback: Vec::new(),
        view: (0..NPEERS).map(|p| if p < ndial { 1 } else { 0 }).collect(),
        owed: vec![false; NPEERS],
        clogged: false,
        books_off: false,
    };
    let mut out: Vec<StepRec> = Vec::new();
    let mut i = 6;
    for _ in 0..nops {
        let tag = *c.get(i)?;
        let base = i;
        let a = move |k: usize| c.get(base + k).copied();
        let mut events: Vec<Vec<u64>> = Vec::new();
        let mut target: Option<u64> = None;
        let mut race: Option<u64> = None;
        let mut race_rid = 0u64;
        let width = op_width(tag);
        if width == usize::MAX || i + width > c.len() {
            return None;
        }
        // static checks of the fields (the same as Glue.decode_case)
        match tag {
            0 | 23 => {
                if a(1)? as usize >= NPEERS || a(3)? > 1 << 21 || a(6)? > 1 << 21 || a(5)? > 2 {
                    return None;
                }
            }
            18 | 24 => {
                if a(1)? as usize >= NPEERS || a(4)? > 1 << 21 || a(3)? > 64 {
                    return None;
                }
            }
            19 => {
                if a(4)? > 10_000_000 || a(2)? > 1 << 21 {
                    return None;
                }
            }
            20 | 9 | 14 | 15 | 25 => {
                if a(2)? > 1 << 21 {
                    return None;
                }
            }
            21 => {
                if a(2)? > 10_000_000 {
                    return None;
                }
            }
            2 => {
                if a(1)? as usize >= NPEERS || a(3)? > 4096 {
                    return None;
                }
            }
            3 | 4 | 17 => {
                if a(1)? as usize >= NPEERS {
                    return None;
                }
            }
            5 => {
                if a(3)? > 2 {
                    return None;
                }
            }
            6 => {
                if a(2)? > 2 {
                    return None;
                }
            }
            12 => {
                if a(1)? > 10_000_000 {
                    return None;
                }
            }
            13 => {
                if a(1)? as usize >= NPEERS || a(3)? > 2 {
                    return None;
                }
            }
            27 => {
                if a(1)? > 1 {
                    return None;
                }
            }
            28 => {
                if a(1)? as usize >= NPEERS || a(2)? > 6 {
                    return None;
                }
            }
            _ => {}
        }
        i += width;
        if w.run.is_none() {
            // the event loop has ended: nothing is left to stimulate or to observe
            out.push(StepRec { target: None, events: Vec::new(), dump: vec![0; 7] });
            continue;
        }
        let opt = |dial: u64| if dial != 0 { DialOptions::Dial } else { DialOptions::Reject };
        match tag {
            0 | 23 => {
                let (p, dial, len, t) = (a(1)? as usize, a(2)?, a(3)?, a(4)?);
                let (fname, flen, ftag) = (a(5)?, a(6)?, a(7)?);
                let peer = w.peers[p];
                let handle = w.handle.as_mut()?;
                let rid = if tag == 0 {
                    match fallback_name(fname) {
                        None => handle.try_send_request(peer, payload(len, t), opt(dial)).ok()?,
                        Some(name) => handle
                            .try_send_request_with_fallback(
                                peer,
                                payload(len, t),
                                (litep2p::types::protocol::ProtocolName::from(name), payload(flen, ftag)),
                                opt(dial),
                            )
                            .ok()?,
                    }
                } else {
                    // the async variants: the command channel is empty, the call must not wait
                    let polled = match fallback_name(fname) {
                        None => handle.send_request(peer, payload(len, t), opt(dial)).now_or_never(),
                        Some(name) => handle
                            .send_request_with_fallback(
                                peer,
                                payload(len, t),
                                (litep2p::types::protocol::ProtocolName::from(name), payload(flen, ftag)),
                                opt(dial),
                            )
                            .now_or_never(),
                    };
                    match polled {
                        Some(r) => {
                            events.push(vec![12, 0]);
                            r.ok()?
                        }
                        None => {
                            // (the dropped call has burned an id; the model will disagree)
                            events.push(vec![12, 1]);
                            RequestId::from(usize::MAX >> 8)
                        }
                    }
                };
                events.push(vec![1, rid.verif_as_usize() as u64]);
            }
            18 | 24 => {
                // a burst of try_send_request: the command channel takes what it has room for
                let (p, dial, n, len, t) = (a(1)? as usize, a(2)?, a(3)?, a(4)?, a(5)?);
                let peer = w.peers[p];
                for _ in 0..n {
                    if let Ok(rid) = w.handle.as_mut()?.try_send_request(peer, payload(len, t), opt(dial)) {
                        events.push(vec![1, rid.verif_as_usize() as u64]);
                    }
                }
                if tag == 24 {
                    // ... followed by the async send_request: it waits iff the channel is full and gets
                    // through once the event loop has taken a command
                    let mut handle = w.handle.take()?;
                    {
                        let mut fut = Box::pin(handle.send_request(peer, payload(len, t), opt(dial)));
                        let mut res = futures::poll!(fut.as_mut());
                        events.push(vec![12, if res.is_pending() { 1 } else { 0 }]);
                        let mut rounds = 0;
                        let dropit = a(6)? != 0;
                        while res.is_pending() && !dropit && rounds < 64 {
                            if let Some(run) = w.run.as_mut() {
                                let _ = futures::poll!(run.as_mut());
                            }
                            res = futures::poll!(fut.as_mut());
                            rounds += 1;
                        }
                        match res {
                            Poll::Ready(Ok(rid)) => events.push(vec![1, rid.verif_as_usize() as u64]),
                            Poll::Ready(Err(_)) => events.push(vec![99, 4]),
                            // the user gives up waiting: the future is dropped, its id is gone
                            Poll::Pending if dropit => {}
                            Poll::Pending => events.push(vec![99, 5]),
                        }
                    }
                    w.handle = Some(handle);
                }
            }
            19 => {
                // the remote answers and the clock passes the deadline before the loop runs again
                let (k, len, t, dt) = (a(1)?, a(2)?, a(3)?, a(4)?);
                if !w.chans.is_empty() {
                    let ci = (k % w.chans.len() as u64) as usize;
                    target = Some(ci as u64);
                    let ch = &mut w.chans[ci];
                    if ch.out && ch.seen {
                        ch.carrier.feed(&frame(len, t));
                    }
                }
                tokio::time::advance(Duration::from_millis(dt)).await;
                race = Some(19);
            }
            20 => {
                // the remote answers and the user cancels before the loop runs again
                let (k, len, t, rid) = (a(1)?, a(2)?, a(3)?, a(4)?);
                if !w.chans.is_empty() {
                    let ci = (k % w.chans.len() as u64) as usize;
                    target = Some(ci as u64);
                    let ch = &mut w.chans[ci];
                    if ch.out && ch.seen {
                        ch.carrier.feed(&frame(len, t));
                    }
                }
                w.handle.as_mut()?.cancel_request(RequestId::from(rid as usize)).await;
                race = Some(20);
            }
            21 => {
                // the user cancels and the clock passes the deadline before the loop runs again
                let (rid, dt) = (a(1)?, a(2)?);
                w.handle.as_mut()?.cancel_request(RequestId::from(rid as usize)).await;
                tokio::time::advance(Duration::from_millis(dt)).await;
                race = Some(21);
                race_rid = rid;
            }
            22 => {
                w.proto.close_manager_commands();
            }
            1 => {
                w.handle.as_mut()?.cancel_request(RequestId::from(a(1)? as usize)).await;
            }
            2 => {
                let (p, broken, cap) = (a(1)? as usize, a(2)?, a(3)?);
                if !w.connected[p] {
                    w.connected[p] = true;
                    w.owed[p] = false;
                    if cap == 0 {
                        w.proto.inject_connection_established(w.peers[p]);
                    } else {
                        // a command channel with room for `cap` open-substream commands: of the
                        // requests queued behind the dial the first `cap` get a substream, the
                        // others fail at once (ChannelClogged)
                        w.proto.inject_connection_established_with_capacity(w.peers[p], cap as usize);
                    }
                    if broken != 0 {
                        w.proto.break_connection(w.peers[p]);
                    }
                }
            }
            3 => {
                let p = a(1)? as usize;
                if w.connected[p] {
                    w.connected[p] = false;
                    w.proto.inject_connection_closed(w.peers[p]);
                    w.opens.retain(|(_, q)| *q != p);
                }
            }
            4 => {
                let p = a(1)? as usize;
                w.owed[p] = false;
                w.proto.inject_dial_failure(w.peers[p]);
            }
            5 => {
                let (k, gate, neg) = (a(1)?, a(2)?.min(2) as u8, a(3)?);
                if let Some((sid, p)) = nth_mod(k, &w.opens) {
                    target = Some(sid as u64);
                    w.opens.retain(|(s, _)| *s != sid);
                    let carrier = Carrier::new(gate);
                    w.chans.push(Chan { carrier: carrier.clone(), out: true, seen: false });
                    w.proto.inject_substream_opened_with_fallback(w.peers[p], Some(sid), Box::new(carrier), fallback_name(neg));
                }
            }
            6 => {
                let (k, unsupported) = (a(1)?, a(2)?);
                if let Some((sid, _)) = nth_mod(k, &w.opens) {
                    target = Some(sid as u64);
                    w.opens.retain(|(s, _)| *s != sid);
                    w.proto.inject_substream_open_failure_kind(sid, unsupported as usize);
                }
            }
            7 | 8 | 10 | 11 => {
                if !w.chans.is_empty() {
                    let ci = (a(1)? % w.chans.len() as u64) as usize;
                    target = Some(ci as u64);
                    let ch = &mut w.chans[ci];
                    match tag {
                        7 => {
                            if ch.carrier.gate() == 0 {
                                ch.carrier.set_gate(1);
                            }
                        }
                        8 => {
                            if ch.carrier.gate() != 2 {
                                ch.carrier.set_gate(2);
                            }
                        }
                        _ => {
                            // the remote side answers (here: gives up) only after it saw the request
                            if !ch.out || ch.seen {
                                ch.carrier.close_read(tag == 11);
                            }
                        }
                    }
                }
            }
            9 | 14 => {
                let (k, len, t) = (a(1)?, a(2)?, a(3)?);
                if !w.chans.is_empty() {
                    let ci = (k % w.chans.len() as u64) as usize;
                    target = Some(ci as u64);
                    let ch = &mut w.chans[ci];
                    if tag == 9 && ch.out && ch.seen {
                        ch.carrier.feed(&frame(len, t));
                    }
                    if tag == 14 && !ch.out {
                        ch.seen = true;
                        ch.carrier.feed(&frame(len, t));
                    }
                }
            }
            12 => {
                tokio::time::advance(Duration::from_millis(a(1)?)).await;
            }
            13 => {
                let (p, gate, neg) = (a(1)? as usize, a(2)?.min(2) as u8, a(3)?);
                if w.connected[p] {
                    target = Some(w.chans.len() as u64);
                    let carrier = Carrier::new(gate);
                    w.chans.push(Chan { carrier: carrier.clone(), out: false, seen: false });
                    w.proto.inject_substream_opened_with_fallback(w.peers[p], None, Box::new(carrier), fallback_name(neg));
                }
            }
            15 | 25 => {
                let (k, len, t, fb) = (a(1)?, a(2)?, a(3)?, a(4)?);
                // 15: one of the requests waiting for the user; 25: any request id whatsoever
                let pick = if tag == 15 { nth_mod(k, &w.hpend) } else { Some(k as usize) };
                if let Some(irid) = pick {
                    let known = w.hpend.contains(&irid);
                    if known {
                        target = Some(irid as u64);
                    }
                    w.hpend.retain(|x| *x != irid);
                    if fb != 0 {
                        let (tx, rx) = futures::channel::oneshot::channel();
                        if known {
                            w.feedback.push((irid, rx));
                        }
                        w.handle.as_mut()?.send_response_with_feedback(RequestId::from(irid), payload(len, t), tx);
                    } else {
                        w.handle.as_mut()?.send_response(RequestId::from(irid), payload(len, t));
                    }
                }
            }
            16 | 26 => {
                let pick = if tag == 16 { nth_mod(a(1)?, &w.hpend) } else { Some(a(1)? as usize) };
                if let Some(irid) = pick {
                    if w.hpend.contains(&irid) {
                        target = Some(irid as u64);
                    }
                    w.hpend.retain(|x| *x != irid);
                    w.handle.as_mut()?.reject_request(RequestId::from(irid));
                }
            }
            17 => {
                w.proto.break_connection(w.peers[a(1)? as usize]);
            }
            27 => {
                // the event loop ends: the user drops the handle / the service's event channel closes
                // (the response futures die with the loop; their feedback channels are not watched any more)
                w.feedback.clear();
                if a(1)? == 0 {
                    w.handle = None;
                } else {
                    w.proto.close_service();
                }
            }
            28 => {
                let (p, v) = (a(1)? as usize, a(2)?);
                w.view[p] = v;
                w.proto.force_manager_peer(w.peers[p], v as usize);
            }
            29 => {
                w.clogged = a(1)? != 0;
                let _ = w.proto.clog_manager(w.clogged);
            }
            30 => {
                // the environment discharges what it owes: a DialFailure for every accepted,
                // unanswered dial, ConnectionClosed for every connection, and the clock passes
                // every deadline
                for p in 0..NPEERS {
                    if w.owed[p] {
                        w.owed[p] = false;
                        w.proto.inject_dial_failure(w.peers[p]);
                    }
                }
                for p in 0..NPEERS {
                    if w.connected[p] {
                        w.connected[p] = false;
                        w.proto.inject_connection_closed(w.peers[p]);
                    }
                }
                w.opens.clear();
                tokio::time::advance(Duration::from_millis(2 * TMO_MS + 1)).await;
            }
            31 => {
                // the same, but the connections stay: every unanswered open_substream gets a
                // SubstreamOpenFailure instead (silent peers must time out)
                for p in 0..NPEERS {
                    if w.owed[p] {
                        w.owed[p] = false;
                        w.proto.inject_dial_failure(w.peers[p]);
                    }
                }
                for (sid, _) in std::mem::take(&mut w.opens) {
                    w.proto.inject_substream_open_failure(sid, false);
                }
                tokio::time::advance(Duration::from_millis(2 * TMO_MS + 1)).await;
            }
            _ => return None,
        }
        w.settle(&mut events).await;
        if tag == 27 && w.run.is_some() {
            // the loop did not end
            events.push(vec![99, 6]);
        }
        if w.books_off {
            w.books_off = false;
            events.push(vec![99, 3]);
        }
        events.sort();
        match race {
            // which of the two ready things did the implementation look at first?
            // 19, 20: the answer was consumed => the response; 21: a Timeout for that id => the clock
            // (an oversize answer shows up as a read failure, code 4, instead of a response)
            Some(19) | Some(20) => choices.push(if events.iter().any(|e| e[0] == 2 || (e[0] == 3 && e[2] == 4)) { 0 } else { 1 }),
            Some(_) => choices.push(if events.iter().any(|e| e[0] == 3 && e[1] == race_rid && e[2] == 6) { 1 } else { 0 }),
            None => {}
        }
        let mut dump = Vec::new();
        w.dump(&mut dump);
        out.push(StepRec { target, events, dump });
    }
    if i != c.len() {
        return None;
    }
    rrv::verif_dial_log::enable(false);
    Some((out, choices))
}

fn run_mode(c: &[u64], mode: Mode) -> Option<(Vec<StepRec>, Vec<u64>)> {
    let rt = tokio::runtime::Builder::new_current_thread()
        .enable_all()
        .start_paused(true)
        .build()
        .unwrap();
    // unconstrained: tokio's cooperative budget would otherwise make a ready channel or timer
    // report Pending after ~128 operations within this single never-yielding poll, which the
    // non-blocking probes of the harness (now_or_never) would mistake for "nothing ready"
    rt.block_on(tokio::task::unconstrained(run_ops(c, mode)))
}

/// Runs `mode` until the implementation's choices at the racing stimuli are the given ones
/// (they are random: tokio's select! is unbiased).
fn run_until(c: &[u64], mode: Mode, want: &[u64]) -> Option<(Vec<StepRec>, bool)> {
    let mut last = None;
    for _ in 0..40 {
        let (steps, choices) = run_mode(c, mode)?;
        if choices == want {
            return Some((steps, true));
        }
        last = Some(steps);
    }
    last.map(|s| (s, false))
}

/// Writes the observed choices into the case (last field of the racing stimuli).
fn with_choices(c: &[u64], choices: &[u64]) -> Vec<u64> {
    let mut c = c.to_vec();
    let mut i = 6;
    let mut k = 0;
    while i < c.len() {
        let w = op_width(c[i]);
        if w == usize::MAX || i + w > c.len() {
            break;
        }
        if matches!(c[i], 19 | 20 | 21) {
            if let Some(ch) = choices.get(k) {
                c[i + w - 1] = *ch;
            }
            k += 1;
        }
        i += w;
    }
    c
}

/// Every case is run twice on fresh protocol objects, both times as the REAL
/// `RequestResponseProtocol::run` future polled by hand (so a change inside `run` is seen):
///  A. with the default channel sizes — its events and the bookkeeping published by the loop
///     itself are the ones printed;
///  C. with an event channel of capacity 1, the loop parking inside handlers until the user
///     drains — must show the same events and the same bookkeeping as A ("nothing lost").
/// If C disagrees with A on what one stimulus made observable, a marker event `99 2` is added
/// for that stimulus (the model never prints one, so the case shows up as a disagreement) and C's
/// events are printed instead of A's, so that the oracle judges them too.
fn run_case(c: &[u64]) -> (Vec<u64>, Vec<u64>) {
    let c0 = c.to_vec();
    let r = catch_unwind(AssertUnwindSafe(move || {
        let (a, choices) = run_mode(&c0, None)?;
        let c1 = with_choices(&c0, &choices);
        let (k, k_ok) = run_until(&c0, Some(1), &choices)?;
        if a.len() != k.len() {
            return Some((c1, vec![PANIC_MARK, 1]));
        }
        let mut out = vec![1u64];
        for (a, k) in a.iter().zip(k.iter()) {
            let same = k.target == a.target && k.events == a.events && k.dump == a.dump;
            let shown = if !same && k_ok { k } else { a };
            let mut events = shown.events.clone();
            if !same {
                events.push(vec![99, 2]);
            }
            out.push(shown.target.map(|t| t + 1).unwrap_or(0));
            out.push(events.len() as u64);
            for e in events.iter() {
                out.extend(e.iter().copied());
            }
            out.extend(shown.dump.iter().copied());
        }
        Some((c1, out))
    }));
    match r {
        Ok(Some(x)) => x,
        Ok(None) => (c.to_vec(), vec![0]),
        Err(_) => (c.to_vec(), vec![PANIC_MARK]),
    }
}

// ------------------------------------------------------------------ generator

fn assemble(header: [u64; 5], ops: Vec<Vec<u64>>) -> Vec<u64> {
    let mut c = header.to_vec();
    c.push(ops.len() as u64);
    for op in ops {
        c.extend(op);
    }
    c
}

/// The stimuli that end a history: usually the environment discharges everything it owes (so that
/// "exactly one outcome" can be judged for every request of the case), sometimes the event loop
/// is made to end.
fn epilogue(rng: &mut Rng, ops: &mut Vec<Vec<u64>>) {
    if rng.chance(4) {
        ops.push(vec![27, rng.below(2)]);
        if rng.chance(50) {
            ops.push(vec![12, 5100]);
        }
    }
    match rng.below(10) {
        0..=4 => ops.push(vec![30]),
        5..=7 => ops.push(vec![31]),
        _ => {}
    }
}

/// What the manager believes about a peer right after the protocol was told about a change:
/// usually the truth, sometimes it lags behind or runs ahead.
fn manager_follows(rng: &mut Rng, ops: &mut Vec<Vec<u64>>, p: u64, truth: u64) {
    if rng.chance(75) {
        ops.push(vec![28, p, truth]);
    } else if rng.chance(30) {
        ops.push(vec![28, p, rng.below(7)]);
    }
}

/// Dialogue-shaped histories: the generator keeps a rough estimate of the environment (which
/// peers are connected, how many substream-open commands and carriers exist, which inbound
/// requests wait for the user) and mostly picks stimuli that hit something. The estimate may be
/// wrong; a stimulus that misses is a no-op for implementation and model alike.
fn gen_guided(rng: &mut Rng, thorough: bool) -> Vec<u64> {
    let max_inb = rng.pick(&[0u64, 0, 0, 2, 3, 6]);
    let ndial = rng.pick(&[2u64, 4, 4]);
    let max_size = rng.pick(&[16u64, 300, 1024, 1024, 70_000, 1 << 20]);
    let npeers = rng.range(1, 3) as usize;
    let nops = if thorough { rng.range(10, 120) } else { rng.range(6, 50) };
    let selfp = if rng.chance(15) { 1 } else { 0 };
    let ccap = rng.pick(&[0u64, 0, 0, 1, 2, 3]);
    let mut ops: Vec<Vec<u64>> = Vec::new();
    let lens = [0u64, 1, 2, 7, max_size - 1, max_size];
    let mut races = 0;
    let mut connected = vec![false; npeers];
    let mut dialing = vec![0u64; npeers];
    let mut opens = 0u64;
    let mut out_chans: Vec<u64> = Vec::new();
    let mut in_chans: Vec<u64> = Vec::new();
    let mut blocked: Vec<u64> = Vec::new();
    let mut nchans = 0u64;
    let mut ids = 0u64;
    let mut waiting = 0u64;
    for _ in 0..nops {
        let p = rng.below(npeers as u64) as usize;
        // payloads at and around the maximum are rare when the maximum is large (they cost time)
        let len = if rng.chance(6) { max_size + 1 } else if max_size > 2000 && rng.chance(55) { rng.pick(&[0u64, 1, 2, 7, 200]) } else { rng.pick(&lens) };
        let tag = rng.below(256);
        // responses (both directions) go up to the maximum more often than requests
        let rlen = if max_size > 2000 && rng.chance(50) { rng.pick(&[max_size - 1, max_size, max_size]) } else { len };
        let gate = rng.pick(&[1u64, 1, 1, 1, 0, 0, 2]);
        let roll = rng.below(100);
        let op: Vec<u64> = if roll < 22 {
            ids += 1;
            let (fname, flen, ftag) = if rng.chance(30) { (rng.range(1, 2), rng.pick(&lens).min(2000), rng.below(256)) } else { (0, 0, 0) };
            if rng.chance(10) {
                let n = rng.range(2, 5);
                ids += n - 1;
                let took = n.min(if ccap == 0 { 4096 } else { ccap });
                if connected[p] { opens += took; } else { dialing[p] += took; }
                if rng.chance(50) {
                    ids += 1;
                    vec![24, p as u64, 1, n, len, tag, rng.below(2)]
                } else {
                    vec![18, p as u64, 1, n, len, tag]
                }
            } else if connected[p] {
                opens += 1;
                vec![if rng.chance(30) { 23 } else { 0 }, p as u64, rng.below(2), len, tag, fname, flen, ftag]
            } else {
                dialing[p] += 1;
                vec![if rng.chance(30) { 23 } else { 0 }, p as u64, if rng.chance(85) { 1 } else { 0 }, len, tag, fname, flen, ftag]
            }
        } else if roll < 32 {
            let cap = if dialing[p] >= 2 && rng.chance(50) { rng.range(1, dialing[p] - 1) } else { rng.pick(&[0u64, 0, 0, 1, 2]) };
            if !connected[p] {
                connected[p] = true;
                opens += if cap == 0 { dialing[p] } else { dialing[p].min(cap) };
                dialing[p] = 0;
            }
            // a connection whose command channel is dead: no substream can be opened, the peer is
            // not registered although the manager has the connection
            let broken = if rng.chance(8) { 1 } else { 0 };
            if rng.chance(50) {
                manager_follows(rng, &mut ops, p as u64, 2);
                vec![2, p as u64, broken, cap]
            } else {
                ops.push(vec![2, p as u64, broken, cap]);
                manager_follows(rng, &mut ops, p as u64, 2);
                continue;
            }
        } else if roll < 50 && opens > 0 {
            opens -= 1;
            out_chans.push(nchans);
            if gate == 0 {
                blocked.push(nchans);
            }
            nchans += 1;
            vec![5, rng.below(opens + 1), gate, rng.pick(&[0u64, 0, 0, 1, 2])]
        } else if roll < 62 && !out_chans.is_empty() {
            if races < 2 && rng.chance(15) {
                races += 1;
                match rng.below(3) {
                    0 => vec![19, rng.pick(&out_chans), len, tag, rng.pick(&[5100u64, 2600]), 0],
                    1 => vec![20, rng.pick(&out_chans), len, tag, rng.below(ids + 1), 0],
                    _ => vec![21, rng.below(ids + 1), rng.pick(&[5100u64, 2600]), 0],
                }
            } else {
                vec![9, rng.pick(&out_chans), rlen, tag]
            }
        } else if roll < 66 && !blocked.is_empty() {
            let i = rng.below(blocked.len() as u64) as usize;
            vec![if rng.chance(80) { 7 } else { 8 }, blocked.swap_remove(i)]
        } else if roll < 70 && ids > 0 {
            vec![1, rng.below(ids)]
        } else if roll < 73 {
            vec![12, rng.pick(&[1700u64, 2600, 5100, 300])]
        } else if roll < 76 && opens > 0 {
            opens -= 1;
            vec![6, rng.below(opens + 1), rng.below(3)]
        } else if roll < 79 {
            if connected[p] {
                connected[p] = false;
            }
            // the protocol is told first, the manager catches up later (or not within this history)
            ops.push(vec![3, p as u64]);
            if rng.chance(35) {
                ids += 1;
                dialing[p] += 1;
                ops.push(vec![0, p as u64, 1, len, tag, 0, 0, 0]);
            }
            manager_follows(rng, &mut ops, p as u64, 1);
            continue;
        } else if roll < 81 {
            dialing[p] = 0;
            vec![4, p as u64]
        } else if roll < 87 && connected[p] {
            ids += 1;
            in_chans.push(nchans);
            if gate == 0 {
                blocked.push(nchans);
            }
            nchans += 1;
            vec![13, p as u64, gate, rng.pick(&[0u64, 0, 1, 2])]
        } else if roll < 92 && !in_chans.is_empty() {
            waiting += 1;
            vec![14, rng.pick(&in_chans), len, tag]
        } else if roll < 97 && waiting > 0 {
            waiting -= 1;
            if rng.chance(10) {
                vec![25, rng.below(ids + 2), len, tag, rng.below(2)]
            } else {
                vec![15, rng.below(waiting + 1), rlen, tag, rng.below(2)]
            }
        } else if roll < 98 && waiting > 0 {
            waiting -= 1;
            if rng.chance(20) { vec![26, rng.below(ids + 2)] } else { vec![16, rng.below(waiting + 1)] }
        } else if !out_chans.is_empty() && rng.chance(60) {
            vec![rng.pick(&[10u64, 11]), rng.pick(&out_chans)]
        } else {
            match rng.below(6) {
                0 => vec![22],
                1 => vec![29, rng.below(2)],
                2 | 3 => vec![28, p as u64, rng.below(7)],
                4 => vec![30],
                _ => vec![17, p as u64],
            }
        };
        ops.push(op);
    }
    epilogue(rng, &mut ops);
    assemble([max_inb, ndial, max_size, selfp, ccap], ops)
}

fn gen_case(rng: &mut Rng, thorough: bool) -> Vec<u64> {
    if rng.chance(45) {
        return gen_guided(rng, thorough);
    }
    let max_inb = rng.pick(&[0u64, 0, 1, 2, 3, 4]);
    let ndial = rng.pick(&[0u64, 2, 3, 4, 4]);
    let max_size = rng.pick(&[16u64, 16, 300, 1024, 70_000]);
    let npeers = rng.range(1, NPEERS as u64);
    let nops = if thorough { rng.range(5, 120) } else { rng.range(3, 45) };
    let selfp = if rng.chance(20) { 1 } else { 0 };
    let ccap = rng.pick(&[0u64, 0, 0, 1, 2]);
    let mut ops: Vec<Vec<u64>> = Vec::new();
    let mut races = 0;
    let mut sent = 0u64; // request ids are allocated in order: a good guess for cancel targets
    let lens = [0u64, 1, 2, 7, max_size - 1, max_size, max_size + 1];
    let style = rng.below(5);
    for _ in 0..nops {
        let p = rng.below(npeers);
        let k = rng.below(8);
        let len = if rng.chance(12) { max_size + 1 } else if max_size > 2000 && rng.chance(55) { rng.pick(&[0u64, 1, 2, 7, 200]) } else { rng.pick(&lens) };
        let tag = rng.below(256);
        let rlen = if max_size > 2000 && rng.chance(50) { rng.pick(&[max_size - 1, max_size, max_size]) } else { len };
        let gate = rng.pick(&[1u64, 1, 1, 0, 0, 2]);
        let roll = rng.below(100);
        // style 0: outbound heavy; 1: dial heavy; 2: inbound heavy; 3: uniform; 4: dial heavy with a
        // manager whose belief about the peers changes all the time
        if style == 4 && rng.chance(25) {
            ops.push(if rng.chance(12) { vec![29, rng.below(2)] } else { vec![28, p, rng.below(7)] });
        }
        let op: Vec<u64> = match (style, roll) {
            (1, 0..=29) | (4, 0..=29) | (_, 0..=19) => {
                sent += 1;
                let dial = if style == 1 || style == 4 || rng.chance(60) { 1 } else { 0 };
                if rng.chance(10) {
                    let n = rng.range(2, 4);
                    sent += n - 1;
                    if rng.chance(50) {
                        sent += 1;
                        vec![24, p, 1, n, len, tag, rng.below(2)]
                    } else {
                        vec![18, p, 1, n, len, tag]
                    }
                } else if rng.chance(25) {
                    vec![if rng.chance(30) { 23 } else { 0 }, p, dial, len, tag, rng.range(1, 2), rng.pick(&lens).min(2000), rng.below(256)]
                } else {
                    vec![if rng.chance(30) { 23 } else { 0 }, p, dial, len, tag, 0, 0, 0]
                }
            }
            (_, 20..=24) => vec![1, if sent == 0 { 0 } else { rng.below(sent + 2) }],
            (_, 25..=34) => vec![2, p, if rng.chance(10) { 1 } else { 0 }, rng.pick(&[0u64, 0, 0, 1, 1, 2, 3])],
            (_, 35..=39) => vec![3, p],
            (_, 40..=43) => vec![4, p],
            (_, 44..=55) => vec![5, k, gate, rng.pick(&[0u64, 0, 0, 1, 2])],
            (_, 56..=58) => vec![6, k, rng.below(3)],
            (_, 59..=63) => vec![7, k],
            (_, 64..=65) => vec![8, k],
            (_, 66..=74) => {
                if races < 2 && rng.chance(12) {
                    races += 1;
                    match rng.below(3) {
                        0 => vec![19, k, len, tag, rng.pick(&[5100u64, 1700]), 0],
                        1 => vec![20, k, len, tag, rng.below(sent + 1), 0],
                        _ => vec![21, rng.below(sent + 1), rng.pick(&[5100u64, 2600]), 0],
                    }
                } else {
                    vec![9, k, rlen, tag]
                }
            }
            (_, 75..=76) => vec![10, k],
            (_, 77..=78) => vec![11, k],
            (_, 79..=82) => vec![12, rng.pick(&[1700u64, 2600, 5100, 300])],
            (2, 83..=90) | (_, 83..=86) => {
                sent += 1; // inbound ids come from the same allocator
                vec![13, p, gate, rng.pick(&[0u64, 0, 1, 2])]
            }
            (_, 87..=92) => vec![14, k, len, tag],
            (_, 93..=96) => if rng.chance(15) { vec![25, rng.below(sent + 2), len, tag, rng.below(2)] } else { vec![15, k, rlen, tag, rng.below(2)] },
            (_, 97..=98) => if rng.chance(25) { vec![26, rng.below(sent + 2)] } else { vec![16, k] },
            _ => match rng.below(8) {
                0 => vec![22],
                1 => vec![29, rng.below(2)],
                2 | 3 | 4 => vec![28, p, rng.below(7)],
                5 => vec![30],
                _ => vec![17, p],
            },
        };
        ops.push(op);
    }
    epilogue(rng, &mut ops);
    assemble([max_inb, ndial, max_size, selfp, ccap], ops)
}

pub fn main(args: &Args) {
    let seed = args.u64("seed", 1);
    let ncases = args.u64("cases", 100);
    let thorough = args.str("tier") == Some("thorough");
    let mut out = Outputs::open(args);
    let mut rng = Rng::new(seed);

    let mut stored: Vec<Vec<u64>> = Vec::new();
    if let Some(r) = args.str("replay") {
        stored = read_cases(Path::new(r));
    } else if let Some(d) = args.str("corpus") {
        stored = read_cases(Path::new(d));
    }
    for c in stored.iter() {
        let (c, t) = run_case(c);
        out.emit(&c, &t);
    }
    if args.str("replay").is_some() {
        return;
    }
    for _ in 0..ncases {
        let mut r = rng.fork();
        let c = gen_case(&mut r, thorough);
        let (c, t) = run_case(&c);
        out.emit(&c, &t);
    }
}
