//! C13: request-response correspondence. The REAL `RequestResponseProtocol::run` future runs over a
//! real `TransportService` attached to the handle of a real `TransportManager`; the harness plays
//! the transport (scripted `InnerTransportEvent`s and connection command channels), the manager's
//! belief about every peer (which decides what `dial()` returns), the remote peers (in-memory byte
//! carriers under the crate's own `Substream` type) and the user (the public
//! `RequestResponseHandle`), on a paused tokio clock. After every stimulus the `run` future is
//! polled by hand until nothing is ready, and the events seen by the user, the frames seen by the
//! remote side, the `dial()` calls with their results and the private bookkeeping (published by
//! the loop itself every time it comes back to its `select!`) are printed.
//! Case and trace format: see coq/C13/Glue1.v.
//!
//! Two-node cases (first number 1000002, format in coq/C13/Glue2.v): TWO real protocol objects, each
//! with its own scripted environment; a substream that one of them opens to its peer 0 is handed to
//! the other one as an inbound substream, the bytes one side writes are carried to the other side
//! by the harness — any prefix of them (a connection fault at any byte offset), under a
//! fragmentation / stall / end-of-stream / error script for the reads.
use crate::util::*;
use futures::{FutureExt, StreamExt};
use litep2p::{
    error::ImmediateDialError,
    protocol::request_response::{
        verif::{self as rrv, VerifProtocol},
        DialOptions, RejectReason, RequestResponseError, RequestResponseEvent,
        RequestResponseHandle,
    },
    types::RequestId,
    PeerId,
};
use std::{
    cell::Cell,
    collections::VecDeque,
    io,
    panic::{catch_unwind, AssertUnwindSafe},
    path::Path,
    pin::Pin,
    sync::{Arc, Mutex},
    task::{Context, Poll, Waker},
    time::Duration,
};
use tokio::io::{AsyncRead, AsyncWrite, ReadBuf};

#[path = "gen_c13_tables.rs"]
mod gen_tables;

const NPEERS: usize = 4;
const TWO_NODE: u64 = 1_000_002;
/// Fallback protocol names, by the number used in cases and traces (0 = the main protocol).
const FALLBACK_NAMES: [&str; 2] = ["/verif/req/0", "/verif/req/00"];

fn fallback_name(id: u64) -> Option<&'static str> {
    if id == 0 { None } else { FALLBACK_NAMES.get(id as usize - 1).copied() }
}

fn fallback_id(name: &Option<litep2p::types::protocol::ProtocolName>) -> u64 {
    match name {
        None => 0,
        Some(n) => FALLBACK_NAMES.iter().position(|x| **x == **n).map(|i| i as u64 + 1).unwrap_or(99),
    }
}

// ------------------------------------------------------------------ byte carrier

/// What the next read of a scripted carrier does (V.C04.Model.rdev).
#[derive(Clone, Copy)]
enum RdEv {
    Pending,
    Chunk(u64),
    Eof,
    Err,
}

thread_local! {
    /// script events consumed on this thread: the settle loop goes on while it moves
    static PROGRESS: Cell<u64> = const { Cell::new(0) };
}

fn progress() -> u64 {
    PROGRESS.with(|p| p.get())
}

#[derive(Default)]
struct CarrierInner {
    gate: u8, // 0 = writes block, 1 = writes succeed, 2 = writes fail
    inbox: VecDeque<u8>,
    eof: bool,
    err: bool,
    outbox: Vec<u8>,
    read_waker: Option<Waker>,
    write_waker: Option<Waker>,
    /// `Some`: reads follow the script; once it is used up, whatever is left arrives, then the stream ends
    script: Option<VecDeque<RdEv>>,
}

#[derive(Clone)]
struct Carrier(Arc<Mutex<CarrierInner>>);

impl Carrier {
    fn new(gate: u8) -> Self {
        Carrier(Arc::new(Mutex::new(CarrierInner { gate, ..Default::default() })))
    }
    fn set_gate(&self, gate: u8) {
        let mut c = self.0.lock().unwrap();
        c.gate = gate;
        if let Some(w) = c.write_waker.take() {
            w.wake();
        }
    }
    fn gate(&self) -> u8 {
        self.0.lock().unwrap().gate
    }
    fn feed(&self, bytes: &[u8]) {
        let mut c = self.0.lock().unwrap();
        c.inbox.extend(bytes.iter().copied());
        if let Some(w) = c.read_waker.take() {
            w.wake();
        }
    }
    fn close_read(&self, err: bool) {
        let mut c = self.0.lock().unwrap();
        if err {
            c.err = true;
        } else {
            c.eof = true;
        }
        if let Some(w) = c.read_waker.take() {
            w.wake();
        }
    }
    /// The bytes `wire` are in flight towards the reader, which will see them under `script`.
    fn deliver(&self, wire: &[u8], script: Vec<RdEv>) {
        let mut c = self.0.lock().unwrap();
        c.inbox = wire.iter().copied().collect();
        c.script = Some(script.into_iter().collect());
        if let Some(w) = c.read_waker.take() {
            w.wake();
        }
    }
    /// A whole unsigned-varint frame that arrived at the remote end, if any, together with the bytes
    /// it was made of (length prefix included).
    fn take_frame_raw(&self) -> Option<(Vec<u8>, Vec<u8>)> {
        let mut c = self.0.lock().unwrap();
        let mut len = 0usize;
        let mut shift = 0;
        let mut i = 0;
        loop {
            let b = *c.outbox.get(i)?;
            len |= ((b & 0x7f) as usize) << shift;
            shift += 7;
            i += 1;
            if b & 0x80 == 0 {
                break;
            }
        }
        if c.outbox.len() < i + len {
            return None;
        }
        let frame = c.outbox[i..i + len].to_vec();
        let raw: Vec<u8> = c.outbox.drain(..i + len).collect();
        Some((frame, raw))
    }
}

impl AsyncRead for Carrier {
    fn poll_read(self: Pin<&mut Self>, cx: &mut Context<'_>, buf: &mut ReadBuf<'_>) -> Poll<io::Result<()>> {
        let mut c = self.0.lock().unwrap();
        if c.script.is_some() {
            PROGRESS.with(|p| p.set(p.get() + 1));
            let ev = c.script.as_mut().and_then(|s| s.pop_front()).unwrap_or(RdEv::Chunk(1 << 32));
            return match ev {
                RdEv::Pending => {
                    cx.waker().wake_by_ref();
                    Poll::Pending
                }
                RdEv::Chunk(n) => {
                    // zero bytes = end of stream
                    let k = (n as usize).min(buf.remaining()).min(c.inbox.len());
                    let bytes: Vec<u8> = c.inbox.drain(..k).collect();
                    buf.put_slice(&bytes);
                    Poll::Ready(Ok(()))
                }
                RdEv::Eof => Poll::Ready(Ok(())),
                RdEv::Err => Poll::Ready(Err(io::ErrorKind::ConnectionReset.into())),
            };
        }
        if !c.inbox.is_empty() {
            let n = buf.remaining().min(c.inbox.len());
            let bytes: Vec<u8> = c.inbox.drain(..n).collect();
            buf.put_slice(&bytes);
            return Poll::Ready(Ok(()));
        }
        if c.err {
            return Poll::Ready(Err(io::ErrorKind::ConnectionReset.into()));
        }
        if c.eof {
            return Poll::Ready(Ok(()));
        }
        c.read_waker = Some(cx.waker().clone());
        Poll::Pending
    }
}

impl AsyncWrite for Carrier {
    fn poll_write(self: Pin<&mut Self>, cx: &mut Context<'_>, buf: &[u8]) -> Poll<io::Result<usize>> {
        let mut c = self.0.lock().unwrap();
        match c.gate {
            0 => {
                c.write_waker = Some(cx.waker().clone());
                Poll::Pending
            }
            1 => {
                c.outbox.extend_from_slice(buf);
                Poll::Ready(Ok(buf.len()))
            }
            _ => Poll::Ready(Err(io::ErrorKind::BrokenPipe.into())),
        }
    }
    fn poll_flush(self: Pin<&mut Self>, _cx: &mut Context<'_>) -> Poll<io::Result<()>> {
        Poll::Ready(Ok(()))
    }
    fn poll_shutdown(self: Pin<&mut Self>, _cx: &mut Context<'_>) -> Poll<io::Result<()>> {
        Poll::Ready(Ok(()))
    }
}

fn payload(len: u64, tag: u64) -> Vec<u8> {
    (0..len).map(|i| ((tag + i) % 256) as u8).collect()
}

fn frame(len: u64, tag: u64) -> Vec<u8> {
    let mut out = Vec::new();
    let mut n = len;
    loop {
        let b = (n & 0x7f) as u8;
        n >>= 7;
        if n == 0 {
            out.push(b);
            break;
        }
        out.push(b | 0x80);
    }
    out.extend(payload(len, tag));
    out
}

/// (length, tag) of a byte string; tag 1000 marks bytes that are not one of our patterns.
fn describe(bytes: &[u8]) -> (u64, u64) {
    if bytes.is_empty() {
        return (0, 0);
    }
    let tag = bytes[0] as u64;
    if bytes == payload(bytes.len() as u64, tag).as_slice() {
        (bytes.len() as u64, tag)
    } else {
        (bytes.len() as u64, 1000)
    }
}

/// Result codes of `TransportService::dial` (D_* of coq/C13/Model.v; 0 and 1 are the two `Ok`s).
fn dial_error_code(e: &ImmediateDialError) -> u64 {
    match e {
        ImmediateDialError::TriedToDialSelf => 2,
        ImmediateDialError::AlreadyConnected => 3,
        ImmediateDialError::NoAddressAvailable => 4,
        ImmediateDialError::TaskClosed => 5,
        ImmediateDialError::ChannelClogged => 6,
        ImmediateDialError::PeerIdMissing => 7,
    }
}

fn error_code(e: &RequestResponseError) -> u64 {
    match e {
        RequestResponseError::Rejected(RejectReason::ConnectionClosed) => 0,
        RequestResponseError::Rejected(RejectReason::SubstreamClosed) => 1,
        RequestResponseError::Rejected(RejectReason::DialFailed(None)) => 2,
        RequestResponseError::Rejected(RejectReason::DialFailed(Some(e))) => 10 + dial_error_code(e),
        RequestResponseError::Rejected(RejectReason::SubstreamOpenError(_)) => 4,
        RequestResponseError::Canceled => 5,
        RequestResponseError::Timeout => 6,
        RequestResponseError::NotConnected => 7,
        RequestResponseError::TooLargePayload => 8,
        RequestResponseError::UnsupportedProtocol => 9,
    }
}

// ------------------------------------------------------------------ the world of one case

struct Chan {
    carrier: Carrier,
    out: bool,
    seen: bool,
    /// one end of a link between the two nodes of a two-node case: its read side is fed by the
    /// courier only
    linked: bool,
    /// the first frame written on this carrier, as the bytes that went out (length prefix included)
    wrote: Option<Vec<u8>>,
}

/// The configuration of one protocol object: the header of a case.
#[derive(Clone, Copy)]
struct Header {
    max_inb: u64,
    ndial: u64,
    max_size: u64,
    flags: u64,
    ccap: u64,
}

impl Header {
    fn selfp(&self) -> bool {
        self.flags & 1 != 0
    }
    /// (what is given to ConfigBuilder::with_timeout, the timeout in force)
    fn timeout(&self) -> (Option<Duration>, u64) {
        match (self.flags >> 1) & 3 {
            0 => (None, DEFAULT_TMO_MS),
            1 => (Some(Duration::from_millis(DEFAULT_TMO_MS)), DEFAULT_TMO_MS),
            2 => (Some(Duration::from_millis(1001)), 1001),
            _ => (Some(Duration::from_millis(7777)), 7777),
        }
    }
    /// start value of the request-id allocator
    fn rid0(&self) -> usize {
        match (self.flags >> 3) & 3 {
            0 => 0,
            1 => usize::MAX - 2,
            2 => usize::MAX - 17,
            _ => usize::MAX,
        }
    }
    fn keep_alive_tiny(&self) -> bool {
        self.flags & 32 != 0
    }
    fn valid(&self) -> bool {
        self.max_size <= 1 << 20 && self.ccap <= 4096 && self.flags <= 63
    }
}

struct World {
    peers: Vec<PeerId>,
    proto: VerifProtocol,
    /// `None` once the user has dropped the handle
    handle: Option<RequestResponseHandle>,
    connected: Vec<bool>,
    opens: Vec<(usize, usize)>, // (substream id, peer index)
    chans: Vec<Chan>,
    hpend: Vec<usize>,
    feedback: Vec<(usize, futures::channel::oneshot::Receiver<()>)>,
    /// the REAL `RequestResponseProtocol::run` future, polled by hand; `None` once it has returned
    run: Option<futures::future::BoxFuture<'static, ()>>,
    /// what the harness made the transport manager believe about each peer (view codes of Model.v)
    view: Vec<u64>,
    /// peers with an accepted dial that the environment has not answered yet
    owed: Vec<bool>,
    /// the manager's command channel was filled up by the harness
    clogged: bool,
    /// the environment's books and the manager's command channel disagree about the dials
    books_off: bool,
    /// the bookkeeping this world's loop published when it last came back to its `select!`
    last_dump: Option<rrv::VerifDump>,
    /// start value of the id allocator: ids are printed relative to it (modulo 2^64)
    rid0: usize,
    tmo_ms: u64,
}

impl World {
    fn new(h: &Header, mode: Mode) -> World {
        let channels = match mode {
            Some(event_cap) => Some((event_cap, if h.ccap > 0 { h.ccap as usize } else { 4096 })),
            None => if h.ccap > 0 { Some((4096, h.ccap as usize)) } else { None },
        };
        let mut peers: Vec<PeerId> = (0..NPEERS).map(|_| PeerId::random()).collect();
        let ndial = (h.ndial as usize).min(NPEERS);
        let dialable: Vec<PeerId> = peers.iter().take(ndial).cloned().collect();
        rrv::reset_published();
        rrv::verif_dial_log::enable(true);
        let (timeout, tmo_ms) = h.timeout();
        let keep_alive = if h.keep_alive_tiny() { Duration::from_nanos(1) } else { Duration::from_secs(1_000_000_000) };
        let (mut proto, handle) = VerifProtocol::new_full_keep_alive(
            h.max_size as usize,
            timeout,
            if h.max_inb == 0 { None } else { Some((h.max_inb - 1) as usize) },
            &dialable,
            &FALLBACK_NAMES,
            channels,
            keep_alive,
        );
        proto.set_next_request_id(h.rid0());
        if h.selfp() {
            peers[NPEERS - 1] = proto.local_peer();
        }
        let run = Some(proto.take_run());
        World {
            run,
            peers,
            proto,
            handle: Some(handle),
            connected: vec![false; NPEERS],
            opens: Vec::new(),
            chans: Vec::new(),
            hpend: Vec::new(),
            feedback: Vec::new(),
            view: (0..NPEERS).map(|p| if p < ndial { 1 } else { 0 }).collect(),
            owed: vec![false; NPEERS],
            clogged: false,
            books_off: false,
            last_dump: None,
            rid0: h.rid0(),
            tmo_ms,
        }
    }

    fn peer_index(&self, p: &PeerId) -> u64 {
        self.peers.iter().position(|x| x == p).map(|i| i as u64).unwrap_or(99)
    }

    /// a request id as the trace prints it: relative to the allocator's start value
    fn rel(&self, id: usize) -> u64 {
        id.wrapping_sub(self.rid0) as u64
    }
    fn rid(&self, id: RequestId) -> u64 {
        self.rel(id.verif_as_usize())
    }
    /// and back
    fn abs(&self, rel: u64) -> RequestId {
        RequestId::from((rel as usize).wrapping_add(self.rid0))
    }

    /// Polls the real `run` future until nothing is ready; collects what became observable. The
    /// loop may park in the middle of a handler when the event channel is full, so the user's
    /// events are drained between polls until a poll brings nothing new.
    async fn settle(&mut self, events: &mut Vec<Vec<u64>>) {
        self.poll_loop(events).await;
        self.collect(events);
    }

    async fn poll_loop(&mut self, events: &mut Vec<Vec<u64>>) {
        let mut quiet = 0;
        for _ in 0..1_000_000 {
            let mut finished = false;
            let before_progress = progress();
            match self.run.as_mut() {
                Some(run) => {
                    // this thread has one slot for the published bookkeeping: keep this world's copy
                    // of what THIS poll published (a parked loop publishes nothing)
                    rrv::reset_published();
                    if let Poll::Ready(()) = futures::poll!(run.as_mut()) {
                        finished = true;
                    }
                    if let Some(d) = rrv::published_dump() {
                        self.last_dump = Some(d);
                    }
                }
                None => break,
            }
            if finished {
                self.run = None;
                events.push(vec![13, 1]);
            }
            // only the user side is drained while the loop may be parked in a handler; the scripted
            // connections read their command channels after the loop has come to rest
            let before = events.len();
            self.collect_user(events);
            if events.len() == before && progress() == before_progress {
                quiet += 1;
                if quiet >= 3 {
                    break;
                }
            } else {
                quiet = 0;
            }
        }
    }

    fn collect(&mut self, events: &mut Vec<Vec<u64>>) {
        self.collect_user(events);
        self.collect_transport(events);
    }

    fn collect_user(&mut self, events: &mut Vec<Vec<u64>>) {
        while let Some(Some(ev)) = self.handle.as_mut().and_then(|h| h.next().now_or_never()) {
            match ev {
                RequestResponseEvent::ResponseReceived { request_id, response, fallback, .. } => {
                    let (len, tag) = describe(&response);
                    events.push(vec![2, self.rid(request_id), len, tag]);
                    if fallback.is_some() {
                        events.push(vec![9, self.rid(request_id), fallback_id(&fallback)]);
                    }
                }
                RequestResponseEvent::RequestFailed { request_id, error, .. } => {
                    events.push(vec![3, self.rid(request_id), error_code(&error)]);
                }
                RequestResponseEvent::RequestReceived { peer, request_id, request, fallback } => {
                    let (len, tag) = describe(&request);
                    let irid = self.rid(request_id);
                    self.hpend.push(irid as usize);
                    events.push(vec![4, irid, self.peer_index(&peer), len, tag]);
                    if fallback.is_some() {
                        events.push(vec![10, irid, fallback_id(&fallback)]);
                    }
                }
            }
        }
        let mut waiting = Vec::new();
        for (irid, mut rx) in std::mem::take(&mut self.feedback) {
            match rx.try_recv() {
                Ok(Some(())) => events.push(vec![7, irid as u64, 1]),
                Ok(None) => waiting.push((irid, rx)),
                Err(_) => events.push(vec![7, irid as u64, 0]),
            }
        }
        self.feedback = waiting;
        // the calls of TransportService::dial and what they returned
        let mut sent_commands = vec![0usize; self.peers.len()];
        for (peer, error) in rrv::verif_dial_log::take() {
            let p = self.peer_index(&peer);
            let res = match error {
                Some(e) => dial_error_code(&e),
                // Ok(()): a command went to the manager unless a dial was in progress already
                None => {
                    if let Some(o) = self.owed.get_mut(p as usize) {
                        *o = true;
                    }
                    if matches!(self.view.get(p as usize), Some(3) | Some(5) | Some(6)) {
                        1
                    } else {
                        if let Some(n) = sent_commands.get_mut(p as usize) {
                            *n += 1;
                        }
                        0
                    }
                }
            };
            events.push(vec![11, p, res]);
        }
        // cross-check with the manager's command channel: one DialPeer per `Ok` outside a dial in progress
        if !self.clogged {
            let mut got = vec![0usize; self.peers.len()];
            for peer in self.proto.clog_manager(false) {
                if let Some(n) = got.get_mut(self.peer_index(&peer) as usize) {
                    *n += 1;
                }
            }
            if got != sent_commands {
                self.books_off = true;
            }
        }
    }

    fn collect_transport(&mut self, events: &mut Vec<Vec<u64>>) {
        for i in 0..self.peers.len() {
            if self.connected[i] {
                for sid in self.proto.take_open_requests(self.peers[i]) {
                    self.opens.push((sid, i));
                    events.push(vec![8, sid as u64, i as u64]);
                }
            }
        }
        for (i, ch) in self.chans.iter_mut().enumerate() {
            while let Some((f, raw)) = ch.carrier.take_frame_raw() {
                let (len, tag) = describe(&f);
                if ch.out {
                    ch.seen = true;
                }
                if ch.wrote.is_none() {
                    ch.wrote = Some(raw);
                }
                events.push(vec![5, i as u64, len, tag]);
            }
        }
    }

    /// The bookkeeping the real loop published when it last came back to its `select!`.
    fn dump(&self, out: &mut Vec<u64>) {
        let d = match (self.run.is_some(), self.last_dump.clone()) {
            (true, Some(d)) => d,
            _ => Default::default(),
        };
        let rel = |x: &usize| self.rel(*x);
        let mut peers: Vec<(u64, Vec<u64>, Vec<u64>)> = d
            .peers
            .iter()
            .map(|(p, a, i)| {
                let mut a: Vec<u64> = a.iter().map(rel).collect();
                let mut i: Vec<u64> = i.iter().map(rel).collect();
                a.sort();
                i.sort();
                (self.peer_index(p), a, i)
            })
            .collect();
        peers.sort();
        out.push(peers.len() as u64);
        for (p, a, i) in peers {
            out.push(p);
            out.push(a.len() as u64);
            out.extend(a.iter().copied());
            out.push(i.len() as u64);
            out.extend(i.iter().copied());
        }
        let mut dials: Vec<(u64, Vec<u64>)> =
            d.pending_dials.iter().map(|(p, r)| (self.peer_index(p), r.iter().map(rel).collect())).collect();
        dials.sort();
        out.push(dials.len() as u64);
        for (p, r) in dials {
            out.push(p);
            out.push(r.len() as u64);
            out.extend(r.iter().copied());
        }
        out.push(d.pending_outbound.len() as u64);
        for (sid, p, rid) in d.pending_outbound.iter() {
            out.extend([*sid as u64, self.peer_index(p), rel(rid)]);
        }
        let mut cancels: Vec<u64> = d.cancels.iter().map(rel).collect();
        cancels.sort();
        out.push(cancels.len() as u64);
        out.extend(cancels.iter().copied());
        out.extend([d.request_futures as u64, d.inbound_reading as u64, d.inbound_responding as u64]);
    }

    /// The connection stops reading commands: `open_substream` draws its substream id, upgrades a
    /// downgraded handle (the harness keeps a sender of the command channel) and fails to send.
    fn break_connection(&mut self, p: usize) {
        self.proto.break_connection(self.peers[p]);
    }

    /// The record of a stimulus that leaves this world alone: nothing may become observable.
    async fn idle(&mut self) -> StepRec {
        if self.run.is_none() {
            return StepRec { target: None, events: Vec::new(), dump: vec![0; 7] };
        }
        let mut events = Vec::new();
        self.settle(&mut events).await;
        events.sort();
        let mut dump = Vec::new();
        self.dump(&mut dump);
        StepRec { target: None, events, dump }
    }

    /// Settles and packs up what a stimulus made observable.
    async fn finish(&mut self, target: Option<u64>, mut events: Vec<Vec<u64>>) -> StepRec {
        self.settle(&mut events).await;
        if self.books_off {
            self.books_off = false;
            events.push(vec![99, 3]);
        }
        events.sort();
        let mut dump = Vec::new();
        self.dump(&mut dump);
        StepRec { target, events, dump }
    }
}

fn nth_mod<T: Copy>(k: u64, l: &[T]) -> Option<T> {
    if l.is_empty() {
        None
    } else {
        Some(l[(k % l.len() as u64) as usize])
    }
}

/// What one stimulus made observable.
struct StepRec {
    target: Option<u64>,
    events: Vec<Vec<u64>>,
    dump: Vec<u64>,
}

/// How the event channel (protocol -> user) is sized: `None` = the default, `Some(n)` = capacity n.
type Mode = Option<usize>;

const DEFAULT_TMO_MS: u64 = 5000;

/// Width (number of fields including the tag) of an op.
fn op_width(tag: u64) -> usize {
    match tag {
        0 | 23 => 8,
        1 | 3 | 4 | 7 | 8 | 10 | 11 | 12 | 16 | 17 | 26 | 27 | 29 => 2,
        2 | 5 | 9 | 13 | 14 | 21 => 4,
        6 | 28 => 3,
        15 | 25 => 5,
        18 | 19 | 20 => 6,
        24 => 7,
        22 | 30 | 31 => 1,
        _ => usize::MAX,
    }
}

/// The static checks of the fields of an op (the same as Glue.decode_case).
fn op_fields_ok(op: &[u64]) -> Option<()> {
    let a = |k: usize| op.get(k).copied();
    match a(0)? {
        0 | 23 => {
            if a(1)? as usize >= NPEERS || a(3)? > 1 << 21 || a(6)? > 1 << 21 || a(5)? > 2 {
                return None;
            }
        }
        18 | 24 => {
            if a(1)? as usize >= NPEERS || a(4)? > 1 << 21 || a(3)? > 64 {
                return None;
            }
        }
        19 => {
            if a(4)? > 10_000_000 || a(2)? > 1 << 21 {
                return None;
            }
        }
        20 | 9 | 14 | 15 | 25 => {
            if a(2)? > 1 << 21 {
                return None;
            }
        }
        21 => {
            if a(2)? > 10_000_000 {
                return None;
            }
        }
        2 => {
            if a(1)? as usize >= NPEERS || a(3)? > 4096 {
                return None;
            }
        }
        3 | 4 | 17 => {
            if a(1)? as usize >= NPEERS {
                return None;
            }
        }
        5 => {
            if a(3)? > 2 {
                return None;
            }
        }
        6 => {
            if a(2)? > 14 {
                return None;
            }
        }
        12 => {
            if a(1)? > 10_000_000 {
                return None;
            }
        }
        13 => {
            if a(1)? as usize >= NPEERS || a(3)? > 2 {
                return None;
            }
        }
        27 => {
            if a(1)? > 1 {
                return None;
            }
        }
        28 => {
            if a(1)? as usize >= NPEERS || a(2)? > 6 {
                return None;
            }
        }
        _ => {}
    }
    Some(())
}

impl World {
    /// One stimulus (`op` = its tag and fields, already checked). For the stimuli that make two
    /// things ready at the same instant, `choices` gets which one the implementation looked at first.
    async fn apply(&mut self, op: &[u64], choices: &mut Vec<u64>) -> Option<StepRec> {
        let tag = *op.first()?;
        let a = |k: usize| op.get(k).copied();
        let mut events: Vec<Vec<u64>> = Vec::new();
        let mut target: Option<u64> = None;
        let mut race: Option<u64> = None;
        let mut race_rid = 0u64;
        if self.run.is_none() {
            // the event loop has ended: nothing is left to stimulate or to observe
            return Some(StepRec { target: None, events: Vec::new(), dump: vec![0; 7] });
        }
        let w = self;
        let opt = |dial: u64| if dial != 0 { DialOptions::Dial } else { DialOptions::Reject };
        match tag {
            0 | 23 => {
                let (p, dial, len, t) = (a(1)? as usize, a(2)?, a(3)?, a(4)?);
                let (fname, flen, ftag) = (a(5)?, a(6)?, a(7)?);
                let peer = w.peers[p];
                let handle = w.handle.as_mut()?;
                let rid = if tag == 0 {
                    match fallback_name(fname) {
                        None => handle.try_send_request(peer, payload(len, t), opt(dial)).ok()?,
                        Some(name) => handle
                            .try_send_request_with_fallback(
                                peer,
                                payload(len, t),
                                (litep2p::types::protocol::ProtocolName::from(name), payload(flen, ftag)),
                                opt(dial),
                            )
                            .ok()?,
                    }
                } else {
                    // the async variants: the command channel is empty, the call must not wait
                    let polled = match fallback_name(fname) {
                        None => handle.send_request(peer, payload(len, t), opt(dial)).now_or_never(),
                        Some(name) => handle
                            .send_request_with_fallback(
                                peer,
                                payload(len, t),
                                (litep2p::types::protocol::ProtocolName::from(name), payload(flen, ftag)),
                                opt(dial),
                            )
                            .now_or_never(),
                    };
                    match polled {
                        Some(r) => {
                            events.push(vec![12, 0]);
                            r.ok()?
                        }
                        None => {
                            // (the dropped call has burned an id; the model will disagree)
                            events.push(vec![12, 1]);
                            RequestId::from((usize::MAX >> 8).wrapping_add(w.rid0))
                        }
                    }
                };
                events.push(vec![1, w.rid(rid)]);
            }
            18 | 24 => {
                // a burst of try_send_request: the command channel takes what it has room for
                let (p, dial, n, len, t) = (a(1)? as usize, a(2)?, a(3)?, a(4)?, a(5)?);
                let peer = w.peers[p];
                for _ in 0..n {
                    if let Ok(rid) = w.handle.as_mut()?.try_send_request(peer, payload(len, t), opt(dial)) {
                        events.push(vec![1, w.rid(rid)]);
                    }
                }
                if tag == 24 {
                    // ... followed by the async send_request: it waits iff the channel is full and gets
                    // through once the event loop has taken a command
                    let mut handle = w.handle.take()?;
                    {
                        let mut fut = Box::pin(handle.send_request(peer, payload(len, t), opt(dial)));
                        let mut res = futures::poll!(fut.as_mut());
                        events.push(vec![12, if res.is_pending() { 1 } else { 0 }]);
                        let mut rounds = 0;
                        let dropit = a(6)? != 0;
                        while res.is_pending() && !dropit && rounds < 64 {
                            if let Some(run) = w.run.as_mut() {
                                rrv::reset_published();
                                let _ = futures::poll!(run.as_mut());
                                if let Some(d) = rrv::published_dump() {
                                    w.last_dump = Some(d);
                                }
                            }
                            res = futures::poll!(fut.as_mut());
                            rounds += 1;
                        }
                        match res {
                            Poll::Ready(Ok(rid)) => events.push(vec![1, w.rid(rid)]),
                            Poll::Ready(Err(_)) => events.push(vec![99, 4]),
                            // the user gives up waiting: the future is dropped, its id is gone
                            Poll::Pending if dropit => {}
                            Poll::Pending => events.push(vec![99, 5]),
                        }
                    }
                    w.handle = Some(handle);
                }
            }
            19 => {
                // the remote answers and the clock passes the deadline before the loop runs again
                let (k, len, t, dt) = (a(1)?, a(2)?, a(3)?, a(4)?);
                if !w.chans.is_empty() {
                    let ci = (k % w.chans.len() as u64) as usize;
                    target = Some(ci as u64);
                    let ch = &mut w.chans[ci];
                    if ch.out && ch.seen {
                        ch.carrier.feed(&frame(len, t));
                    }
                }
                tokio::time::advance(Duration::from_millis(dt)).await;
                race = Some(19);
            }
            20 => {
                // the remote answers and the user cancels before the loop runs again
                let (k, len, t, rid) = (a(1)?, a(2)?, a(3)?, a(4)?);
                if !w.chans.is_empty() {
                    let ci = (k % w.chans.len() as u64) as usize;
                    target = Some(ci as u64);
                    let ch = &mut w.chans[ci];
                    if ch.out && ch.seen {
                        ch.carrier.feed(&frame(len, t));
                    }
                }
                let id = w.abs(rid);
                w.handle.as_mut()?.cancel_request(id).await;
                race = Some(20);
            }
            21 => {
                // the user cancels and the clock passes the deadline before the loop runs again
                let (rid, dt) = (a(1)?, a(2)?);
                let id = w.abs(rid);
                w.handle.as_mut()?.cancel_request(id).await;
                tokio::time::advance(Duration::from_millis(dt)).await;
                race = Some(21);
                race_rid = rid;
            }
            22 => {
                w.proto.close_manager_commands();
            }
            1 => {
                let id = w.abs(a(1)?);
                w.handle.as_mut()?.cancel_request(id).await;
            }
            2 => {
                let (p, broken, cap) = (a(1)? as usize, a(2)?, a(3)?);
                if !w.connected[p] {
                    w.connected[p] = true;
                    w.owed[p] = false;
                    if cap == 0 {
                        w.proto.inject_connection_established(w.peers[p]);
                    } else {
                        // a command channel with room for `cap` open-substream commands: of the
                        // requests queued behind the dial the first `cap` get a substream, the
                        // others fail at once (ChannelClogged)
                        w.proto.inject_connection_established_with_capacity(w.peers[p], cap as usize);
                    }
                    if broken != 0 {
                        w.break_connection(p);
                    }
                }
            }
            3 => {
                let p = a(1)? as usize;
                if w.connected[p] {
                    w.connected[p] = false;
                    w.proto.inject_connection_closed(w.peers[p]);
                    w.opens.retain(|(_, q)| *q != p);
                }
            }
            4 => {
                let p = a(1)? as usize;
                w.owed[p] = false;
                w.proto.inject_dial_failure(w.peers[p]);
            }
            5 => {
                let (k, gate, neg) = (a(1)?, a(2)?.min(2) as u8, a(3)?);
                if let Some((sid, p)) = nth_mod(k, &w.opens) {
                    target = Some(sid as u64);
                    w.opens.retain(|(s, _)| *s != sid);
                    let carrier = Carrier::new(gate);
                    w.chans.push(Chan { carrier: carrier.clone(), out: true, seen: false, linked: false, wrote: None });
                    w.proto.inject_substream_opened_with_fallback(w.peers[p], Some(sid), Box::new(carrier), fallback_name(neg));
                }
            }
            6 => {
                let (k, kind) = (a(1)?, a(2)?);
                if let Some((sid, p)) = nth_mod(k, &w.opens) {
                    target = Some(sid as u64);
                    w.opens.retain(|(s, _)| *s != sid);
                    w.proto.inject_substream_open_failure_any(sid, kind as usize, w.peers[p]);
                }
            }
            7 | 8 | 10 | 11 => {
                if !w.chans.is_empty() {
                    let ci = (a(1)? % w.chans.len() as u64) as usize;
                    let ch = &mut w.chans[ci];
                    // the read side of a linked carrier is the courier's business
                    if !(ch.linked && tag >= 10) {
                        target = Some(ci as u64);
                        match tag {
                            7 => {
                                if ch.carrier.gate() == 0 {
                                    ch.carrier.set_gate(1);
                                }
                            }
                            8 => {
                                if ch.carrier.gate() != 2 {
                                    ch.carrier.set_gate(2);
                                }
                            }
                            _ => {
                                // the remote side answers (here: gives up) only after it saw the request
                                if !ch.out || ch.seen {
                                    ch.carrier.close_read(tag == 11);
                                }
                            }
                        }
                    }
                }
            }
            9 | 14 => {
                let (k, len, t) = (a(1)?, a(2)?, a(3)?);
                if !w.chans.is_empty() {
                    let ci = (k % w.chans.len() as u64) as usize;
                    let ch = &mut w.chans[ci];
                    if !ch.linked {
                        target = Some(ci as u64);
                        if tag == 9 && ch.out && ch.seen {
                            ch.carrier.feed(&frame(len, t));
                        }
                        if tag == 14 && !ch.out {
                            ch.seen = true;
                            ch.carrier.feed(&frame(len, t));
                        }
                    }
                }
            }
            12 => {
                tokio::time::advance(Duration::from_millis(a(1)?)).await;
            }
            13 => {
                let (p, gate, neg) = (a(1)? as usize, a(2)?.min(2) as u8, a(3)?);
                if w.connected[p] {
                    target = Some(w.chans.len() as u64);
                    let carrier = Carrier::new(gate);
                    w.chans.push(Chan { carrier: carrier.clone(), out: false, seen: false, linked: false, wrote: None });
                    w.proto.inject_substream_opened_with_fallback(w.peers[p], None, Box::new(carrier), fallback_name(neg));
                }
            }
            15 | 25 => {
                let (k, len, t, fb) = (a(1)?, a(2)?, a(3)?, a(4)?);
                // 15: one of the requests waiting for the user; 25: any request id whatsoever
                let pick = if tag == 15 { nth_mod(k, &w.hpend) } else { Some(k as usize) };
                if let Some(irid) = pick {
                    let known = w.hpend.contains(&irid);
                    if known {
                        target = Some(irid as u64);
                    }
                    w.hpend.retain(|x| *x != irid);
                    let id = w.abs(irid as u64);
                    if fb != 0 {
                        let (tx, rx) = futures::channel::oneshot::channel();
                        if known {
                            w.feedback.push((irid, rx));
                        }
                        w.handle.as_mut()?.send_response_with_feedback(id, payload(len, t), tx);
                    } else {
                        w.handle.as_mut()?.send_response(id, payload(len, t));
                    }
                }
            }
            16 | 26 => {
                let pick = if tag == 16 { nth_mod(a(1)?, &w.hpend) } else { Some(a(1)? as usize) };
                if let Some(irid) = pick {
                    if w.hpend.contains(&irid) {
                        target = Some(irid as u64);
                    }
                    w.hpend.retain(|x| *x != irid);
                    let id = w.abs(irid as u64);
                    w.handle.as_mut()?.reject_request(id);
                }
            }
            17 => {
                w.break_connection(a(1)? as usize);
            }
            27 => {
                // the event loop ends: the user drops the handle / the service's event channel closes
                // (the response futures die with the loop; their feedback channels are not watched any more)
                w.feedback.clear();
                if a(1)? == 0 {
                    w.handle = None;
                } else {
                    w.proto.close_service();
                }
            }
            28 => {
                let (p, v) = (a(1)? as usize, a(2)?);
                w.view[p] = v;
                w.proto.force_manager_peer(w.peers[p], v as usize);
            }
            29 => {
                w.clogged = a(1)? != 0;
                let _ = w.proto.clog_manager(w.clogged);
            }
            30 => {
                // the environment discharges what it owes: a DialFailure for every accepted,
                // unanswered dial, ConnectionClosed for every connection, and the clock passes
                // every deadline
                for p in 0..NPEERS {
                    if w.owed[p] {
                        w.owed[p] = false;
                        w.proto.inject_dial_failure(w.peers[p]);
                    }
                }
                for p in 0..NPEERS {
                    if w.connected[p] {
                        w.connected[p] = false;
                        w.proto.inject_connection_closed(w.peers[p]);
                    }
                }
                w.opens.clear();
                tokio::time::advance(Duration::from_millis(2 * w.tmo_ms + 1)).await;
            }
            31 => {
                // the same, but the connections stay: every unanswered open_substream gets a
                // SubstreamOpenFailure instead (silent peers must time out)
                for p in 0..NPEERS {
                    if w.owed[p] {
                        w.owed[p] = false;
                        w.proto.inject_dial_failure(w.peers[p]);
                    }
                }
                for (sid, _) in std::mem::take(&mut w.opens) {
                    w.proto.inject_substream_open_failure(sid, false);
                }
                tokio::time::advance(Duration::from_millis(2 * w.tmo_ms + 1)).await;
            }
            _ => return None,
        }
        let mut rec = w.finish(target, events).await;
        if tag == 27 && w.run.is_some() {
            // the loop did not end
            rec.events.push(vec![99, 6]);
            rec.events.sort();
        }
        match race {
            // which of the two ready things did the implementation look at first?
            // 19, 20: the answer was consumed => the response; 21: a Timeout for that id => the clock
            // (an oversize answer shows up as a read failure, code 4, instead of a response)
            Some(19) | Some(20) => choices.push(if rec.events.iter().any(|e| e[0] == 2 || (e[0] == 3 && e[2] == 4)) { 0 } else { 1 }),
            Some(_) => choices.push(if rec.events.iter().any(|e| e[0] == 3 && e[1] == race_rid && e[2] == 6) { 1 } else { 0 }),
            None => {}
        }
        Some(rec)
    }
}

/// Returns what every stimulus made observable and, for the stimuli that make two things ready
/// at the same instant, which one the implementation looked at first.
async fn run_ops(c: &[u64], mode: Mode) -> Option<(Vec<StepRec>, Vec<u64>)> {
    let h = Header { max_inb: *c.first()?, ndial: *c.get(1)?, max_size: *c.get(2)?, flags: *c.get(3)?, ccap: *c.get(4)? };
    let nops = *c.get(5)? as usize;
    if !h.valid() {
        return None;
    }
    // the whole case is parsed before anything runs (as Glue.decode_case does)
    let mut ops: Vec<&[u64]> = Vec::new();
    let mut i = 6;
    for _ in 0..nops {
        let width = op_width(*c.get(i)?);
        if width == usize::MAX || i + width > c.len() {
            return None;
        }
        op_fields_ok(&c[i..i + width])?;
        ops.push(&c[i..i + width]);
        i += width;
    }
    if i != c.len() {
        return None;
    }
    let mut choices: Vec<u64> = Vec::new();
    let mut w = World::new(&h, mode);
    let mut out: Vec<StepRec> = Vec::new();
    for op in ops {
        out.push(w.apply(op, &mut choices).await?);
    }
    rrv::verif_dial_log::enable(false);
    Some((out, choices))
}

fn run_mode(c: &[u64], mode: Mode) -> Option<(Vec<StepRec>, Vec<u64>)> {
    let rt = tokio::runtime::Builder::new_current_thread()
        .enable_all()
        .start_paused(true)
        .build()
        .unwrap();
    // unconstrained: tokio's cooperative budget would otherwise make a ready channel or timer
    // report Pending after ~128 operations within this single never-yielding poll, which the
    // non-blocking probes of the harness (now_or_never) would mistake for "nothing ready"
    rt.block_on(tokio::task::unconstrained(run_ops(c, mode)))
}

/// Runs `mode` until the implementation's choices at the racing stimuli are the given ones
/// (they are random: tokio's select! is unbiased).
fn run_until(c: &[u64], mode: Mode, want: &[u64]) -> Option<(Vec<StepRec>, bool)> {
    let mut last = None;
    for _ in 0..40 {
        let (steps, choices) = run_mode(c, mode)?;
        if choices == want {
            return Some((steps, true));
        }
        last = Some(steps);
    }
    last.map(|s| (s, false))
}

/// Writes the observed choices into the case (last field of the racing stimuli).
fn with_choices(c: &[u64], choices: &[u64]) -> Vec<u64> {
    let mut c = c.to_vec();
    let mut i = 6;
    let mut k = 0;
    while i < c.len() {
        let w = op_width(c[i]);
        if w == usize::MAX || i + w > c.len() {
            break;
        }
        if matches!(c[i], 19 | 20 | 21) {
            if let Some(ch) = choices.get(k) {
                c[i + w - 1] = *ch;
            }
            k += 1;
        }
        i += w;
    }
    c
}

fn push_rec(out: &mut Vec<u64>, r: &StepRec, extra: Option<Vec<u64>>) {
    let mut events = r.events.clone();
    if let Some(e) = extra {
        events.push(e);
    }
    out.push(r.target.map(|t| t + 1).unwrap_or(0));
    out.push(events.len() as u64);
    for e in events.iter() {
        out.extend(e.iter().copied());
    }
    out.extend(r.dump.iter().copied());
}

/// Every case is run twice on fresh protocol objects, both times as the REAL
/// `RequestResponseProtocol::run` future polled by hand (so a change inside `run` is seen):
///  A. with the default channel sizes — its events and the bookkeeping published by the loop
///     itself are the ones printed;
///  C. with an event channel of capacity 1, the loop parking inside handlers until the user
///     drains — must show the same events and the same bookkeeping as A ("nothing lost").
/// If C disagrees with A on what one stimulus made observable, a marker event `99 2` is added
/// for that stimulus (the model never prints one, so the case shows up as a disagreement) and C's
/// events are printed instead of A's, so that the oracle judges them too.
fn run_case(c: &[u64]) -> (Vec<u64>, Vec<u64>) {
    if c.first() == Some(&TWO_NODE) {
        return run_case2(c);
    }
    let c0 = c.to_vec();
    let r = catch_unwind(AssertUnwindSafe(move || {
        let (a, choices) = run_mode(&c0, None)?;
        let c1 = with_choices(&c0, &choices);
        let (k, k_ok) = run_until(&c0, Some(1), &choices)?;
        if a.len() != k.len() {
            return Some((c1, vec![PANIC_MARK, 1]));
        }
        let mut out = vec![1u64];
        for (a, k) in a.iter().zip(k.iter()) {
            let same = k.target == a.target && k.events == a.events && k.dump == a.dump;
            let shown = if !same && k_ok { k } else { a };
            push_rec(&mut out, shown, if same { None } else { Some(vec![99, 2]) });
        }
        Some((c1, out))
    }));
    match r {
        Ok(Some(x)) => x,
        Ok(None) => (c.to_vec(), vec![0]),
        Err(_) => (c.to_vec(), vec![PANIC_MARK]),
    }
}

// ------------------------------------------------------------------ two nodes

enum Move<'a> {
    Loc(usize, &'a [u64]),
    Open { a: usize, k: u64, gq: u8, gr: u8, neg: u64 },
    Req(u64, u64, Vec<RdEv>),
    Resp(u64, u64, Vec<RdEv>),
}

struct Link {
    a: usize,
    cq: usize,
    cr: usize,
    reqd: bool,
    respd: bool,
}

fn parse_script(c: &[u64], i: &mut usize) -> Option<Vec<RdEv>> {
    let n = *c.get(*i)? as usize;
    *i += 1;
    if n > 64 {
        return None;
    }
    let mut out = Vec::new();
    for _ in 0..n {
        let t = *c.get(*i)?;
        *i += 1;
        out.push(match t {
            0 => RdEv::Pending,
            1 => {
                let k = *c.get(*i)?;
                *i += 1;
                RdEv::Chunk(k)
            }
            2 => RdEv::Eof,
            3 => RdEv::Err,
            _ => return None,
        });
    }
    Some(out)
}

fn parse_moves(c: &[u64], mut i: usize, n: usize) -> Option<Vec<Move<'_>>> {
    let mut out = Vec::new();
    for _ in 0..n {
        let tag = *c.get(i)?;
        i += 1;
        match tag {
            40 => {
                let x = *c.get(i)? as usize;
                i += 1;
                if x > 1 {
                    return None;
                }
                let t = *c.get(i)?;
                let width = op_width(t);
                if matches!(t, 19 | 20 | 21) || width == usize::MAX || i + width > c.len() {
                    return None;
                }
                op_fields_ok(&c[i..i + width])?;
                out.push(Move::Loc(x, &c[i..i + width]));
                i += width;
            }
            41 => {
                let (a, k, gq, gr, neg) = (*c.get(i)?, *c.get(i + 1)?, *c.get(i + 2)?, *c.get(i + 3)?, *c.get(i + 4)?);
                i += 5;
                if a > 1 || neg > 2 {
                    return None;
                }
                out.push(Move::Open { a: a as usize, k, gq: gq.min(2) as u8, gr: gr.min(2) as u8, neg });
            }
            42 | 43 => {
                let (l, cut) = (*c.get(i)?, *c.get(i + 1)?);
                i += 2;
                if cut > 4_194_304 {
                    return None;
                }
                let script = parse_script(c, &mut i)?;
                out.push(if tag == 42 { Move::Req(l, cut, script) } else { Move::Resp(l, cut, script) });
            }
            _ => return None,
        }
    }
    if i != c.len() {
        return None;
    }
    Some(out)
}

/// The record of a world the event loop of which has ended.
fn dead_rec() -> StepRec {
    StepRec { target: None, events: Vec::new(), dump: vec![0; 7] }
}

async fn run_two(c: &[u64]) -> Option<Vec<u64>> {
    let g = |k: usize| c.get(k).copied();
    let (max_size, flags) = (g(7)?, g(8)?);
    let ha = Header { max_inb: g(1)?, ndial: g(2)?, max_size, flags, ccap: g(3)? };
    let hb = Header { max_inb: g(4)?, ndial: g(5)?, max_size, flags, ccap: g(6)? };
    if !ha.valid() || !hb.valid() || flags & 1 != 0 {
        return None;
    }
    let moves = parse_moves(c, 10, g(9)? as usize)?;
    let mut ws = [World::new(&ha, None), World::new(&hb, None)];
    let mut links: Vec<Link> = Vec::new();
    let mut out = vec![1u64];
    let mut no_choices = Vec::new();
    for m in moves {
        let mut recs: [Option<StepRec>; 2] = [None, None];
        match m {
            Move::Loc(x, op) => {
                recs[x] = Some(ws[x].apply(op, &mut no_choices).await?);
            }
            Move::Open { a, k, gq, gr, neg } => {
                let b = 1 - a;
                if ws[a].run.is_some() {
                    if let Some((sid, p)) = nth_mod(k, &ws[a].opens) {
                        let cq = ws[a].chans.len();
                        let peer = ws[a].peers[p];
                        ws[a].opens.retain(|(s, _)| *s != sid);
                        let carrier = Carrier::new(gq);
                        let linkit = p == 0 && ws[b].connected[0] && ws[b].run.is_some();
                        ws[a].chans.push(Chan { carrier: carrier.clone(), out: true, seen: false, linked: linkit, wrote: None });
                        ws[a].proto.inject_substream_opened_with_fallback(peer, Some(sid), Box::new(carrier), fallback_name(neg));
                        recs[a] = Some(ws[a].finish(Some(sid as u64), Vec::new()).await);
                        if linkit {
                            let cr = ws[b].chans.len();
                            let peer0 = ws[b].peers[0];
                            let carrier = Carrier::new(gr);
                            ws[b].chans.push(Chan { carrier: carrier.clone(), out: false, seen: false, linked: true, wrote: None });
                            ws[b].proto.inject_substream_opened_with_fallback(peer0, None, Box::new(carrier), fallback_name(neg));
                            recs[b] = Some(ws[b].finish(Some(cr as u64), Vec::new()).await);
                            links.push(Link { a, cq, cr, reqd: false, respd: false });
                        }
                    }
                }
            }
            Move::Req(i, cut, script) => {
                if !links.is_empty() {
                    let j = (i % links.len() as u64) as usize;
                    if !links[j].reqd {
                        links[j].reqd = true;
                        let (a, cq, cr) = (links[j].a, links[j].cq, links[j].cr);
                        let b = 1 - a;
                        let full = ws[a].chans[cq].wrote.clone().unwrap_or_default();
                        let wire = &full[..(cut as usize).min(full.len())];
                        if ws[b].run.is_some() {
                            ws[b].chans[cr].carrier.deliver(wire, script);
                            ws[b].chans[cr].seen = true;
                            recs[b] = Some(ws[b].finish(Some(cr as u64), Vec::new()).await);
                        }
                    }
                }
            }
            Move::Resp(i, cut, script) => {
                if !links.is_empty() {
                    let j = (i % links.len() as u64) as usize;
                    let (a, cq, cr) = (links[j].a, links[j].cq, links[j].cr);
                    let b = 1 - a;
                    if !links[j].respd && ws[a].chans[cq].out && ws[a].chans[cq].seen {
                        links[j].respd = true;
                        let full = ws[b].chans[cr].wrote.clone().unwrap_or_default();
                        let wire = &full[..(cut as usize).min(full.len())];
                        if ws[a].run.is_some() {
                            ws[a].chans[cq].carrier.deliver(wire, script);
                            recs[a] = Some(ws[a].finish(Some(cq as u64), Vec::new()).await);
                        }
                    }
                }
            }
        }
        for x in 0..2 {
            let r = match recs[x].take() {
                Some(r) => r,
                None => if ws[x].run.is_some() { ws[x].idle().await } else { dead_rec() },
            };
            push_rec(&mut out, &r, None);
        }
    }
    rrv::verif_dial_log::enable(false);
    Some(out)
}

fn run_case2(c: &[u64]) -> (Vec<u64>, Vec<u64>) {
    let c0 = c.to_vec();
    let r = catch_unwind(AssertUnwindSafe(move || {
        let rt = tokio::runtime::Builder::new_current_thread().enable_all().start_paused(true).build().unwrap();
        rt.block_on(tokio::task::unconstrained(run_two(&c0)))
    }));
    match r {
        Ok(Some(t)) => (c.to_vec(), t),
        Ok(None) => (c.to_vec(), vec![0]),
        Err(_) => (c.to_vec(), vec![PANIC_MARK]),
    }
}

// ------------------------------------------------------------------ generator

fn assemble(header: [u64; 5], ops: Vec<Vec<u64>>) -> Vec<u64> {
    let mut c = header.to_vec();
    c.push(ops.len() as u64);
    for op in ops {
        c.extend(op);
    }
    c
}

/// The stimuli that end a history: usually the environment discharges everything it owes (so that
/// "exactly one outcome" can be judged for every request of the case), sometimes the event loop
/// is made to end.
fn epilogue(rng: &mut Rng, ops: &mut Vec<Vec<u64>>) {
    if rng.chance(4) {
        ops.push(vec![27, rng.below(2)]);
        if rng.chance(50) {
            ops.push(vec![12, 5100]);
        }
    }
    match rng.below(10) {
        0..=4 => ops.push(vec![30]),
        5..=7 => ops.push(vec![31]),
        _ => {}
    }
}

/// What the manager believes about a peer right after the protocol was told about a change:
/// usually the truth, sometimes it lags behind or runs ahead.
fn manager_follows(rng: &mut Rng, ops: &mut Vec<Vec<u64>>, p: u64, truth: u64) {
    if rng.chance(75) {
        ops.push(vec![28, p, truth]);
    } else if rng.chance(30) {
        ops.push(vec![28, p, rng.below(7)]);
    }
}

/// Dialogue-shaped histories: the generator keeps a rough estimate of the environment (which
/// peers are connected, how many substream-open commands and carriers exist, which inbound
/// requests wait for the user) and mostly picks stimuli that hit something. The estimate may be
/// wrong; a stimulus that misses is a no-op for implementation and model alike.
fn gen_guided(rng: &mut Rng, thorough: bool) -> Vec<u64> {
    let max_inb = rng.pick(&[0u64, 0, 0, 2, 3, 6]);
    let ndial = rng.pick(&[2u64, 4, 4]);
    let max_size = rng.pick(&[16u64, 300, 1024, 1024, 70_000, 1 << 20]);
    let npeers = rng.range(1, 3) as usize;
    let nops = if thorough { rng.range(10, 120) } else { rng.range(6, 50) };
    let selfp = if rng.chance(15) { 1 } else { 0 };
    let ccap = rng.pick(&[0u64, 0, 0, 1, 2, 3]);
    let mut ops: Vec<Vec<u64>> = Vec::new();
    let lens = [0u64, 1, 2, 7, max_size - 1, max_size];
    let mut races = 0;
    let mut connected = vec![false; npeers];
    let mut dialing = vec![0u64; npeers];
    let mut opens = 0u64;
    let mut out_chans: Vec<u64> = Vec::new();
    let mut in_chans: Vec<u64> = Vec::new();
    let mut blocked: Vec<u64> = Vec::new();
    let mut nchans = 0u64;
    let mut ids = 0u64;
    let mut waiting = 0u64;
    for _ in 0..nops {
        let p = rng.below(npeers as u64) as usize;
        // payloads at and around the maximum are rare when the maximum is large (they cost time)
        let len = if rng.chance(6) { max_size + 1 } else if max_size > 2000 && rng.chance(55) { rng.pick(&[0u64, 1, 2, 7, 200]) } else { rng.pick(&lens) };
        let tag = rng.below(256);
        // responses (both directions) go up to the maximum more often than requests
        let rlen = if max_size > 2000 && rng.chance(50) { rng.pick(&[max_size - 1, max_size, max_size]) } else { len };
        let gate = rng.pick(&[1u64, 1, 1, 1, 0, 0, 2]);
        let roll = rng.below(100);
        let op: Vec<u64> = if roll < 22 {
            ids += 1;
            let (fname, flen, ftag) = if rng.chance(30) { (rng.range(1, 2), rng.pick(&lens).min(2000), rng.below(256)) } else { (0, 0, 0) };
            if rng.chance(10) {
                let n = rng.range(2, 5);
                ids += n - 1;
                let took = n.min(if ccap == 0 { 4096 } else { ccap });
                if connected[p] { opens += took; } else { dialing[p] += took; }
                if rng.chance(50) {
                    ids += 1;
                    vec![24, p as u64, 1, n, len, tag, rng.below(2)]
                } else {
                    vec![18, p as u64, 1, n, len, tag]
                }
            } else if connected[p] {
                opens += 1;
                vec![if rng.chance(30) { 23 } else { 0 }, p as u64, rng.below(2), len, tag, fname, flen, ftag]
            } else {
                dialing[p] += 1;
                vec![if rng.chance(30) { 23 } else { 0 }, p as u64, if rng.chance(85) { 1 } else { 0 }, len, tag, fname, flen, ftag]
            }
        } else if roll < 32 {
            let cap = if dialing[p] >= 2 && rng.chance(50) { rng.range(1, dialing[p] - 1) } else { rng.pick(&[0u64, 0, 0, 1, 2]) };
            if !connected[p] {
                connected[p] = true;
                opens += if cap == 0 { dialing[p] } else { dialing[p].min(cap) };
                dialing[p] = 0;
            }
            // a connection whose command channel is dead: no substream can be opened, the peer is
            // not registered although the manager has the connection
            let broken = if rng.chance(8) { 1 } else { 0 };
            if rng.chance(50) {
                manager_follows(rng, &mut ops, p as u64, 2);
                vec![2, p as u64, broken, cap]
            } else {
                ops.push(vec![2, p as u64, broken, cap]);
                manager_follows(rng, &mut ops, p as u64, 2);
                continue;
            }
        } else if roll < 50 && opens > 0 {
            opens -= 1;
            out_chans.push(nchans);
            if gate == 0 {
                blocked.push(nchans);
            }
            nchans += 1;
            vec![5, rng.below(opens + 1), gate, rng.pick(&[0u64, 0, 0, 1, 2])]
        } else if roll < 62 && !out_chans.is_empty() {
            if races < 2 && rng.chance(15) {
                races += 1;
                match rng.below(3) {
                    0 => vec![19, rng.pick(&out_chans), len, tag, rng.pick(&[5100u64, 2600]), 0],
                    1 => vec![20, rng.pick(&out_chans), len, tag, rng.below(ids + 1), 0],
                    _ => vec![21, rng.below(ids + 1), rng.pick(&[5100u64, 2600]), 0],
                }
            } else {
                vec![9, rng.pick(&out_chans), rlen, tag]
            }
        } else if roll < 66 && !blocked.is_empty() {
            let i = rng.below(blocked.len() as u64) as usize;
            vec![if rng.chance(80) { 7 } else { 8 }, blocked.swap_remove(i)]
        } else if roll < 70 && ids > 0 {
            vec![1, rng.below(ids)]
        } else if roll < 73 {
            vec![12, rng.pick(&[1700u64, 2600, 5100, 300])]
        } else if roll < 76 && opens > 0 {
            opens -= 1;
            vec![6, rng.below(opens + 1), if rng.chance(50) { rng.below(3) } else { rng.below(15) }]
        } else if roll < 79 {
            if connected[p] {
                connected[p] = false;
            }
            // the protocol is told first, the manager catches up later (or not within this history)
            ops.push(vec![3, p as u64]);
            if rng.chance(35) {
                ids += 1;
                dialing[p] += 1;
                ops.push(vec![0, p as u64, 1, len, tag, 0, 0, 0]);
            }
            manager_follows(rng, &mut ops, p as u64, 1);
            continue;
        } else if roll < 81 {
            dialing[p] = 0;
            vec![4, p as u64]
        } else if roll < 87 && connected[p] {
            ids += 1;
            in_chans.push(nchans);
            if gate == 0 {
                blocked.push(nchans);
            }
            nchans += 1;
            vec![13, p as u64, gate, rng.pick(&[0u64, 0, 1, 2])]
        } else if roll < 92 && !in_chans.is_empty() {
            waiting += 1;
            vec![14, rng.pick(&in_chans), len, tag]
        } else if roll < 97 && waiting > 0 {
            waiting -= 1;
            if rng.chance(10) {
                vec![25, rng.below(ids + 2), len, tag, rng.below(2)]
            } else {
                vec![15, rng.below(waiting + 1), rlen, tag, rng.below(2)]
            }
        } else if roll < 98 && waiting > 0 {
            waiting -= 1;
            if rng.chance(20) { vec![26, rng.below(ids + 2)] } else { vec![16, rng.below(waiting + 1)] }
        } else if !out_chans.is_empty() && rng.chance(60) {
            vec![rng.pick(&[10u64, 11]), rng.pick(&out_chans)]
        } else {
            match rng.below(6) {
                0 => vec![22],
                1 => vec![29, rng.below(2)],
                2 | 3 => vec![28, p as u64, rng.below(7)],
                4 => vec![30],
                _ => vec![17, p as u64],
            }
        };
        ops.push(op);
    }
    epilogue(rng, &mut ops);
    assemble([max_inb, ndial, max_size, selfp + extra_flags(rng), ccap], ops)
}

/// The bits of the header's flags field beyond selfp: the configured timeout, the start value of the
/// id allocator, the keep-alive timeout of the transport service (see Glue1.v).
fn extra_flags(rng: &mut Rng) -> u64 {
    let tmo_sel = if rng.chance(70) { 0 } else { rng.range(1, 3) };
    let rid_sel = if rng.chance(65) { 0 } else { rng.range(1, 3) };
    let ka = if rng.chance(25) { 1 } else { 0 };
    2 * tmo_sel + 8 * rid_sel + 32 * ka
}

/// Silent remotes and a stalling user against the bound on inbound requests: inbound substreams
/// that never send (or whose request is never answered), long stretches of time, connections that
/// close under them, more inbound substreams from other peers, the occasional request / answer /
/// end of stream that frees a slot.
fn gen_flood(rng: &mut Rng, thorough: bool) -> Vec<u64> {
    let max_inb = rng.pick(&[2u64, 2, 3, 4, 0]);
    let max_size = rng.pick(&[16u64, 300]);
    let npeers = rng.range(2, 4);
    let nops = if thorough { rng.range(15, 80) } else { rng.range(8, 40) };
    let mut ops: Vec<Vec<u64>> = Vec::new();
    for p in 0..npeers {
        ops.push(vec![2, p, 0, 0]);
    }
    let mut nchans = 0u64;
    let mut waiting = 0u64;
    for _ in 0..nops {
        let p = rng.below(npeers);
        let roll = rng.below(100);
        let op = if roll < 40 {
            nchans += 1;
            vec![13, p, rng.pick(&[1u64, 1, 1, 0]), rng.pick(&[0u64, 0, 1])]
        } else if roll < 52 {
            vec![12, rng.pick(&[5100u64, 300, 1_000_000, 10_000_000])]
        } else if roll < 64 && nchans > 0 {
            waiting += 1;
            vec![14, rng.below(nchans), rng.pick(&[0u64, 1, 7, max_size]), rng.below(256)]
        } else if roll < 72 && nchans > 0 {
            vec![rng.pick(&[10u64, 11]), rng.below(nchans)]
        } else if roll < 80 && waiting > 0 {
            waiting -= 1;
            if rng.chance(70) { vec![15, rng.below(waiting + 1), rng.pick(&[0u64, 1, 7]), rng.below(256), rng.below(2)] } else { vec![16, rng.below(waiting + 1)] }
        } else if roll < 86 {
            vec![3, p]
        } else if roll < 92 {
            vec![2, p, 0, 0]
        } else if roll < 96 && nchans > 0 {
            vec![rng.pick(&[7u64, 8]), rng.below(nchans)]
        } else {
            vec![0, p, rng.below(2), rng.pick(&[0u64, 1, 7]), rng.below(256), 0, 0, 0]
        };
        ops.push(op);
    }
    epilogue(rng, &mut ops);
    assemble([max_inb, 4, max_size, extra_flags(rng), 0], ops)
}

/// A fragmentation script for the reads of a delivery.
fn gen_script(rng: &mut Rng, out: &mut Vec<u64>) {
    let n = if rng.chance(40) { 0 } else { rng.range(1, 7) };
    out.push(n);
    for _ in 0..n {
        match rng.below(20) {
            0..=9 => out.extend([1, rng.pick(&[1u64, 1, 2, 3, 5, 64, 100_000])]),
            10..=18 => out.push(0),
            _ => out.push(if rng.chance(50) { 2 } else if rng.chance(50) { 3 } else { 0 }),
        }
    }
}

/// Two real nodes. Conversations move through their stages (request sent, substream opened and
/// linked, request bytes delivered, answered by the user, response bytes delivered), in both
/// directions and interleaved, with faults thrown in: bytes cut at any offset, fragmented and
/// stalling reads, blocked and failing writes, cancels, timeouts, closed connections, requests to
/// other peers, local stimuli aimed at linked carriers (ignored), an event loop that ends.
fn gen_two(rng: &mut Rng, thorough: bool) -> Vec<u64> {
    let max_size = rng.pick(&[16u64, 16, 300, 1024, 1024, 70_000]);
    let lens = [0u64, 1, 2, 7, max_size - 1, max_size];
    let nmoves = if thorough { rng.range(12, 90) } else { rng.range(8, 45) };
    let mut mv: Vec<Vec<u64>> = Vec::new();
    // stage of every conversation: (requester, stage); 0 sent, 1 linked, 2 request delivered, 3 answered, 4 done
    let mut conv: Vec<(u64, u64, u64)> = Vec::new(); // (requester, stage, link index)
    let mut nlinks = 0u64;
    let batch = rng.chance(35);
    let mut ids = [0u64; 2];
    let mut nchans = [0u64; 2];
    for x in 0..2u64 {
        if rng.chance(92) {
            mv.push(vec![40, x, 2, 0, 0, 0]);
        }
        if rng.chance(30) {
            mv.push(vec![40, x, 2, 1, 0, 0]);
        }
    }
    let paylen = |rng: &mut Rng| -> u64 {
        if rng.chance(5) { max_size + 1 } else if max_size > 2000 && rng.chance(70) { rng.pick(&[0u64, 1, 2, 7, 200]) } else { rng.pick(&lens) }
    };
    for _ in 0..nmoves {
        let x = rng.below(2);
        let roll = rng.below(100);
        let m: Vec<u64> = if roll < 22 {
            // a new request, mostly to the other node
            let p = if rng.chance(85) { 0 } else { 1 };
            ids[x as usize] += 1;
            if p == 0 {
                conv.push((x, 0, 0));
            }
            let (fname, flen, ftag) = if rng.chance(25) { (rng.range(1, 2), rng.pick(&lens).min(2000), rng.below(256)) } else { (0, 0, 0) };
            vec![40, x, if rng.chance(25) { 23 } else { 0 }, p, rng.below(2), paylen(rng), rng.below(256), fname, flen, ftag]
        } else if roll < 86 && !conv.is_empty() {
            // move a conversation on (mostly the oldest one: the indices below count from the oldest)
            // (in batch mode the conversation that lags behind: several requests wait for the user at once)
            let i = if batch {
                (0..conv.len()).min_by_key(|i| conv[*i].1).unwrap_or(0)
            } else if rng.chance(70) {
                0
            } else {
                rng.below(conv.len() as u64) as usize
            };
            let (a, stage, link) = conv[i];
            match stage {
                0 => {
                    conv[i] = (a, 1, nlinks);
                    nlinks += 1;
                    nchans[a as usize] += 1;
                    nchans[1 - a as usize] += 1;
                    ids[1 - a as usize] += 1;
                    vec![41, a, if rng.chance(80) { 0 } else { rng.below(4) }, rng.pick(&[1u64, 1, 1, 1, 1, 1, 0, 2]), rng.pick(&[1u64, 1, 1, 1, 1, 1, 0, 2]), rng.pick(&[0u64, 0, 0, 1, 2])]
                }
                1 => {
                    conv[i] = (a, 2, link);
                    let mut m = vec![42, link, if rng.chance(80) { 4_000_000 } else { rng.below(max_size.min(40) + 4) }];
                    gen_script(rng, &mut m);
                    m
                }
                2 => {
                    conv[i] = (a, 3, link);
                    if rng.chance(88) {
                        let l = if max_size > 2000 && rng.chance(40) { rng.pick(&[max_size - 1, max_size]) } else { paylen(rng) };
                        vec![40, 1 - a, 15, if rng.chance(75) { 0 } else { rng.below(3) }, l, rng.below(256), rng.below(2)]
                    } else {
                        vec![40, 1 - a, 16, rng.below(3)]
                    }
                }
                3 => {
                    conv[i] = (a, 4, link);
                    let mut m = vec![43, link, if rng.chance(80) { 4_000_000 } else { rng.below(max_size.min(40) + 4) }];
                    gen_script(rng, &mut m);
                    m
                }
                _ => {
                    conv.remove(i);
                    vec![40, x, 12, 300]
                }
            }
        } else {
            // disturbances
            let nl = nlinks.max(1);
            let nc = nchans[x as usize].max(1);
            match rng.below(22) {
                0 | 1 => vec![40, x, 1, rng.below(ids[x as usize] + 1)],
                2 | 3 => vec![40, x, 12, rng.pick(&[300u64, 1700, 2600, 5100, 7800])],
                4 => vec![40, x, 3, 0],
                5 => vec![40, x, 2, 0, 0, 0],
                6 | 7 => vec![40, x, 7, rng.below(nc)],
                8 => vec![40, x, 8, rng.below(nc)],
                9 => vec![40, x, 9, rng.below(nc), rng.pick(&lens), rng.below(256)],
                10 => vec![40, x, 14, rng.below(nc), rng.pick(&lens), rng.below(256)],
                11 => vec![40, x, rng.pick(&[10u64, 11]), rng.below(nc)],
                12 => {
                    let mut m = vec![rng.pick(&[42u64, 43]), rng.below(nl), rng.below(60)];
                    gen_script(rng, &mut m);
                    m
                }
                13 => {
                    nchans[x as usize] += 1;
                    ids[x as usize] += 1;
                    vec![40, x, 13, rng.below(2), 1, 0]
                }
                14 => vec![40, x, 5, 0, rng.pick(&[1u64, 0, 2]), 0],
                15 => vec![40, x, 6, 0, rng.below(15)],
                16 => vec![40, x, 25, rng.below(ids[x as usize] + 2), rng.pick(&lens), rng.below(256), rng.below(2)],
                17 => vec![41, x, rng.below(3), 1, 1, rng.below(3)],
                18 => if rng.chance(25) { vec![40, x, 27, rng.below(2)] } else { vec![40, x, 12, 5100] },
                19 => vec![40, x, 17, 0],
                20 => vec![40, x, 4, 0],
                _ => vec![40, x, 31],
            }
        };
        mv.push(m);
    }
    if rng.chance(80) {
        mv.push(vec![40, 0, 30]);
        mv.push(vec![40, 1, 30]);
    }
    let mut c = vec![TWO_NODE];
    c.extend([rng.pick(&[0u64, 0, 0, 2, 3]), rng.pick(&[2u64, 4]), 0]);
    c.extend([rng.pick(&[0u64, 0, 0, 2, 3]), rng.pick(&[2u64, 4]), 0]);
    c.extend([max_size, extra_flags(rng)]);
    c.push(mv.len() as u64);
    for m in mv {
        c.extend(m);
    }
    c
}

fn gen_case(rng: &mut Rng, thorough: bool) -> Vec<u64> {
    let kind = rng.below(100);
    if kind < 14 {
        return gen_two(rng, thorough);
    }
    if kind < 20 {
        return gen_flood(rng, thorough);
    }
    if kind < 58 {
        return gen_guided(rng, thorough);
    }
    let max_inb = rng.pick(&[0u64, 0, 1, 2, 3, 4]);
    let ndial = rng.pick(&[0u64, 2, 3, 4, 4]);
    let max_size = rng.pick(&[16u64, 16, 300, 1024, 70_000]);
    let npeers = rng.range(1, NPEERS as u64);
    let nops = if thorough { rng.range(5, 120) } else { rng.range(3, 45) };
    let selfp = if rng.chance(20) { 1 } else { 0 };
    let ccap = rng.pick(&[0u64, 0, 0, 1, 2]);
    let mut ops: Vec<Vec<u64>> = Vec::new();
    let mut races = 0;
    let mut sent = 0u64; // request ids are allocated in order: a good guess for cancel targets
    let lens = [0u64, 1, 2, 7, max_size - 1, max_size, max_size + 1];
    let style = rng.below(5);
    for _ in 0..nops {
        let p = rng.below(npeers);
        let k = rng.below(8);
        let len = if rng.chance(12) { max_size + 1 } else if max_size > 2000 && rng.chance(55) { rng.pick(&[0u64, 1, 2, 7, 200]) } else { rng.pick(&lens) };
        let tag = rng.below(256);
        let rlen = if max_size > 2000 && rng.chance(50) { rng.pick(&[max_size - 1, max_size, max_size]) } else { len };
        let gate = rng.pick(&[1u64, 1, 1, 0, 0, 2]);
        let roll = rng.below(100);
        // style 0: outbound heavy; 1: dial heavy; 2: inbound heavy; 3: uniform; 4: dial heavy with a
        // manager whose belief about the peers changes all the time
        if style == 4 && rng.chance(25) {
            ops.push(if rng.chance(12) { vec![29, rng.below(2)] } else { vec![28, p, rng.below(7)] });
        }
        let op: Vec<u64> = match (style, roll) {
            (1, 0..=29) | (4, 0..=29) | (_, 0..=19) => {
                sent += 1;
                let dial = if style == 1 || style == 4 || rng.chance(60) { 1 } else { 0 };
                if rng.chance(10) {
                    let n = rng.range(2, 4);
                    sent += n - 1;
                    if rng.chance(50) {
                        sent += 1;
                        vec![24, p, 1, n, len, tag, rng.below(2)]
                    } else {
                        vec![18, p, 1, n, len, tag]
                    }
                } else if rng.chance(25) {
                    vec![if rng.chance(30) { 23 } else { 0 }, p, dial, len, tag, rng.range(1, 2), rng.pick(&lens).min(2000), rng.below(256)]
                } else {
                    vec![if rng.chance(30) { 23 } else { 0 }, p, dial, len, tag, 0, 0, 0]
                }
            }
            (_, 20..=24) => vec![1, if sent == 0 { 0 } else { rng.below(sent + 2) }],
            (_, 25..=34) => vec![2, p, if rng.chance(10) { 1 } else { 0 }, rng.pick(&[0u64, 0, 0, 1, 1, 2, 3])],
            (_, 35..=39) => vec![3, p],
            (_, 40..=43) => vec![4, p],
            (_, 44..=55) => vec![5, k, gate, rng.pick(&[0u64, 0, 0, 1, 2])],
            (_, 56..=58) => vec![6, k, if rng.chance(50) { rng.below(3) } else { rng.below(15) }],
            (_, 59..=63) => vec![7, k],
            (_, 64..=65) => vec![8, k],
            (_, 66..=74) => {
                if races < 2 && rng.chance(12) {
                    races += 1;
                    match rng.below(3) {
                        0 => vec![19, k, len, tag, rng.pick(&[5100u64, 1700]), 0],
                        1 => vec![20, k, len, tag, rng.below(sent + 1), 0],
                        _ => vec![21, rng.below(sent + 1), rng.pick(&[5100u64, 2600]), 0],
                    }
                } else {
                    vec![9, k, rlen, tag]
                }
            }
            (_, 75..=76) => vec![10, k],
            (_, 77..=78) => vec![11, k],
            (_, 79..=82) => vec![12, rng.pick(&[1700u64, 2600, 5100, 300])],
            (2, 83..=90) | (_, 83..=86) => {
                sent += 1; // inbound ids come from the same allocator
                vec![13, p, gate, rng.pick(&[0u64, 0, 1, 2])]
            }
            (_, 87..=92) => vec![14, k, len, tag],
            (_, 93..=96) => if rng.chance(15) { vec![25, rng.below(sent + 2), len, tag, rng.below(2)] } else { vec![15, k, rlen, tag, rng.below(2)] },
            (_, 97..=98) => if rng.chance(25) { vec![26, rng.below(sent + 2)] } else { vec![16, k] },
            _ => match rng.below(8) {
                0 => vec![22],
                1 => vec![29, rng.below(2)],
                2 | 3 | 4 => vec![28, p, rng.below(7)],
                5 => vec![30],
                _ => vec![17, p],
            },
        };
        ops.push(op);
    }
    epilogue(rng, &mut ops);
    assemble([max_inb, ndial, max_size, selfp + extra_flags(rng), ccap], ops)
}

/// The variants this file knows how to number (error_code, dial_error_code) against the ones the
/// translator found in the source: a variant the harness has no number for must not go unnoticed.
fn tables_known() -> bool {
    gen_tables::REQUEST_RESPONSE_ERROR == ["Rejected", "Canceled", "Timeout", "NotConnected", "TooLargePayload", "UnsupportedProtocol"]
        && gen_tables::REJECT_REASON == ["SubstreamOpenError", "ConnectionClosed", "SubstreamClosed", "DialFailed"]
        && gen_tables::IMMEDIATE_DIAL_ERROR
            == ["PeerIdMissing", "TriedToDialSelf", "AlreadyConnected", "NoAddressAvailable", "TaskClosed", "ChannelClogged"]
        && gen_tables::REQUEST_RESPONSE_EVENT == ["RequestReceived", "ResponseReceived", "RequestFailed"]
        && gen_tables::INNER_REQUEST_RESPONSE_EVENT == gen_tables::REQUEST_RESPONSE_EVENT
        && gen_tables::DIAL_OPTIONS == ["Dial", "Reject"]
        && gen_tables::REQUEST_RESPONSE_COMMAND == ["SendRequest", "SendRequestWithFallback", "CancelRequest"]
        && gen_tables::SUBSTREAM_ERROR.len() == 8
}

pub fn main(args: &Args) {
    if !tables_known() {
        eprintln!("c13: the variant tables extracted from the source differ from the ones this harness was written for");
        std::process::exit(3);
    }
    let seed = args.u64("seed", 1);
    let ncases = args.u64("cases", 100);
    let thorough = args.str("tier") == Some("thorough");
    let mut out = Outputs::open(args);
    let mut rng = Rng::new(seed);

    let mut stored: Vec<Vec<u64>> = Vec::new();
    if let Some(r) = args.str("replay") {
        stored = read_cases(Path::new(r));
    } else if let Some(d) = args.str("corpus") {
        stored = read_cases(Path::new(d));
    }
    for c in stored.iter() {
        let (c, t) = run_case(c);
        out.emit(&c, &t);
    }
    if args.str("replay").is_some() {
        return;
    }
    // --kind two | flood | guided: only cases of that generator (for experiments; ./check does not use it)
    let kind = args.str("kind");
    for _ in 0..ncases {
        let mut r = rng.fork();
        let c = match kind {
            Some("two") => gen_two(&mut r, thorough),
            Some("flood") => gen_flood(&mut r, thorough),
            Some("guided") => gen_guided(&mut r, thorough),
            _ => gen_case(&mut r, thorough),
        };
        let (c, t) = run_case(&c);
        out.emit(&c, &t);
    }
}
