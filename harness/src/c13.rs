//! C13: request-response correspondence. The REAL `RequestResponseProtocol` runs over a real
//! `TransportService`; the harness plays the transport (scripted `InnerTransportEvent`s and
//! connection command channels), the remote peers (in-memory byte carriers under the crate's own
//! `Substream` type) and the user (the public `RequestResponseHandle`), on a paused tokio clock.
//! After every stimulus the event loop is single-stepped until nothing is ready, and the events
//! seen by the user, the frames seen by the remote side and the private bookkeeping are printed.
//! Case and trace format: see coq/C13/Glue.v.
use crate::util::*;
use futures::{FutureExt, StreamExt};
use litep2p::{
    protocol::request_response::{
        verif::{VerifProtocol, VerifStep},
        DialOptions, RejectReason, RequestResponseError, RequestResponseEvent,
        RequestResponseHandle,
    },
    types::RequestId,
    PeerId,
};
use std::{
    collections::VecDeque,
    io,
    panic::{catch_unwind, AssertUnwindSafe},
    path::Path,
    pin::Pin,
    sync::{Arc, Mutex},
    task::{Context, Poll, Waker},
    time::Duration,
};
use tokio::io::{AsyncRead, AsyncWrite, ReadBuf};

const NPEERS: usize = 4;
/// Fallback protocol names, by the number used in cases and traces (0 = the main protocol).
const FALLBACK_NAMES: [&str; 2] = ["/verif/req/0", "/verif/req/00"];

fn fallback_name(id: u64) -> Option<&'static str> {
    if id == 0 { None } else { FALLBACK_NAMES.get(id as usize - 1).copied() }
}

fn fallback_id(name: &Option<litep2p::types::protocol::ProtocolName>) -> u64 {
    match name {
        None => 0,
        Some(n) => FALLBACK_NAMES.iter().position(|x| **x == **n).map(|i| i as u64 + 1).unwrap_or(99),
    }
}

// ------------------------------------------------------------------ byte carrier

#[derive(Default)]
struct CarrierInner {
    gate: u8, // 0 = writes block, 1 = writes succeed, 2 = writes fail
    inbox: VecDeque<u8>,
    eof: bool,
    err: bool,
    outbox: Vec<u8>,
    read_waker: Option<Waker>,
    write_waker: Option<Waker>,
}

#[derive(Clone)]
struct Carrier(Arc<Mutex<CarrierInner>>);

impl Carrier {
    fn new(gate: u8) -> Self {
        Carrier(Arc::new(Mutex::new(CarrierInner { gate, ..Default::default() })))
    }
    fn set_gate(&self, gate: u8) {
        let mut c = self.0.lock().unwrap();
        c.gate = gate;
        if let Some(w) = c.write_waker.take() {
            w.wake();
        }
    }
    fn gate(&self) -> u8 {
        self.0.lock().unwrap().gate
    }
    fn feed(&self, bytes: &[u8]) {
        let mut c = self.0.lock().unwrap();
        c.inbox.extend(bytes.iter().copied());
        if let Some(w) = c.read_waker.take() {
            w.wake();
        }
    }
    fn close_read(&self, err: bool) {
        let mut c = self.0.lock().unwrap();
        if err {
            c.err = true;
        } else {
            c.eof = true;
        }
        if let Some(w) = c.read_waker.take() {
            w.wake();
        }
    }
    /// A whole unsigned-varint frame that arrived at the remote end, if any.
    fn take_frame(&self) -> Option<Vec<u8>> {
        let mut c = self.0.lock().unwrap();
        let mut len = 0usize;
        let mut shift = 0;
        let mut i = 0;
        loop {
            let b = *c.outbox.get(i)?;
            len |= ((b & 0x7f) as usize) << shift;
            shift += 7;
            i += 1;
            if b & 0x80 == 0 {
                break;
            }
        }
        if c.outbox.len() < i + len {
            return None;
        }
        let frame = c.outbox[i..i + len].to_vec();
        c.outbox.drain(..i + len);
        Some(frame)
    }
}

impl AsyncRead for Carrier {
    fn poll_read(self: Pin<&mut Self>, cx: &mut Context<'_>, buf: &mut ReadBuf<'_>) -> Poll<io::Result<()>> {
        let mut c = self.0.lock().unwrap();
        if !c.inbox.is_empty() {
            let n = buf.remaining().min(c.inbox.len());
            let bytes: Vec<u8> = c.inbox.drain(..n).collect();
            buf.put_slice(&bytes);
            return Poll::Ready(Ok(()));
        }
        if c.err {
            return Poll::Ready(Err(io::ErrorKind::ConnectionReset.into()));
        }
        if c.eof {
            return Poll::Ready(Ok(()));
        }
        c.read_waker = Some(cx.waker().clone());
        Poll::Pending
    }
}

impl AsyncWrite for Carrier {
    fn poll_write(self: Pin<&mut Self>, cx: &mut Context<'_>, buf: &[u8]) -> Poll<io::Result<usize>> {
        let mut c = self.0.lock().unwrap();
        match c.gate {
            0 => {
                c.write_waker = Some(cx.waker().clone());
                Poll::Pending
            }
            1 => {
                c.outbox.extend_from_slice(buf);
                Poll::Ready(Ok(buf.len()))
            }
            _ => Poll::Ready(Err(io::ErrorKind::BrokenPipe.into())),
        }
    }
    fn poll_flush(self: Pin<&mut Self>, _cx: &mut Context<'_>) -> Poll<io::Result<()>> {
        Poll::Ready(Ok(()))
    }
    fn poll_shutdown(self: Pin<&mut Self>, _cx: &mut Context<'_>) -> Poll<io::Result<()>> {
        Poll::Ready(Ok(()))
    }
}

fn payload(len: u64, tag: u64) -> Vec<u8> {
    (0..len).map(|i| ((tag + i) % 256) as u8).collect()
}

fn frame(len: u64, tag: u64) -> Vec<u8> {
    let mut out = Vec::new();
    let mut n = len;
    loop {
        let b = (n & 0x7f) as u8;
        n >>= 7;
        if n == 0 {
            out.push(b);
            break;
        }
        out.push(b | 0x80);
    }
    out.extend(payload(len, tag));
    out
}

/// (length, tag) of a byte string; tag 1000 marks bytes that are not one of our patterns.
fn describe(bytes: &[u8]) -> (u64, u64) {
    if bytes.is_empty() {
        return (0, 0);
    }
    let tag = bytes[0] as u64;
    if bytes == payload(bytes.len() as u64, tag).as_slice() {
        (bytes.len() as u64, tag)
    } else {
        (bytes.len() as u64, 1000)
    }
}

fn error_code(e: &RequestResponseError) -> u64 {
    match e {
        RequestResponseError::Rejected(RejectReason::ConnectionClosed) => 0,
        RequestResponseError::Rejected(RejectReason::SubstreamClosed) => 1,
        RequestResponseError::Rejected(RejectReason::DialFailed(None)) => 2,
        RequestResponseError::Rejected(RejectReason::DialFailed(Some(_))) => 3,
        RequestResponseError::Rejected(RejectReason::SubstreamOpenError(_)) => 4,
        RequestResponseError::Canceled => 5,
        RequestResponseError::Timeout => 6,
        RequestResponseError::NotConnected => 7,
        RequestResponseError::TooLargePayload => 8,
        RequestResponseError::UnsupportedProtocol => 9,
    }
}

// ------------------------------------------------------------------ the world of one case

struct Chan {
    carrier: Carrier,
    out: bool,
    seen: bool,
}

struct World {
    peers: Vec<PeerId>,
    proto: VerifProtocol,
    handle: RequestResponseHandle,
    connected: Vec<bool>,
    opens: Vec<(usize, usize)>, // (substream id, peer index)
    chans: Vec<Chan>,
    hpend: Vec<usize>,
    feedback: Vec<(usize, futures::channel::oneshot::Receiver<()>)>,
    /// `Some`: the REAL `RequestResponseProtocol::run` future, polled by hand (no `step`, no dumps)
    run: Option<futures::future::BoxFuture<'static, ()>>,
}

impl World {
    fn peer_index(&self, p: &PeerId) -> u64 {
        self.peers.iter().position(|x| x == p).map(|i| i as u64).unwrap_or(99)
    }

    /// Lets the event loop run until nothing is ready; collects what became observable.
    /// Step mode: the loop is single-stepped (cfg-gated copy of the select arms, state dumps
    /// available). Run mode: the real `run` future is polled by hand; it may park in the middle of
    /// a handler when the event channel is full, so events are drained between polls until a poll
    /// brings nothing new.
    async fn settle(&mut self, events: &mut Vec<Vec<u64>>) {
        if self.run.is_none() {
            for _ in 0..10_000 {
                match self.proto.step().await {
                    VerifStep::Idle | VerifStep::Exit => break,
                    _ => {}
                }
            }
            self.collect(events);
            return;
        }
        let mut quiet = 0;
        for _ in 0..100_000 {
            if let Some(run) = self.run.as_mut() {
                let _ = futures::poll!(run.as_mut());
            }
            // only the user side is drained while the loop may be parked in a handler; the scripted
            // connections read their command channels after the loop has come to rest, as in step mode
            let before = events.len();
            self.collect_user(events);
            if events.len() == before {
                quiet += 1;
                if quiet >= 3 {
                    break;
                }
            } else {
                quiet = 0;
            }
        }
        self.collect(events);
    }

    fn collect(&mut self, events: &mut Vec<Vec<u64>>) {
        self.collect_user(events);
        self.collect_transport(events);
    }

    fn collect_user(&mut self, events: &mut Vec<Vec<u64>>) {
        while let Some(Some(ev)) = self.handle.next().now_or_never() {
            match ev {
                RequestResponseEvent::ResponseReceived { request_id, response, fallback, .. } => {
                    let (len, tag) = describe(&response);
                    events.push(vec![2, request_id.verif_as_usize() as u64, len, tag]);
                    if fallback.is_some() {
                        events.push(vec![9, request_id.verif_as_usize() as u64, fallback_id(&fallback)]);
                    }
                }
                RequestResponseEvent::RequestFailed { request_id, error, .. } => {
                    events.push(vec![3, request_id.verif_as_usize() as u64, error_code(&error)]);
                }
                RequestResponseEvent::RequestReceived { peer, request_id, request, fallback } => {
                    let (len, tag) = describe(&request);
                    let irid = request_id.verif_as_usize();
                    self.hpend.push(irid);
                    events.push(vec![4, irid as u64, self.peer_index(&peer), len, tag]);
                    if fallback.is_some() {
                        events.push(vec![10, irid as u64, fallback_id(&fallback)]);
                    }
                }
            }
        }
        let mut waiting = Vec::new();
        for (irid, mut rx) in std::mem::take(&mut self.feedback) {
            match rx.try_recv() {
                Ok(Some(())) => events.push(vec![7, irid as u64, 1]),
                Ok(None) => waiting.push((irid, rx)),
                Err(_) => events.push(vec![7, irid as u64, 0]),
            }
        }
        self.feedback = waiting;
    }

    fn collect_transport(&mut self, events: &mut Vec<Vec<u64>>) {
        for i in 0..self.peers.len() {
            if self.connected[i] {
                for sid in self.proto.take_open_requests(self.peers[i]) {
                    self.opens.push((sid, i));
                    events.push(vec![8, sid as u64, i as u64]);
                }
            }
        }
        for (i, ch) in self.chans.iter_mut().enumerate() {
            while let Some(f) = ch.carrier.take_frame() {
                let (len, tag) = describe(&f);
                if ch.out {
                    ch.seen = true;
                }
                events.push(vec![5, i as u64, len, tag]);
            }
        }
    }

    fn dump(&self, out: &mut Vec<u64>) {
        let d = self.proto.dump();
        let mut peers: Vec<(u64, Vec<usize>, Vec<usize>)> =
            d.peers.iter().map(|(p, a, i)| (self.peer_index(p), a.clone(), i.clone())).collect();
        peers.sort();
        out.push(peers.len() as u64);
        for (p, a, i) in peers {
            out.push(p);
            out.push(a.len() as u64);
            out.extend(a.iter().map(|x| *x as u64));
            out.push(i.len() as u64);
            out.extend(i.iter().map(|x| *x as u64));
        }
        let mut dials: Vec<(u64, Vec<usize>)> =
            d.pending_dials.iter().map(|(p, r)| (self.peer_index(p), r.clone())).collect();
        dials.sort();
        out.push(dials.len() as u64);
        for (p, r) in dials {
            out.push(p);
            out.push(r.len() as u64);
            out.extend(r.iter().map(|x| *x as u64));
        }
        out.push(d.pending_outbound.len() as u64);
        for (sid, p, rid) in d.pending_outbound.iter() {
            out.extend([*sid as u64, self.peer_index(p), *rid as u64]);
        }
        out.push(d.cancels.len() as u64);
        out.extend(d.cancels.iter().map(|x| *x as u64));
        out.extend([d.request_futures as u64, d.inbound_reading as u64, d.inbound_responding as u64]);
    }
}

fn nth_mod<T: Copy>(k: u64, l: &[T]) -> Option<T> {
    if l.is_empty() {
        None
    } else {
        Some(l[(k % l.len() as u64) as usize])
    }
}

/// What one stimulus made observable.
struct StepRec {
    target: Option<u64>,
    events: Vec<Vec<u64>>,
    dump: Vec<u64>,
}

/// How the protocol object is driven: `None` = single-stepped copy of the loop with dumps;
/// `Some(channels)` = the real `run` future, optionally with small event / command channels.
type Mode = Option<Option<(usize, usize)>>;

/// Returns what every stimulus made observable and, for the stimuli that make two things ready
/// at the same instant, which one the implementation looked at first.
async fn run_ops(c: &[u64], mode: Mode) -> Option<(Vec<StepRec>, Vec<u64>)> {
    let (max_inb, ndial, max_size) = (*c.first()?, *c.get(1)?, *c.get(2)?);
    let (selfp, ccap) = (*c.get(3)?, *c.get(4)?);
    let nops = *c.get(5)? as usize;
    if max_size > 1 << 20 || ccap > 4096 {
        return None;
    }
    let channels = match mode {
        Some(Some((event_cap, _))) => Some((event_cap, if ccap > 0 { ccap as usize } else { 4096 })),
        _ => if ccap > 0 { Some((4096, ccap as usize)) } else { None },
    };
    let mut choices: Vec<u64> = Vec::new();
    let mut peers: Vec<PeerId> = (0..NPEERS).map(|_| PeerId::random()).collect();
    let dialable: Vec<PeerId> = peers.iter().take((ndial as usize).min(NPEERS)).cloned().collect();
    let (mut proto, handle) = VerifProtocol::new_full(
        max_size as usize,
        None,
        if max_inb == 0 { None } else { Some((max_inb - 1) as usize) },
        &dialable,
        &FALLBACK_NAMES,
        channels,
    );
    if selfp != 0 {
        peers[NPEERS - 1] = proto.local_peer();
    }
    let run = if mode.is_some() { Some(proto.take_run()) } else { None };
    let mut w = World {
        run,
        peers,
        proto,
        handle,
        connected: vec![false; NPEERS],
        opens: Vec::new(),
        chans: Vec::new(),
        hpend: Vec::new(),
        feedback: Vec::new(),
    };
    let mut out: Vec<StepRec> = Vec::new();
    let mut i = 6;
    for _ in 0..nops {
        let tag = *c.get(i)?;
        let a = |k: usize| c.get(i + k).copied();
        let mut events: Vec<Vec<u64>> = Vec::new();
        let mut target: Option<u64> = None;
        let mut race: Option<u64> = None;
        let mut race_rid = 0u64;
        let width;
        match tag {
            0 => {
                width = 8;
                let (p, dial, len, t) = (a(1)? as usize, a(2)?, a(3)?, a(4)?);
                let (fname, flen, ftag) = (a(5)?, a(6)?, a(7)?);
                if p >= NPEERS || len > 1 << 20 || flen > 1 << 20 || fname > 2 {
                    return None;
                }
                let opt = if dial != 0 { DialOptions::Dial } else { DialOptions::Reject };
                let rid = match fallback_name(fname) {
                    None => w.handle.try_send_request(w.peers[p], payload(len, t), opt).ok()?,
                    Some(name) => w
                        .handle
                        .try_send_request_with_fallback(
                            w.peers[p],
                            payload(len, t),
                            (litep2p::types::protocol::ProtocolName::from(name), payload(flen, ftag)),
                            opt,
                        )
                        .ok()?,
                };
                events.push(vec![1, rid.verif_as_usize() as u64]);
            }
            18 => {
                // a burst of try_send_request: the command channel takes what it has room for
                width = 6;
                let (p, dial, n, len, t) = (a(1)? as usize, a(2)?, a(3)?, a(4)?, a(5)?);
                if p >= NPEERS || len > 1 << 20 || n > 64 {
                    return None;
                }
                for _ in 0..n {
                    let opt = if dial != 0 { DialOptions::Dial } else { DialOptions::Reject };
                    if let Ok(rid) = w.handle.try_send_request(w.peers[p], payload(len, t), opt) {
                        events.push(vec![1, rid.verif_as_usize() as u64]);
                    }
                }
            }
            19 => {
                // the remote answers and the clock passes the deadline before the loop runs again
                width = 6;
                let (k, len, t, dt) = (a(1)?, a(2)?, a(3)?, a(4)?);
                if dt > 10_000_000 || len > 1 << 20 {
                    return None;
                }
                if !w.chans.is_empty() {
                    let ci = (k % w.chans.len() as u64) as usize;
                    target = Some(ci as u64);
                    let ch = &mut w.chans[ci];
                    if ch.out && ch.seen {
                        ch.carrier.feed(&frame(len, t));
                    }
                }
                tokio::time::advance(Duration::from_millis(dt)).await;
                race = Some(19);
            }
            20 => {
                // the remote answers and the user cancels before the loop runs again
                width = 6;
                let (k, len, t, rid) = (a(1)?, a(2)?, a(3)?, a(4)?);
                if len > 1 << 20 {
                    return None;
                }
                if !w.chans.is_empty() {
                    let ci = (k % w.chans.len() as u64) as usize;
                    target = Some(ci as u64);
                    let ch = &mut w.chans[ci];
                    if ch.out && ch.seen {
                        ch.carrier.feed(&frame(len, t));
                    }
                }
                w.handle.cancel_request(RequestId::from(rid as usize)).await;
                race = Some(20);
            }
            21 => {
                // the user cancels and the clock passes the deadline before the loop runs again
                width = 4;
                let (rid, dt) = (a(1)?, a(2)?);
                if dt > 10_000_000 {
                    return None;
                }
                w.handle.cancel_request(RequestId::from(rid as usize)).await;
                tokio::time::advance(Duration::from_millis(dt)).await;
                race = Some(21);
                race_rid = rid;
            }
            22 => {
                width = 1;
                w.proto.drop_manager();
            }
            1 => {
                width = 2;
                w.handle.cancel_request(RequestId::from(a(1)? as usize)).await;
            }
            2 => {
                width = 4;
                let (p, broken, cap) = (a(1)? as usize, a(2)?, a(3)?);
                if p >= NPEERS || cap > 4096 {
                    return None;
                }
                if !w.connected[p] {
                    w.connected[p] = true;
                    if cap == 0 {
                        w.proto.inject_connection_established(w.peers[p]);
                    } else {
                        // a command channel with room for `cap` open-substream commands: of the
                        // requests queued behind the dial the first `cap` get a substream, the
                        // others fail at once (ChannelClogged)
                        w.proto.inject_connection_established_with_capacity(w.peers[p], cap as usize);
                    }
                    if broken != 0 {
                        w.proto.break_connection(w.peers[p]);
                    }
                }
            }
            3 => {
                width = 2;
                let p = a(1)? as usize;
                if p >= NPEERS {
                    return None;
                }
                if w.connected[p] {
                    w.connected[p] = false;
                    w.proto.inject_connection_closed(w.peers[p]);
                    w.opens.retain(|(_, q)| *q != p);
                }
            }
            4 => {
                width = 2;
                let p = a(1)? as usize;
                if p >= NPEERS {
                    return None;
                }
                w.proto.inject_dial_failure(w.peers[p]);
            }
            5 => {
                width = 4;
                let (k, gate, neg) = (a(1)?, a(2)?.min(2) as u8, a(3)?);
                if neg > 2 {
                    return None;
                }
                if let Some((sid, p)) = nth_mod(k, &w.opens) {
                    target = Some(sid as u64);
                    w.opens.retain(|(s, _)| *s != sid);
                    let carrier = Carrier::new(gate);
                    w.chans.push(Chan { carrier: carrier.clone(), out: true, seen: false });
                    w.proto.inject_substream_opened_with_fallback(w.peers[p], Some(sid), Box::new(carrier), fallback_name(neg));
                }
            }
            6 => {
                width = 3;
                let (k, unsupported) = (a(1)?, a(2)?);
                if let Some((sid, _)) = nth_mod(k, &w.opens) {
                    target = Some(sid as u64);
                    w.opens.retain(|(s, _)| *s != sid);
                    w.proto.inject_substream_open_failure(sid, unsupported != 0);
                }
            }
            7 | 8 | 10 | 11 => {
                width = 2;
                if !w.chans.is_empty() {
                    let ci = (a(1)? % w.chans.len() as u64) as usize;
                    target = Some(ci as u64);
                    let ch = &mut w.chans[ci];
                    match tag {
                        7 => {
                            if ch.carrier.gate() == 0 {
                                ch.carrier.set_gate(1);
                            }
                        }
                        8 => {
                            if ch.carrier.gate() != 2 {
                                ch.carrier.set_gate(2);
                            }
                        }
                        _ => {
                            // the remote side answers (here: gives up) only after it saw the request
                            if !ch.out || ch.seen {
                                ch.carrier.close_read(tag == 11);
                            }
                        }
                    }
                }
            }
            9 | 14 => {
                width = 4;
                let (k, len, t) = (a(1)?, a(2)?, a(3)?);
                if !w.chans.is_empty() {
                    let ci = (k % w.chans.len() as u64) as usize;
                    target = Some(ci as u64);
                    let ch = &mut w.chans[ci];
                    if tag == 9 && ch.out && ch.seen && len <= (1 << 20) {
                        ch.carrier.feed(&frame(len, t));
                    }
                    if tag == 14 && !ch.out && len <= (1 << 20) {
                        ch.seen = true;
                        ch.carrier.feed(&frame(len, t));
                    }
                }
            }
            12 => {
                width = 2;
                let dt = a(1)?;
                if dt > 10_000_000 {
                    return None;
                }
                tokio::time::advance(Duration::from_millis(dt)).await;
            }
            13 => {
                width = 4;
                let (p, gate, neg) = (a(1)? as usize, a(2)?.min(2) as u8, a(3)?);
                if p >= NPEERS || neg > 2 {
                    return None;
                }
                if w.connected[p] {
                    target = Some(w.chans.len() as u64);
                    let carrier = Carrier::new(gate);
                    w.chans.push(Chan { carrier: carrier.clone(), out: false, seen: false });
                    w.proto.inject_substream_opened_with_fallback(w.peers[p], None, Box::new(carrier), fallback_name(neg));
                }
            }
            15 => {
                width = 5;
                let (k, len, t, fb) = (a(1)?, a(2)?, a(3)?, a(4)?);
                if len > 1 << 20 {
                    return None;
                }
                if let Some(irid) = nth_mod(k, &w.hpend) {
                    target = Some(irid as u64);
                    w.hpend.retain(|x| *x != irid);
                    if fb != 0 {
                        let (tx, rx) = futures::channel::oneshot::channel();
                        w.feedback.push((irid, rx));
                        w.handle.send_response_with_feedback(RequestId::from(irid), payload(len, t), tx);
                    } else {
                        w.handle.send_response(RequestId::from(irid), payload(len, t));
                    }
                }
            }
            16 => {
                width = 2;
                if let Some(irid) = nth_mod(a(1)?, &w.hpend) {
                    target = Some(irid as u64);
                    w.hpend.retain(|x| *x != irid);
                    w.handle.reject_request(RequestId::from(irid));
                }
            }
            17 => {
                width = 2;
                let p = a(1)? as usize;
                if p >= NPEERS {
                    return None;
                }
                w.proto.break_connection(w.peers[p]);
            }
            _ => return None,
        }
        i += width;
        w.settle(&mut events).await;
        events.sort();
        match race {
            // which of the two ready things did the implementation look at first?
            // 19, 20: the answer was consumed => the response; 21: a Timeout for that id => the clock
            // (an oversize answer shows up as a read failure, code 4, instead of a response)
            Some(19) | Some(20) => choices.push(if events.iter().any(|e| e[0] == 2 || (e[0] == 3 && e[2] == 4)) { 0 } else { 1 }),
            Some(_) => choices.push(if events.iter().any(|e| e[0] == 3 && e[1] == race_rid && e[2] == 6) { 1 } else { 0 }),
            None => {}
        }
        let mut dump = Vec::new();
        if w.run.is_none() {
            w.dump(&mut dump);
        }
        out.push(StepRec { target, events, dump });
    }
    if i != c.len() {
        return None;
    }
    Some((out, choices))
}

fn run_mode(c: &[u64], mode: Mode) -> Option<(Vec<StepRec>, Vec<u64>)> {
    let rt = tokio::runtime::Builder::new_current_thread()
        .enable_all()
        .start_paused(true)
        .build()
        .unwrap();
    // unconstrained: tokio's cooperative budget would otherwise make a ready channel or timer
    // report Pending after ~128 operations within this single never-yielding poll, which the
    // non-blocking probes of the harness (now_or_never, the idle arm of step) would mistake
    // for "nothing ready"
    rt.block_on(tokio::task::unconstrained(run_ops(c, mode)))
}

/// Runs `mode` until the implementation's choices at the racing stimuli are the given ones
/// (they are random: tokio's select! is unbiased).
fn run_until(c: &[u64], mode: Mode, want: &[u64]) -> Option<(Vec<StepRec>, bool)> {
    let mut last = None;
    for _ in 0..40 {
        let (steps, choices) = run_mode(c, mode)?;
        if choices == want {
            return Some((steps, true));
        }
        last = Some(steps);
    }
    last.map(|s| (s, false))
}

/// Writes the observed choices into the case (last field of the racing stimuli).
fn with_choices(c: &[u64], choices: &[u64]) -> Vec<u64> {
    let mut c = c.to_vec();
    let width = |tag: u64| -> usize {
        match tag {
            0 => 8, 1 => 2, 2 => 4, 3 | 4 => 2, 5 => 4, 6 => 3, 7 | 8 | 10 | 11 | 12 | 16 | 17 => 2,
            9 | 14 => 4, 13 => 4, 15 => 5, 18 => 6, 19 | 20 => 6, 21 => 4, 22 => 1, _ => usize::MAX,
        }
    };
    let mut i = 6;
    let mut k = 0;
    while i < c.len() {
        let w = width(c[i]);
        if w == usize::MAX || i + w > c.len() {
            break;
        }
        if matches!(c[i], 19 | 20 | 21) {
            if let Some(ch) = choices.get(k) {
                c[i + w - 1] = *ch;
            }
            k += 1;
        }
        i += w;
    }
    c
}

/// Every case is run three times on fresh protocol objects:
///  A. the REAL `RequestResponseProtocol::run` future polled by hand — its events are the ones
///     printed (so a change inside `run` is seen);
///  B. the single-stepped copy of the loop — it supplies the bookkeeping dumps;
///  C. the real `run` with an event channel and a command channel of capacity 1, the loop parking
///     inside handlers until the user drains — must show the same events as A ("nothing lost").
/// If B or C disagrees with A on what one stimulus made observable, a marker event `99 which` is
/// added for that stimulus (the model never prints one, so the case shows up as a disagreement);
/// if it is C, C's events are printed instead of A's, so that the oracle judges them too.
fn run_case(c: &[u64]) -> (Vec<u64>, Vec<u64>) {
    let c0 = c.to_vec();
    let r = catch_unwind(AssertUnwindSafe(move || {
        let (a, choices) = run_mode(&c0, Some(None))?;
        let c1 = with_choices(&c0, &choices);
        let (b, b_ok) = run_until(&c0, None, &choices)?;
        let (k, k_ok) = run_until(&c0, Some(Some((1, 1))), &choices)?;
        if a.len() != b.len() || a.len() != k.len() {
            return Some((c1, vec![PANIC_MARK, 1]));
        }
        let mut out = vec![1u64];
        for ((a, b), k) in a.iter().zip(b.iter()).zip(k.iter()) {
            let same = |x: &StepRec| x.target == a.target && x.events == a.events;
            let shown = if !same(k) && k_ok { k } else { a };
            let mut events = shown.events.clone();
            if !same(b) {
                events.push(vec![99, 1]);
            }
            if !same(k) {
                events.push(vec![99, 2]);
            }
            out.push(shown.target.map(|t| t + 1).unwrap_or(0));
            out.push(events.len() as u64);
            for e in events.iter() {
                out.extend(e.iter().copied());
            }
            out.extend(b.dump.iter().copied());
        }
        Some((c1, out))
    }));
    match r {
        Ok(Some(x)) => x,
        Ok(None) => (c.to_vec(), vec![0]),
        Err(_) => (c.to_vec(), vec![PANIC_MARK]),
    }
}

// ------------------------------------------------------------------ generator

/// Dialogue-shaped histories: the generator keeps a rough estimate of the environment (which
/// peers are connected, how many substream-open commands and carriers exist, which inbound
/// requests wait for the user) and mostly picks stimuli that hit something. The estimate may be
/// wrong; a stimulus that misses is a no-op for implementation and model alike.
fn gen_guided(rng: &mut Rng, thorough: bool) -> Vec<u64> {
    let max_inb = rng.pick(&[0u64, 0, 0, 2, 3, 6]);
    let ndial = rng.pick(&[2u64, 4, 4]);
    let max_size = rng.pick(&[16u64, 300, 1024]);
    let npeers = rng.range(1, 3) as usize;
    let nops = if thorough { rng.range(10, 120) } else { rng.range(6, 50) };
    let selfp = if rng.chance(15) { 1 } else { 0 };
    let ccap = rng.pick(&[0u64, 0, 0, 1, 2, 3]);
    let mut c = vec![max_inb, ndial, max_size, selfp, ccap, nops];
    let lens = [0u64, 1, 2, 7, max_size - 1, max_size];
    let mut races = 0;
    let mut connected = vec![false; npeers];
    let mut dialing = vec![0u64; npeers];
    let mut opens = 0u64;
    let mut out_chans: Vec<u64> = Vec::new();
    let mut in_chans: Vec<u64> = Vec::new();
    let mut blocked: Vec<u64> = Vec::new();
    let mut nchans = 0u64;
    let mut ids = 0u64;
    let mut waiting = 0u64;
    for _ in 0..nops {
        let p = rng.below(npeers as u64) as usize;
        let len = if rng.chance(6) { max_size + 1 } else { rng.pick(&lens) };
        let tag = rng.below(256);
        let gate = rng.pick(&[1u64, 1, 1, 1, 0, 0, 2]);
        let roll = rng.below(100);
        let op: Vec<u64> = if roll < 22 {
            ids += 1;
            let (fname, flen, ftag) = if rng.chance(30) { (rng.range(1, 2), rng.pick(&lens), rng.below(256)) } else { (0, 0, 0) };
            if rng.chance(8) {
                let n = rng.range(2, 5);
                ids += n - 1;
                let took = n.min(if ccap == 0 { 4096 } else { ccap });
                if connected[p] { opens += took; } else { dialing[p] += took; }
                vec![18, p as u64, 1, n, len, tag]
            } else if connected[p] {
                opens += 1;
                vec![0, p as u64, rng.below(2), len, tag, fname, flen, ftag]
            } else {
                dialing[p] += 1;
                vec![0, p as u64, if rng.chance(85) { 1 } else { 0 }, len, tag, fname, flen, ftag]
            }
        } else if roll < 32 {
            let cap = if dialing[p] >= 2 && rng.chance(50) { rng.range(1, dialing[p] - 1) } else { rng.pick(&[0u64, 0, 0, 1, 2]) };
            if !connected[p] {
                connected[p] = true;
                opens += if cap == 0 { dialing[p] } else { dialing[p].min(cap) };
                dialing[p] = 0;
            }
            vec![2, p as u64, if rng.chance(5) { 1 } else { 0 }, cap]
        } else if roll < 50 && opens > 0 {
            opens -= 1;
            out_chans.push(nchans);
            if gate == 0 {
                blocked.push(nchans);
            }
            nchans += 1;
            vec![5, rng.below(opens + 1), gate, rng.pick(&[0u64, 0, 0, 1, 2])]
        } else if roll < 62 && !out_chans.is_empty() {
            if races < 2 && rng.chance(15) {
                races += 1;
                match rng.below(3) {
                    0 => vec![19, rng.pick(&out_chans), len, tag, rng.pick(&[5100u64, 2600]), 0],
                    1 => vec![20, rng.pick(&out_chans), len, tag, rng.below(ids + 1), 0],
                    _ => vec![21, rng.below(ids + 1), rng.pick(&[5100u64, 2600]), 0],
                }
            } else {
                vec![9, rng.pick(&out_chans), len, tag]
            }
        } else if roll < 66 && !blocked.is_empty() {
            let i = rng.below(blocked.len() as u64) as usize;
            vec![if rng.chance(80) { 7 } else { 8 }, blocked.swap_remove(i)]
        } else if roll < 70 && ids > 0 {
            vec![1, rng.below(ids)]
        } else if roll < 73 {
            vec![12, rng.pick(&[1700u64, 2600, 5100, 300])]
        } else if roll < 76 && opens > 0 {
            opens -= 1;
            vec![6, rng.below(opens + 1), rng.below(2)]
        } else if roll < 79 {
            if connected[p] {
                connected[p] = false;
            }
            vec![3, p as u64]
        } else if roll < 81 {
            dialing[p] = 0;
            vec![4, p as u64]
        } else if roll < 87 && connected[p] {
            ids += 1;
            in_chans.push(nchans);
            if gate == 0 {
                blocked.push(nchans);
            }
            nchans += 1;
            vec![13, p as u64, gate, rng.pick(&[0u64, 0, 1, 2])]
        } else if roll < 92 && !in_chans.is_empty() {
            waiting += 1;
            vec![14, rng.pick(&in_chans), len, tag]
        } else if roll < 97 && waiting > 0 {
            waiting -= 1;
            vec![15, rng.below(waiting + 1), len, tag, rng.below(2)]
        } else if roll < 98 && waiting > 0 {
            waiting -= 1;
            vec![16, rng.below(waiting + 1)]
        } else if !out_chans.is_empty() {
            vec![rng.pick(&[10u64, 11]), rng.pick(&out_chans)]
        } else if rng.chance(20) {
            vec![22]
        } else {
            vec![17, p as u64]
        };
        c.extend(op);
    }
    c
}

fn gen_case(rng: &mut Rng, thorough: bool) -> Vec<u64> {
    if rng.chance(45) {
        return gen_guided(rng, thorough);
    }
    let max_inb = rng.pick(&[0u64, 0, 1, 2, 3, 4]);
    let ndial = rng.pick(&[0u64, 2, 3, 4, 4]);
    let max_size = rng.pick(&[16u64, 16, 300, 1024]);
    let npeers = rng.range(1, NPEERS as u64);
    let nops = if thorough { rng.range(5, 120) } else { rng.range(3, 45) };
    let selfp = if rng.chance(20) { 1 } else { 0 };
    let ccap = rng.pick(&[0u64, 0, 0, 1, 2]);
    let mut c = vec![max_inb, ndial, max_size, selfp, ccap, nops];
    let mut races = 0;
    let mut sent = 0u64; // request ids are allocated in order: a good guess for cancel targets
    let lens = [0u64, 1, 2, 7, max_size - 1, max_size, max_size + 1];
    let style = rng.below(4);
    for _ in 0..nops {
        let p = rng.below(npeers);
        let k = rng.below(8);
        let len = if rng.chance(12) { max_size + 1 } else { rng.pick(&lens) };
        let tag = rng.below(256);
        let gate = rng.pick(&[1u64, 1, 1, 0, 0, 2]);
        let roll = rng.below(100);
        // style 0: outbound heavy; 1: dial heavy; 2: inbound heavy; 3: uniform
        let op: Vec<u64> = match (style, roll) {
            (1, 0..=29) | (_, 0..=19) => {
                sent += 1;
                if rng.chance(8) {
                    let n = rng.range(2, 4);
                    sent += n - 1;
                    vec![18, p, 1, n, len, tag]
                } else if rng.chance(25) {
                    vec![0, p, if style == 1 || rng.chance(60) { 1 } else { 0 }, len, tag, rng.range(1, 2), rng.pick(&lens), rng.below(256)]
                } else {
                    vec![0, p, if style == 1 || rng.chance(60) { 1 } else { 0 }, len, tag, 0, 0, 0]
                }
            }
            (_, 20..=24) => vec![1, if sent == 0 { 0 } else { rng.below(sent + 2) }],
            (_, 25..=34) => vec![2, p, if rng.chance(10) { 1 } else { 0 }, rng.pick(&[0u64, 0, 0, 1, 1, 2, 3])],
            (_, 35..=39) => vec![3, p],
            (_, 40..=43) => vec![4, p],
            (_, 44..=55) => vec![5, k, gate, rng.pick(&[0u64, 0, 0, 1, 2])],
            (_, 56..=58) => vec![6, k, rng.below(2)],
            (_, 59..=63) => vec![7, k],
            (_, 64..=65) => vec![8, k],
            (_, 66..=74) => {
                if races < 2 && rng.chance(12) {
                    races += 1;
                    match rng.below(3) {
                        0 => vec![19, k, len, tag, rng.pick(&[5100u64, 1700]), 0],
                        1 => vec![20, k, len, tag, rng.below(sent + 1), 0],
                        _ => vec![21, rng.below(sent + 1), rng.pick(&[5100u64, 2600]), 0],
                    }
                } else {
                    vec![9, k, len, tag]
                }
            }
            (_, 75..=76) => vec![10, k],
            (_, 77..=78) => vec![11, k],
            (_, 79..=82) => vec![12, rng.pick(&[1700u64, 2600, 5100, 300])],
            (2, 83..=90) | (_, 83..=86) => {
                sent += 1; // inbound ids come from the same allocator
                vec![13, p, gate, rng.pick(&[0u64, 0, 1, 2])]
            }
            (_, 87..=92) => vec![14, k, len, tag],
            (_, 93..=96) => vec![15, k, len, tag, rng.below(2)],
            (_, 97..=98) => vec![16, k],
            _ => if rng.chance(25) { vec![22] } else { vec![17, p] },
        };
        c.extend(op);
    }
    c
}

pub fn main(args: &Args) {
    let seed = args.u64("seed", 1);
    let ncases = args.u64("cases", 100);
    let thorough = args.str("tier") == Some("thorough");
    let mut out = Outputs::open(args);
    let mut rng = Rng::new(seed);

    let mut stored: Vec<Vec<u64>> = Vec::new();
    if let Some(r) = args.str("replay") {
        stored = read_cases(Path::new(r));
    } else if let Some(d) = args.str("corpus") {
        stored = read_cases(Path::new(d));
    }
    for c in stored.iter() {
        let (c, t) = run_case(c);
        out.emit(&c, &t);
    }
    if args.str("replay").is_some() {
        return;
    }
    for _ in 0..ncases {
        let mut r = rng.fork();
        let c = gen_case(&mut r, thorough);
        let (c, t) = run_case(&c);
        out.emit(&c, &t);
    }
}
