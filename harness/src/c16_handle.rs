//! C16, fourth stream (cases starting with HANDLE_TAG): the `KademliaHandle` in front of the REAL
//! `Kademlia::run` loop. Case / trace format: coq/C16/Glue.v (`p_hgop`, `hrun_trace`).
//!
//! The command channel has 1-3 slots (hook `ConfigBuilder::verif_build_channels`). The methods are called by
//! NAME, taken from the table tools/gen_c16_tables.py extracts from handle.rs (gen_c16_tables.rs): a method
//! this file has no call for makes the case end with the marker 9, which the model never produces. An
//! `async` method that finds the channel full stays suspended in `send().await`: its future (it owns the
//! handle meanwhile, as `&mut self` demands) is kept and polled again by the `wake` op. The routing table
//! is empty, so every operation ends in the drain that follows its command: the trace shows the result of
//! every call, how many commands each poll of the loop took, the store after it, and the events the user
//! receives — in particular no event ever carries the id a failed `try_` method has drawn.
use super::*;

#[path = "gen_c16_tables.rs"]
mod gen_tables;

pub const HANDLE_TAG: u64 = 1_000_016;
const HLOCAL: u64 = 99;

#[derive(Clone, Debug)]
enum Body {
    AddKnownPeer { p: u64, addr: bool },
    FindNode { seed: u64 },
    PutRecord { rk: u64, len: u64, expc: u64, qtag: u64, qn: u64 },
    PutToPeers { rk: u64, len: u64, publ: u64, expc: u64, qtag: u64, qn: u64, upd: bool, peers: Vec<u64> },
    GetRecord { rk: u64, qtag: u64, qn: u64 },
    GetProviders { rk: u64 },
    StartProviding { rk: u64, qtag: u64, qn: u64 },
    StopProviding { rk: u64 },
    StoreRecord { rk: u64, len: u64, publ: u64, expc: u64 },
}

#[derive(Clone, Debug)]
enum Op {
    Call { tr: bool, b: Body },
    Poll,
    Wake,
    Recv,
    Fire { rk: u64, wait: u64 },
    /// the loop ends: its future is dropped, the command channel is closed
    Kill,
}

fn key_bytes(rk: u64) -> Vec<u64> {
    Key::new(Sys::key_of(rk)).verif_raw().iter().map(|b| *b as u64).collect()
}

impl Body {
    fn kind(&self) -> u64 {
        match self {
            Body::AddKnownPeer { .. } => 0,
            Body::FindNode { .. } => 1,
            Body::PutRecord { .. } => 2,
            Body::PutToPeers { .. } => 3,
            Body::GetRecord { .. } => 4,
            Body::GetProviders { .. } => 5,
            Body::StartProviding { .. } => 6,
            Body::StopProviding { .. } => 7,
            Body::StoreRecord { .. } => 8,
        }
    }

    /// name of the command variant the methods of this kind send; the method name is derived from it
    fn base_name(&self) -> &'static str {
        match self {
            Body::AddKnownPeer { .. } => "add_known_peer",
            Body::FindNode { .. } => "find_node",
            Body::PutRecord { .. } => "put_record",
            Body::PutToPeers { .. } => "put_record_to_peers",
            Body::GetRecord { .. } => "get_record",
            Body::GetProviders { .. } => "get_providers",
            Body::StartProviding { .. } => "start_providing",
            Body::StopProviding { .. } => "stop_providing",
            Body::StoreRecord { .. } => "store_record",
        }
    }

    fn encode(&self, o: &mut Vec<u64>) {
        o.push(self.kind());
        match self {
            Body::AddKnownPeer { p, addr } => o.extend([*p, *addr as u64]),
            Body::FindNode { seed } => {
                o.push(*seed);
                o.extend(Key::from(mk_peer(1_000 + seed)).verif_raw().iter().map(|b| *b as u64));
            }
            Body::PutRecord { rk, len, expc, qtag, qn } => {
                o.extend([*rk, *len, *expc, *qtag, *qn]);
                o.extend(key_bytes(*rk));
            }
            Body::PutToPeers { rk, len, publ, expc, qtag, qn, upd, peers } => {
                o.extend([*rk, *len, *publ, *expc, *qtag, *qn, *upd as u64]);
                push_list(o, peers);
            }
            Body::GetRecord { rk, qtag, qn } => {
                o.extend([*rk, *qtag, *qn]);
                o.extend(key_bytes(*rk));
            }
            Body::GetProviders { rk } => {
                o.push(*rk);
                o.extend(key_bytes(*rk));
            }
            Body::StartProviding { rk, qtag, qn } => {
                o.extend([*rk, *qtag, *qn]);
                o.extend(key_bytes(*rk));
            }
            Body::StopProviding { rk } => {
                o.push(*rk);
                o.extend(key_bytes(*rk));
            }
            Body::StoreRecord { rk, len, publ, expc } => o.extend([*rk, *len, *publ, *expc]),
        }
    }
}

impl Op {
    fn encode(&self, o: &mut Vec<u64>) {
        match self {
            Op::Call { tr, b } => {
                o.extend([0, *tr as u64]);
                b.encode(o);
            }
            Op::Poll => o.push(1),
            Op::Wake => o.push(2),
            Op::Recv => o.push(3),
            Op::Fire { rk, wait } => {
                o.extend([4, *rk, *wait]);
                o.extend(key_bytes(*rk));
            }
            Op::Kill => o.push(5),
        }
    }
}

fn decode(c: &[u64]) -> Option<(u64, Vec<Op>)> {
    let mut r = Cursor(c, 0);
    if r.n()? != HANDLE_TAG {
        return None;
    }
    let cap = r.n()?;
    if cap == 0 || cap > 64 {
        return None;
    }
    let skip = |r: &mut Cursor| -> Option<()> {
        for _ in 0..32 {
            r.n()?;
        }
        Some(())
    };
    skip(&mut r)?;
    let n = r.n()? as usize;
    let mut ops = Vec::new();
    for _ in 0..n {
        let op = match r.n()? {
            0 => {
                let tr = r.n()? != 0;
                let b = match r.n()? {
                    0 => Body::AddKnownPeer { p: r.n()?, addr: r.n()? != 0 },
                    1 => {
                        let seed = r.n()?;
                        skip(&mut r)?;
                        Body::FindNode { seed }
                    }
                    2 => {
                        let b = Body::PutRecord { rk: r.n()?, len: r.n()?, expc: r.n()?, qtag: r.n()?, qn: r.n()? };
                        skip(&mut r)?;
                        b
                    }
                    3 => Body::PutToPeers {
                        rk: r.n()?,
                        len: r.n()?,
                        publ: r.n()?,
                        expc: r.n()?,
                        qtag: r.n()?,
                        qn: r.n()?,
                        upd: r.n()? != 0,
                        peers: r.list()?,
                    },
                    4 => {
                        let b = Body::GetRecord { rk: r.n()?, qtag: r.n()?, qn: r.n()? };
                        skip(&mut r)?;
                        b
                    }
                    5 => {
                        let b = Body::GetProviders { rk: r.n()? };
                        skip(&mut r)?;
                        b
                    }
                    6 => {
                        let b = Body::StartProviding { rk: r.n()?, qtag: r.n()?, qn: r.n()? };
                        skip(&mut r)?;
                        b
                    }
                    7 => {
                        let b = Body::StopProviding { rk: r.n()? };
                        skip(&mut r)?;
                        b
                    }
                    8 => Body::StoreRecord { rk: r.n()?, len: r.n()?, publ: r.n()?, expc: r.n()? },
                    _ => return None,
                };
                Op::Call { tr, b }
            }
            1 => Op::Poll,
            2 => Op::Wake,
            3 => Op::Recv,
            4 => {
                let op = Op::Fire { rk: r.n()?, wait: r.n()? };
                skip(&mut r)?;
                op
            }
            5 => Op::Kill,
            _ => return None,
        };
        ops.push(op);
    }
    (r.1 == c.len()).then_some((cap, ops))
}

type Parked = Pin<Box<dyn Future<Output = (KademliaHandle, Option<usize>)>>>;

struct HSys {
    handle: Option<KademliaHandle>,
    parked: Option<Parked>,
    probe: VerifProbe,
    fut: Pin<Box<dyn Future<Output = ()>>>,
    _manager: TransportManager,
    _input: VerifServiceInput,
    dump: VerifKadDump,
    now_ms: u64,
    /// refresh futures of the store the harness knows of: (key label, deadline)
    timers: Vec<(u64, u64)>,
    provided: Vec<u64>,
    /// commands in the channel, as far as the harness can tell from the results
    queued: u64,
    dead: bool,
}

fn peer_of(p: u64) -> PeerId {
    if p == HLOCAL {
        mk_peer(500)
    } else {
        mk_peer(p)
    }
}

fn label_of(p: &PeerId) -> u64 {
    if *p == mk_peer(500) {
        return HLOCAL;
    }
    (0..MAX_POOL).find(|i| mk_peer(*i) == *p).unwrap_or(UNKNOWN)
}

fn record(rk: u64, len: u64, publ: u64, expc: u64) -> Record {
    Record {
        key: Sys::key_of(rk),
        value: vec![LOCAL_REC; len as usize],
        publisher: match publ {
            0 => None,
            1 => Some(mk_peer(500)),
            c => Some(mk_peer(c - 2)),
        },
        expires: if expc == 0 { None } else { Some(Instant::now() + Duration::from_millis((expc - 1) * TICK_MS)) },
    }
}

impl HSys {
    fn new(cap: u64) -> Self {
        let local = mk_peer(500);
        let manager = TransportManagerBuilder::new().build();
        let (service, input) = TransportService::verif_new(
            &manager,
            local,
            ProtocolName::from("/ipfs/kad/1.0.0"),
            ProtocolCodec::UnsignedVarint(Some(70 * 1024)),
            Duration::from_secs(3600 * 24),
        );
        let (config, handle) = ConfigBuilder::new()
            .with_replication_factor(20)
            .with_provider_refresh_interval(Duration::from_secs(REFRESH_SECS))
            .with_provider_record_ttl(Duration::from_secs(PROVIDER_TTL_SECS))
            .with_record_ttl(Duration::from_secs(RECORD_TTL_SECS))
            .with_max_record_size(MAX_RECORD_SIZE)
            .with_max_records(MAX_RECORDS)
            .verif_build_channels(cap as usize, 4096);
        let probe = VerifProbe::default();
        let kad = VerifKademlia::new(service, config, probe.clone());
        let fut: Pin<Box<dyn Future<Output = ()>>> = Box::pin(async move {
            let _ = kad.run().await;
        });
        let mut s = HSys {
            handle: Some(handle),
            parked: None,
            probe,
            fut,
            _manager: manager,
            _input: input,
            dump: VerifKadDump::default(),
            now_ms: 0,
            timers: Vec::new(),
            provided: Vec::new(),
            queued: 0,
            dead: false,
        };
        s.poll_loop();
        s
    }

    /// Polls the loop until it waits; returns the number of `select!` iterations it went through.
    fn poll_loop(&mut self) -> u64 {
        if self.dead {
            return 0;
        }
        let waker = futures::task::noop_waker();
        let mut cx = Context::from_waker(&waker);
        for _ in 0..3 {
            if self.fut.as_mut().poll(&mut cx).is_ready() {
                break;
            }
        }
        let mut n = 0;
        for en in self.probe.take() {
            if let VerifProbeEntry::AtSelect(d) = en {
                self.dump = d;
                n += 1;
            }
        }
        n
    }

    fn store_dump(&self, out: &mut Vec<u64>) {
        enc_store_dump(&self.dump.store, &label_of, out);
    }

    /// Calls the method `name` of the handle. `None`: this file has no call for that name.
    fn call(&mut self, tr: bool, b: &Body) -> Option<[u64; 2]> {
        let name = if tr { format!("try_{}", b.base_name()) } else { b.base_name().to_string() };
        if !gen_tables::HANDLE_METHODS.contains(&name.as_str()) {
            return None;
        }
        // the quorums this file can build (Sys::quorum) are the variants of the source
        if gen_tables::QUORUM != ["All", "One", "N"] || gen_tables::COMMANDS.len() != 9 || gen_tables::EVENTS.len() != 10 {
            return None;
        }
        let q = |r: Result<litep2p::protocol::libp2p::kademlia::QueryId, ()>| match r {
            Ok(id) => [2, id.0 as u64],
            Err(()) => [0, 0],
        };
        let u = |r: Result<(), ()>| match r {
            Ok(()) => [1, 0],
            Err(()) => [0, 0],
        };
        if tr {
            let h = self.handle.as_mut()?;
            let res = match b.clone() {
                Body::AddKnownPeer { p, addr } => {
                    u(h.try_add_known_peer(peer_of(p), if addr { vec!["/ip4/10.1.0.1/tcp/2000".parse().unwrap()] } else { vec![] }))
                }
                Body::FindNode { seed } => q(h.try_find_node(mk_peer(1_000 + seed))),
                Body::PutRecord { rk, len, expc, qtag, qn } => q(h.try_put_record(record(rk, len, 0, expc), Sys::quorum(qtag, qn))),
                Body::PutToPeers { rk, len, publ, expc, qtag, qn, upd, peers } => q(h.try_put_record_to_peers(
                    record(rk, len, publ, expc),
                    peers.iter().map(|p| peer_of(*p)).collect(),
                    upd,
                    Sys::quorum(qtag, qn),
                )),
                Body::GetRecord { rk, qtag, qn } => q(h.try_get_record(Sys::key_of(rk), Sys::quorum(qtag, qn))),
                Body::StoreRecord { rk, len, publ, expc } => u(h.try_store_record(record(rk, len, publ, expc))),
                _ => return None,
            };
            if res[0] != 0 {
                self.queued += 1;
            }
            return Some(res);
        }
        let mut h = self.handle.take()?;
        let b2 = b.clone();
        let mut fut: Parked = Box::pin(async move {
            let id = match b2 {
                Body::AddKnownPeer { p, addr } => {
                    h.add_known_peer(peer_of(p), if addr { vec!["/ip4/10.1.0.1/tcp/2000".parse().unwrap()] } else { vec![] }).await;
                    None
                }
                Body::FindNode { seed } => Some(h.find_node(mk_peer(1_000 + seed)).await.0),
                Body::PutRecord { rk, len, expc, qtag, qn } =>
                    Some(h.put_record(record(rk, len, 0, expc), Sys::quorum(qtag, qn)).await.0),
                Body::PutToPeers { rk, len, publ, expc, qtag, qn, upd, peers } => Some(
                    h.put_record_to_peers(
                        record(rk, len, publ, expc),
                        peers.iter().map(|p| peer_of(*p)).collect(),
                        upd,
                        Sys::quorum(qtag, qn),
                    )
                    .await
                    .0,
                ),
                Body::GetRecord { rk, qtag, qn } => Some(h.get_record(Sys::key_of(rk), Sys::quorum(qtag, qn)).await.0),
                Body::GetProviders { rk } => Some(h.get_providers(Sys::key_of(rk)).await.0),
                Body::StartProviding { rk, qtag, qn } => Some(h.start_providing(Sys::key_of(rk), Sys::quorum(qtag, qn)).await.0),
                Body::StopProviding { rk } => {
                    h.stop_providing(Sys::key_of(rk)).await;
                    None
                }
                Body::StoreRecord { rk, len, publ, expc } => {
                    h.store_record(record(rk, len, publ, expc)).await;
                    None
                }
            };
            (h, id)
        });
        let waker = futures::task::noop_waker();
        let mut cx = Context::from_waker(&waker);
        match fut.as_mut().poll(&mut cx) {
            Poll::Ready((h, id)) => {
                self.handle = Some(h);
                self.queued += 1;
                Some(match id {
                    Some(i) => [2, i as u64],
                    None => [1, 0],
                })
            }
            Poll::Pending => {
                self.parked = Some(fut);
                Some([3, 0])
            }
        }
    }

    fn wake(&mut self, trace: &mut Vec<u64>) {
        let Some(mut fut) = self.parked.take() else {
            trace.push(0);
            return;
        };
        let waker = futures::task::noop_waker();
        let mut cx = Context::from_waker(&waker);
        match fut.as_mut().poll(&mut cx) {
            Poll::Ready((h, id)) => {
                self.handle = Some(h);
                self.queued += 1;
                trace.push(1);
                match id {
                    Some(i) => trace.extend([2, i as u64]),
                    None => trace.extend([1, 0]),
                }
            }
            Poll::Pending => {
                self.parked = Some(fut);
                trace.push(0);
            }
        }
    }

    fn recv(&mut self, trace: &mut Vec<u64>) {
        let Some(h) = self.handle.as_mut() else {
            trace.push(0);
            return;
        };
        let waker = futures::task::noop_waker();
        let mut cx = Context::from_waker(&waker);
        match Pin::new(h).poll_next(&mut cx) {
            Poll::Ready(Some(ev)) => {
                trace.push(1);
                trace.extend(enc_event_raw(&ev));
            }
            _ => trace.push(0),
        }
    }

    /// `wait` ticks pass (the store ages first), then the loop is polled: the refresh future completes.
    async fn fire(&mut self, wait: u64, trace: &mut Vec<u64>) -> Option<()> {
        let by = Duration::from_millis(wait * TICK_MS);
        self.probe.request_store_age(by);
        self.handle.as_mut()?.try_store_record(record(251, 4, 0, 0)).ok()?; // refused by the store: touches nothing
        self.poll_loop();
        tokio::time::advance(by).await;
        self.now_ms += wait * TICK_MS;
        // the id the loop draws is the one its engine reports next
        let waker = futures::task::noop_waker();
        let mut cx = Context::from_waker(&waker);
        for _ in 0..3 {
            if self.fut.as_mut().poll(&mut cx).is_ready() {
                break;
            }
        }
        let mut id = 777_777u64;
        for en in self.probe.take() {
            match en {
                VerifProbeEntry::Action { query, .. } => id = query as u64,
                VerifProbeEntry::AtSelect(d) => self.dump = d,
            }
        }
        trace.push(id);
        self.store_dump(trace);
        Some(())
    }
}

/// KademliaEvent as coq/C16/Glue.v `enc_out` writes it, with the raw query ids.
fn enc_event_raw(ev: &KademliaEvent) -> Vec<u64> {
    match ev {
        KademliaEvent::FindNodeSuccess { query_id, peers, .. } => {
            let mut o = vec![0, query_id.0 as u64];
            push_list(&mut o, &peers.iter().map(|(p, _)| label_of(p)).collect::<Vec<_>>());
            o
        }
        KademliaEvent::PutRecordSuccess { query_id, .. } => vec![1, query_id.0 as u64],
        KademliaEvent::AddProviderSuccess { query_id, .. } => vec![2, query_id.0 as u64],
        KademliaEvent::GetRecordSuccess { query_id } => vec![3, query_id.0 as u64],
        KademliaEvent::GetProvidersSuccess { query_id, providers, .. } => {
            let mut o = vec![4, query_id.0 as u64, providers.len() as u64];
            for p in providers {
                o.push(label_of(&p.peer));
                push_list(&mut o, &(0..p.addresses.len() as u64).collect::<Vec<_>>());
            }
            o
        }
        KademliaEvent::QueryFailed { query_id } => vec![5, query_id.0 as u64],
        KademliaEvent::GetRecordPartialResult { query_id, record } => vec![
            6,
            query_id.0 as u64,
            label_of(&record.peer),
            record.record.value.first().copied().unwrap_or(0) as u64,
        ],
        KademliaEvent::RoutingTableUpdate { peers } => {
            let mut o = vec![7];
            push_list(&mut o, &peers.iter().map(label_of).collect::<Vec<_>>());
            o
        }
        KademliaEvent::IncomingRecord { .. } => vec![8],
        KademliaEvent::IncomingProvider { .. } => vec![9],
    }
}

fn encode_case(cap: u64, ops: &[Op]) -> Vec<u64> {
    let mut c = vec![HANDLE_TAG, cap];
    c.extend(Key::from(mk_peer(500)).verif_raw().iter().map(|b| *b as u64));
    c.push(ops.len() as u64);
    for op in ops {
        op.encode(&mut c);
    }
    c
}

/// Applies one op; `None` = the op cannot be played in this state (it is left out of the case).
async fn apply(s: &mut HSys, op: &mut Op, trace: &mut Vec<u64>) -> Option<()> {
    match op {
        Op::Call { tr, b } => {
            if s.parked.is_some() {
                return None;
            }
            if let Body::StartProviding { rk, .. } = b {
                // one refresh future per key, deadlines three ticks apart (time passes only with an empty channel,
                // so the command is taken at this clock reading)
                if s.provided.contains(rk)
                    || s.timers.iter().any(|t| t.1.abs_diff(s.now_ms + REFRESH_MS) < 3 * TICK_MS)
                {
                    return None;
                }
            }
            if let Body::StopProviding { .. } = b {
                return None;
            }
            match s.call(*tr, b) {
                Some(res) => {
                    if let (Body::StartProviding { rk, .. }, true) = (&*b, res[0] != 0) {
                        s.provided.push(*rk);
                        s.timers.push((*rk, s.now_ms + REFRESH_MS));
                    }
                    trace.extend(res);
                }
                None => trace.push(9),
            }
        }
        Op::Poll => {
            let n = s.poll_loop();
            s.queued = 0;
            trace.push(n);
            s.store_dump(trace);
        }
        Op::Wake => s.wake(trace),
        Op::Recv => {
            if s.parked.is_some() {
                return None;
            }
            s.recv(trace)
        }
        Op::Fire { rk, wait } => {
            if s.parked.is_some() || s.queued > 0 || s.dead {
                return None;
            }
            let (i, (key, deadline)) = s.timers.iter().enumerate().min_by_key(|(_, t)| t.1).map(|(i, t)| (i, *t))?;
            if key != *rk {
                return None;
            }
            s.timers.remove(i);
            let at = deadline.max(s.now_ms) + TICK_MS;
            *wait = (at - s.now_ms) / TICK_MS;
            s.fire(*wait, trace).await?;
            s.timers.push((*rk, s.now_ms + REFRESH_MS));
        }
        Op::Kill => {
            if s.parked.is_some() || s.dead {
                return None;
            }
            s.fut = Box::pin(async {});
            s.dead = true;
            s.timers.clear();
            trace.push(7);
        }
    }
    Some(())
}

pub fn run_stored(c: &[u64]) -> Option<(Vec<u64>, Vec<u64>)> {
    let (cap, ops) = decode(c)?;
    let rt = runtime();
    rt.block_on(tokio::task::unconstrained(async {
        let mut s = HSys::new(cap);
        let mut trace = vec![4u64];
        let mut done = Vec::new();
        for mut op in ops {
            if apply(&mut s, &mut op, &mut trace).await.is_some() {
                done.push(op);
            }
        }
        Some((encode_case(cap, &done), trace))
    }))
}

pub fn generate(seed: u64) -> Option<(Vec<u64>, Vec<u64>)> {
    let mut rng = Rng::new(seed ^ 0x16_4A4D);
    let cap = rng.range(1, 3);
    let rt = runtime();
    rt.block_on(tokio::task::unconstrained(async {
        let mut s = HSys::new(cap);
        let mut trace = vec![4u64];
        let mut done: Vec<Op> = Vec::new();
        let steps = rng.range(6, 40);
        let mut rks: Vec<u64> = vec![5];
        for _ in 0..steps {
            let mut op = match rng.below(20) {
                0..=10 => {
                    let qtag = rng.below(3);
                    let qn = rng.range(1, 4);
                    let len = rng.pick(&[1u64, 1, 2, 4]);
                    let expc = rng.pick(&[0u64, 0, 1, 40]);
                    let rk = if rng.chance(60) { rng.pick(&rks) } else { 10 + rng.below(4) };
                    let b = match rng.below(9) {
                        0 => Body::AddKnownPeer { p: rng.below(3), addr: rng.chance(70) },
                        1 => Body::FindNode { seed: rng.below(50) },
                        2 => {
                            rks.push(rk);
                            Body::PutRecord { rk, len, expc, qtag, qn }
                        }
                        3 => Body::PutToPeers {
                            rk,
                            len,
                            publ: rng.pick(&[0u64, 1, 2]),
                            expc,
                            qtag,
                            qn,
                            upd: rng.chance(50),
                            peers: (0..rng.below(3)).map(|_| rng.pick(&[0u64, 1, HLOCAL])).collect(),
                        },
                        4 => Body::GetRecord { rk, qtag, qn },
                        5 => Body::GetProviders { rk: 500 + rng.below(2) },
                        6 => Body::StartProviding { rk: 500 + rng.below(2), qtag, qn },
                        7 => Body::FindNode { seed: rng.below(50) },
                        _ => {
                            rks.push(rk);
                            Body::StoreRecord { rk, len, publ: rng.pick(&[0u64, 1]), expc }
                        }
                    };
                    // the try_ variant when there is one
                    let has_try = matches!(b.kind(), 0 | 1 | 2 | 3 | 4 | 8);
                    Op::Call { tr: has_try && rng.chance(55), b }
                }
                11..=13 => Op::Poll,
                14 | 15 => Op::Wake,
                16 | 17 => Op::Recv,
                18 if rng.chance(12) => Op::Kill,
                _ => match s.timers.iter().min_by_key(|t| t.1) {
                    Some(t) => Op::Fire { rk: t.0, wait: 0 },
                    None => Op::Poll,
                },
            };
            if apply(&mut s, &mut op, &mut trace).await.is_some() {
                done.push(op);
            }
        }
        // everything is drained: the waiting method completes, every command is taken, every event received
        for _ in 0..4 {
            for mut op in [Op::Poll, Op::Wake] {
                if apply(&mut s, &mut op, &mut trace).await.is_some() {
                    done.push(op);
                }
            }
        }
        for _ in 0..200 {
            let before = trace.len();
            let mut op = Op::Recv;
            apply(&mut s, &mut op, &mut trace).await?;
            done.push(op);
            if trace.len() == before + 1 {
                break;
            }
        }
        for mut op in [Op::Poll, Op::Wake, Op::Recv] {
            apply(&mut s, &mut op, &mut trace).await?;
            done.push(op);
        }
        Some((encode_case(cap, &done), trace))
    }))
}

/// Witnesses: a try_ method on a full channel burns its id and starts nothing; an async method waits for its
/// slot and is served afterwards; the ids of refreshes come from the same counter.
pub fn witnesses() -> Vec<(&'static str, Vec<u64>)> {
    let find = |seed| Body::FindNode { seed };
    vec![
        (
            "handle_try_on_full_channel",
            encode_case(
                1,
                &[
                    Op::Call { tr: true, b: find(1) },
                    Op::Call { tr: true, b: find(2) },
                    Op::Call { tr: true, b: Body::StoreRecord { rk: 5, len: 1, publ: 0, expc: 0 } },
                    Op::Poll,
                    Op::Call { tr: true, b: find(3) },
                    Op::Poll,
                    Op::Wake,
                    Op::Recv,
                    Op::Recv,
                    Op::Recv,
                    Op::Poll,
                    Op::Wake,
                    Op::Recv,
                ],
            ),
        ),
        (
            "handle_async_waits_for_slot",
            encode_case(
                1,
                &[
                    Op::Call { tr: false, b: Body::StoreRecord { rk: 5, len: 1, publ: 0, expc: 0 } },
                    Op::Call { tr: false, b: Body::GetRecord { rk: 5, qtag: 1, qn: 1 } },
                    Op::Wake,
                    Op::Poll,
                    Op::Wake,
                    Op::Poll,
                    Op::Recv,
                    Op::Recv,
                    Op::Recv,
                    Op::Poll,
                    Op::Wake,
                    Op::Recv,
                ],
            ),
        ),
        (
            // after the loop has ended the try_ methods fail; the async ones still draw and return an id
            // (the error of the closed channel is dropped): no operation is started, nothing is reported
            "handle_calls_after_loop_ended",
            encode_case(
                2,
                &[
                    Op::Call { tr: true, b: find(1) },
                    Op::Kill,
                    Op::Call { tr: true, b: find(2) },
                    Op::Call { tr: false, b: find(3) },
                    Op::Call { tr: false, b: Body::StoreRecord { rk: 5, len: 1, publ: 0, expc: 0 } },
                    Op::Poll,
                    Op::Wake,
                    Op::Recv,
                ],
            ),
        ),
        (
            "handle_refresh_id_from_shared_counter",
            encode_case(
                2,
                &[
                    Op::Call { tr: false, b: Body::StartProviding { rk: 500, qtag: 2, qn: 2 } },
                    Op::Poll,
                    Op::Call { tr: true, b: find(1) },
                    Op::Poll,
                    Op::Fire { rk: 500, wait: 0 },
                    Op::Call { tr: false, b: Body::GetProviders { rk: 500 } },
                    Op::Poll,
                    Op::Recv,
                    Op::Recv,
                    Op::Recv,
                    Op::Recv,
                    Op::Recv,
                    Op::Poll,
                    Op::Wake,
                    Op::Recv,
                ],
            ),
        ),
    ]
}
