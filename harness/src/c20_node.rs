//! C20 kinds 4 and 5 (formats: coq/C20/Glue.v).
//!
//! kind 4: the REAL `Bitswap::run` event loop, polled by hand on a real `TransportService`; the
//!         harness plays the connections and substreams (in-memory carriers whose write side can
//!         take a byte budget and then stall or fail, and whose read side can end in the middle
//!         of a frame) and the user (`BitswapHandle`). Inbound frames are encoded by a protobuf
//!         writer of the harness; everything the loop writes is decoded again with the crate's
//!         prost schema. The clock is tokio's paused clock: a stalled write ends by WRITE_TIMEOUT
//!         when the harness advances it.
//! kind 5: `extract_next_presence_batch` / `presences_message` through the verif wrappers.
//! kind 6: the real `send_request` on a substream over an in-memory carrier.
use super::{gen_rblock, limbs, payload, put_varint};
use crate::util::*;
use futures::Stream;
use litep2p::{
    codec::ProtocolCodec,
    protocol::{
        libp2p::bitswap::{
            verif as bs, BitswapEvent, BitswapHandle, BlockPresenceType, Config as BitswapConfig,
            ResponseType, WantType,
        },
        verif::{VerifConnection, VerifServiceInput},
        TransportService,
    },
    substream::Substream,
    transport::verif::{TransportManager, TransportManagerBuilder},
    types::{
        cid::{Cid, Multihash, Version},
        protocol::ProtocolName,
        SubstreamId,
    },
    PeerId,
};
use prost::Message as _;
use std::{
    collections::VecDeque,
    future::Future,
    pin::Pin,
    sync::{Arc, Mutex},
    task::{Context, Poll, Waker},
    time::Duration,
};
use tokio::io::{AsyncRead, AsyncWrite, ReadBuf};

const NPEERS: usize = 3;

// ------------------------------------------------------------------ carrier

#[derive(Default)]
struct CarrierState {
    rq: VecDeque<u8>,
    eof: bool,
    reset: bool,
    written: Vec<u8>,
    /// bytes the write side still takes (None: any number)
    budget: Option<u64>,
    /// what happens when the budget is used up: false = stall, true = fail
    fail: bool,
    blocked: bool,
    rwaker: Option<Waker>,
    wwaker: Option<Waker>,
}

#[derive(Clone, Default)]
struct Carrier(Arc<Mutex<CarrierState>>);

impl Carrier {
    fn feed(&self, data: &[u8]) {
        let mut s = self.0.lock().unwrap();
        s.rq.extend(data.iter().copied());
        if let Some(w) = s.rwaker.take() {
            w.wake();
        }
    }
    fn end(&self, reset: bool) {
        let mut s = self.0.lock().unwrap();
        if reset {
            s.reset = true;
        } else {
            s.eof = true;
        }
        if let Some(w) = s.rwaker.take() {
            w.wake();
        }
    }
    fn set_write(&self, budget: Option<u64>, fail: bool) {
        let mut s = self.0.lock().unwrap();
        s.budget = budget;
        s.fail = fail;
        s.blocked = false;
        if let Some(w) = s.wwaker.take() {
            w.wake();
        }
    }
    fn take_written(&self) -> Vec<u8> {
        std::mem::take(&mut self.0.lock().unwrap().written)
    }
    fn blocked(&self) -> bool {
        self.0.lock().unwrap().blocked
    }
}

impl AsyncRead for Carrier {
    fn poll_read(self: Pin<&mut Self>, cx: &mut Context<'_>, buf: &mut ReadBuf<'_>) -> Poll<std::io::Result<()>> {
        let mut s = self.0.lock().unwrap();
        if !s.rq.is_empty() {
            while buf.remaining() > 0 {
                match s.rq.pop_front() {
                    Some(b) => buf.put_slice(&[b]),
                    None => break,
                }
            }
            Poll::Ready(Ok(()))
        } else if s.reset {
            Poll::Ready(Err(std::io::ErrorKind::ConnectionReset.into()))
        } else if s.eof {
            Poll::Ready(Ok(()))
        } else {
            s.rwaker = Some(cx.waker().clone());
            Poll::Pending
        }
    }
}

impl AsyncWrite for Carrier {
    fn poll_write(self: Pin<&mut Self>, cx: &mut Context<'_>, buf: &[u8]) -> Poll<std::io::Result<usize>> {
        let mut s = self.0.lock().unwrap();
        match s.budget {
            None => {
                s.written.extend_from_slice(buf);
                Poll::Ready(Ok(buf.len()))
            }
            Some(0) =>
                if s.fail {
                    Poll::Ready(Err(std::io::ErrorKind::BrokenPipe.into()))
                } else {
                    s.blocked = true;
                    s.wwaker = Some(cx.waker().clone());
                    Poll::Pending
                },
            Some(b) => {
                let n = std::cmp::min(b as usize, buf.len());
                s.written.extend_from_slice(&buf[..n]);
                s.budget = Some(b - n as u64);
                Poll::Ready(Ok(n))
            }
        }
    }
    fn poll_flush(self: Pin<&mut Self>, _: &mut Context<'_>) -> Poll<std::io::Result<()>> {
        Poll::Ready(Ok(()))
    }
    fn poll_shutdown(self: Pin<&mut Self>, _: &mut Context<'_>) -> Poll<std::io::Result<()>> {
        Poll::Ready(Ok(()))
    }
}

// ------------------------------------------------------------------ a protobuf writer of the harness

fn pb_varint(n: u64, out: &mut Vec<u8>) {
    let mut v = Vec::new();
    put_varint(n, &mut v);
    out.extend(v.iter().map(|b| *b as u8));
}

fn pb_bytes(field: u64, data: &[u8], out: &mut Vec<u8>) {
    pb_varint(field << 3 | 2, out);
    pb_varint(data.len() as u64, out);
    out.extend_from_slice(data);
}

fn pb_int(field: u64, value: u64, out: &mut Vec<u8>) {
    pb_varint(field << 3, out);
    pb_varint(value, out);
}

/// int32 / enum values of the case: values from 2^31 are negative numbers (sign-extended on the wire).
fn i32_wire(v: u64) -> u64 {
    (v as u32 as i32) as i64 as u64
}

#[derive(Clone, Debug)]
struct WlEntry {
    block: Vec<u8>,
    priority: u64,
    cancel: bool,
    want_type: u64,
    send_dont_have: bool,
}

#[derive(Clone, Debug, Default)]
struct InMsg {
    wantlist: Option<Vec<WlEntry>>,
    /// (prefix, did, dlen)
    payload: Vec<(Vec<u8>, u64, u64)>,
    presences: Vec<(Vec<u8>, u64)>,
}

impl InMsg {
    fn encode(&self) -> Vec<u8> {
        self.encode_with(0)
    }

    /// `extras` adds what a peer may put into a message and the loop must not care about:
    /// bit 0 a legacy `blocks` entry (Bitswap 1.0.0), bit 1 `pendingBytes`, bit 2 `full` on the
    /// wantlist, bit 3 unknown fields (in the message and in a wantlist entry), bit 4 the
    /// wantlist sent as two `wantlist` fields (protobuf merges them: the entries add up).
    fn encode_with(&self, extras: u64) -> Vec<u8> {
        let mut out = Vec::new();
        if extras & 1 != 0 {
            pb_bytes(2, &payload(999, 50), &mut out);
        }
        if let Some(entries) = &self.wantlist {
            let cut = if extras & 16 != 0 { entries.len() / 2 } else { entries.len() };
            for (k, part) in [&entries[..cut], &entries[cut..]].iter().enumerate() {
                if k == 1 && extras & 16 == 0 {
                    break;
                }
                let mut wl = Vec::new();
                for e in part.iter() {
                    let mut eb = Vec::new();
                    pb_bytes(1, &e.block, &mut eb);
                    pb_int(2, i32_wire(e.priority), &mut eb);
                    if e.cancel {
                        pb_int(3, 1, &mut eb);
                    }
                    if e.want_type != 0 {
                        pb_int(4, i32_wire(e.want_type), &mut eb);
                    }
                    if e.send_dont_have {
                        pb_int(5, 1, &mut eb);
                    }
                    if extras & 8 != 0 {
                        pb_int(11, 77, &mut eb);
                    }
                    pb_bytes(1, &eb, &mut wl);
                }
                if extras & 4 != 0 {
                    pb_int(2, 1, &mut wl);
                }
                pb_bytes(1, &wl, &mut out);
            }
        }
        if extras & 8 != 0 {
            pb_int(9, 12345, &mut out);
            pb_bytes(10, &[1, 2, 3], &mut out);
        }
        for (prefix, did, dlen) in &self.payload {
            let mut b = Vec::new();
            pb_bytes(1, prefix, &mut b);
            pb_bytes(2, &payload(*did, *dlen), &mut b);
            pb_bytes(3, &b, &mut out);
        }
        for (cid, t) in &self.presences {
            let mut b = Vec::new();
            pb_bytes(1, cid, &mut b);
            if *t != 0 {
                pb_int(2, i32_wire(*t), &mut b);
            }
            pb_bytes(4, &b, &mut out);
        }
        if extras & 2 != 0 {
            pb_int(5, 4242, &mut out);
        }
        out
    }
}

fn frame(body: &[u8]) -> Vec<u8> {
    let mut out = Vec::new();
    pb_varint(body.len() as u64, &mut out);
    out.extend_from_slice(body);
    out
}

// ------------------------------------------------------------------ case vocabulary

/// A reader over the numbers of a case.
struct Rd<'a> {
    c: &'a [u64],
    i: usize,
}

impl<'a> Rd<'a> {
    fn n(&mut self) -> Option<u64> {
        let v = *self.c.get(self.i)?;
        self.i += 1;
        Some(v)
    }
    fn bytes(&mut self) -> Option<Vec<u8>> {
        let n = self.n()? as usize;
        if n > self.c.len() {
            return None;
        }
        let mut v = Vec::with_capacity(n);
        for _ in 0..n {
            let b = self.n()?;
            if b > 255 {
                return None;
            }
            v.push(b as u8);
        }
        Some(v)
    }
    fn u64_limbs(&mut self) -> Option<u64> {
        let (hi, lo) = (self.n()?, self.n()?);
        if hi >> 32 != 0 || lo >> 32 != 0 {
            return None;
        }
        Some(hi << 32 | lo)
    }
    fn peer(&mut self) -> Option<usize> {
        let p = self.n()? as usize;
        (p < NPEERS).then_some(p)
    }
    /// cidspec: version codec(hi lo) code(hi lo) <digest bytes>
    fn cid(&mut self) -> Option<Cid> {
        let v = self.n()?;
        let codec = self.u64_limbs()?;
        let code = self.u64_limbs()?;
        let dg = self.bytes()?;
        let mh = Multihash::wrap(code, &dg).ok()?;
        Cid::new(Version::try_from(v).ok()?, codec, mh).ok()
    }
    fn message(&mut self) -> Option<InMsg> {
        let has = self.n()? != 0;
        let n = self.n()? as usize;
        let mut entries = Vec::new();
        for _ in 0..n {
            let block = self.bytes()?;
            let priority = self.n()?;
            let cancel = self.n()? != 0;
            let want_type = self.n()?;
            let send_dont_have = self.n()? != 0;
            entries.push(WlEntry { block, priority, cancel, want_type, send_dont_have });
        }
        let n = self.n()? as usize;
        let mut pl = Vec::new();
        for _ in 0..n {
            let prefix = self.bytes()?;
            let (did, dlen) = (self.n()?, self.n()?);
            if dlen > (8 << 20) {
                return None;
            }
            let ntab = self.n()? as usize;
            for _ in 0..ntab {
                self.u64_limbs()?;
                self.n()?;
                self.bytes()?;
            }
            pl.push((prefix, did, dlen));
        }
        let n = self.n()? as usize;
        let mut prs = Vec::new();
        for _ in 0..n {
            let cid = self.bytes()?;
            let t = self.n()?;
            prs.push((cid, t));
        }
        Some(InMsg { wantlist: has.then_some(entries), payload: pl, presences: prs })
    }
}

fn put_cidspec(version: u64, codec: u64, code: u64, dg: &[u8], c: &mut Vec<u64>) {
    c.push(version);
    c.extend(limbs(codec));
    c.extend(limbs(code));
    c.push(dg.len() as u64);
    c.extend(dg.iter().map(|b| *b as u64));
}

fn put_bytes(b: &[u8], c: &mut Vec<u64>) {
    c.push(b.len() as u64);
    c.extend(b.iter().map(|x| *x as u64));
}

fn enc_cid(cid: &Cid, out: &mut Vec<u64>) {
    out.push(u64::from(cid.version()));
    out.extend(limbs(cid.codec()));
    out.extend(limbs(cid.hash().code()));
    put_bytes(cid.hash().digest(), out);
}

// ------------------------------------------------------------------ generators

/// A CID shape valid for `Cid::new`: (version, codec, code, digest).
fn gen_cid(rng: &mut Rng) -> (u64, u64, u64, Vec<u8>) {
    let seed = rng.next();
    let dg = |n: usize| (0..n).map(|k| (seed >> (k % 8 * 8)) as u8 ^ k as u8).collect::<Vec<u8>>();
    if rng.chance(20) {
        return (0, 0x70, 0x12, dg(32));
    }
    let codec = rng.pick(&[0x55u64, 0x55, 0x70, 0x0129, 1 << 20, (1 << 40) + 5, u64::MAX]);
    let code = rng.pick(&[0x12u64, 0x12, 0x12, 0xb220, 0x1b, 0x00, 0x11, 1 << 35, u64::MAX]);
    let n = rng.pick(&[32usize, 32, 32, 0, 1, 20, 64]);
    (1, codec, code, dg(n))
}

fn cid_of(shape: &(u64, u64, u64, Vec<u8>)) -> Cid {
    let mh = Multihash::wrap(shape.2, &shape.3).unwrap();
    Cid::new(Version::try_from(shape.0).unwrap(), shape.1, mh).unwrap()
}

/// CID bytes for an inbound entry: mostly what `Cid::to_bytes` of a peer would be (written by the
/// harness's own varint writer), sometimes broken.
fn gen_cid_bytes(rng: &mut Rng) -> Vec<u8> {
    let (v, codec, code, dg) = gen_cid(rng);
    let mut b: Vec<u64> = Vec::new();
    if v == 0 {
        b.extend([0x12, 0x20]);
    } else {
        put_varint(1, &mut b);
        put_varint(codec, &mut b);
        put_varint(code, &mut b);
        put_varint(dg.len() as u64, &mut b);
    }
    b.extend(dg.iter().map(|x| *x as u64));
    match rng.below(100) {
        0..=64 => {}
        65..=69 => {
            let k = rng.below(b.len() as u64 + 1) as usize;
            b.truncate(k);
        }
        70..=74 => b.extend([7, 7, 7]), // trailing bytes are not looked at
        75..=78 => b[0] = rng.pick(&[0u64, 2, 3, 0x12, 0x80]),
        79..=82 => {
            // multihash size above 64
            let mut q: Vec<u64> = Vec::new();
            put_varint(1, &mut q);
            put_varint(0x55, &mut q);
            put_varint(0x12, &mut q);
            put_varint(rng.pick(&[65u64, 200, 256, 1 << 20]), &mut q);
            q.extend(std::iter::repeat(9).take(70));
            b = q;
        }
        83..=86 => b.clear(),
        87..=90 => {
            let i = rng.below(b.len() as u64) as usize;
            b[i] ^= 0x80;
        }
        91..=94 => {
            // non-minimal varint in the codec position
            let mut q: Vec<u64> = vec![1, 0xd5, 0x00];
            put_varint(0x12, &mut q);
            put_varint(32, &mut q);
            q.extend(std::iter::repeat(5).take(32));
            b = q;
        }
        _ => {
            let i = rng.below(b.len() as u64) as usize;
            b[i] = rng.below(256);
        }
    }
    b.iter().map(|x| *x as u8).collect()
}

fn gen_message(rng: &mut Rng, c: &mut Vec<u64>) {
    let has = rng.chance(50);
    c.push(has as u64);
    let n = if has { rng.pick(&[0u64, 1, 2, 3, 5]) } else { 0 };
    c.push(n);
    for _ in 0..n {
        put_bytes(&gen_cid_bytes(rng), c);
        c.push(rng.pick(&[1u64, 1, 0, 7, 4_294_967_295]));
        c.push(rng.chance(25) as u64);
        c.push(rng.pick(&[0u64, 0, 0, 1, 1, 1, 2, 5, 4_294_967_295]));
        c.push(rng.chance(25) as u64);
    }
    let n = rng.pick(&[0u64, 0, 1, 2, 3]);
    c.push(n);
    for _ in 0..n {
        gen_rblock(rng, false, c);
    }
    let n = rng.pick(&[0u64, 0, 1, 2, 3]);
    c.push(n);
    for _ in 0..n {
        put_bytes(&gen_cid_bytes(rng), c);
        c.push(rng.pick(&[0u64, 0, 1, 1, 2, 4_294_967_295]));
    }
}

fn gen_carrier(rng: &mut Rng, allow_open_failure: bool, c: &mut Vec<u64>) {
    let mode = match rng.below(100) {
        0..=59 => 0,
        60..=77 => 1,
        78..=93 => 2,
        _ => if allow_open_failure { 3 } else { 0 },
    };
    let budget = rng.pick(&[0u64, 1, 2, 3, 10, 40, 41, 44, 45, 46, 80, 100, 200, 1000, 70_000]);
    c.extend([mode, budget]);
}

pub fn gen_node(rng: &mut Rng, thorough: bool) -> Vec<u64> {
    let nops = rng.range(3, if thorough { 40 } else { 20 });
    let mut c = vec![4, nops];
    let mut inb = [false; NPEERS];
    let mut opening = [false; NPEERS];
    let mut out = [false; NPEERS];
    let mut pend = [0usize; NPEERS];
    // half of the cases also move the connections and the dial answers
    let service = rng.chance(50);
    let mut conn = [1u8; NPEERS];
    // a few cases carry one bulk command: tens of thousands of entries, so that the shipped
    // message limit is what splits the real send_request / send_response
    let bulk_at = if rng.below(1000) < (if thorough { 8 } else { 4 }) { Some(rng.below(nops)) } else { None };
    // a third of the cases open with a scripted history of one peer (connection lost with a queue
    // waiting, commands to a peer that is gone, parked dials, ...), random operations follow
    let mut script: Vec<u64> = Vec::new();
    let sp = rng.below(NPEERS as u64) as usize;
    if rng.chance(34) {
        // 104 / 105: a small request / response (expanded below); 8.. as in the case format;
        // 60 / 63: the requested substream opens healthy / fails to open; 120..123: dial answers
        script = match rng.below(12) {
            0 => vec![104, 8, 9, 105, 60, 105],
            1 => vec![8, 121, 104, 105, 9, 60, 104],
            2 => vec![8, 121, 104, 11, 105, 9, 60],
            3 => vec![10, 122, 104, 105, 8, 9, 104, 60],
            4 => vec![8, 120, 105, 9, 104, 60],
            5 => vec![104, 10, 63, 105, 8, 9, 105, 60],
            6 => vec![8, 123, 105, 104, 11, 121, 104, 9, 60],
            7 => vec![104, 60, 8, 105, 9, 105, 60],
            8 => vec![10, 121, 105, 11, 104, 8, 9, 104, 60],
            9 => vec![104, 8, 121, 105, 9, 60, 104],
            10 => vec![8, 121, 104, 8, 9, 105, 60],
            _ => vec![105, 63, 104, 8, 122, 105, 120, 104, 9, 104, 60],
        };
        script.reverse();
    }
    for opi in 0..nops {
        if let Some(sop) = script.pop() {
            let p = sp;
            c.push(match sop { 104 => 4, 105 => 5, 60 | 63 => 6, 120..=123 => 12, x => x });
            c.push(p as u64);
            match sop {
                104 => {
                    let n = rng.pick(&[1u64, 2, 3]);
                    c.push(n);
                    for _ in 0..n {
                        let s = gen_cid(rng);
                        put_cidspec(s.0, s.1, s.2, &s.3, &mut c);
                        c.push(rng.below(2));
                    }
                }
                105 => {
                    let n = rng.pick(&[1u64, 2, 4]);
                    c.push(n);
                    for _ in 0..n {
                        let s = gen_cid(rng);
                        if rng.chance(50) {
                            c.push(0);
                            put_cidspec(s.0, s.1, s.2, &s.3, &mut c);
                            c.push(rng.pick(&[4u64, 10, 100, 1000]));
                        } else {
                            c.push(1);
                            put_cidspec(s.0, s.1, s.2, &s.3, &mut c);
                            c.push(rng.below(2));
                        }
                    }
                }
                60 => c.extend([0, 0]),
                63 => c.extend([3, 0]),
                120..=123 => c.push(sop - 120),
                _ => {}
            }
            // the generator's picture of the peer after the script: unknown, start afresh
            if script.is_empty() {
                conn[p] = 1;
                inb[p] = false;
                opening[p] = false;
                out[p] = false;
                pend[p] = 0;
            }
            let _ = opi;
            continue;
        }
        let p = rng.below(NPEERS as u64) as usize;
        let r = rng.below(100);
        // steer towards meaningful operations, keep a few misplaced ones
        let op = if bulk_at == Some(opi) {
            13
        } else if service && rng.chance(28) {
            if conn[p] == 0 {
                rng.pick(&[9u64, 9, 11, 11, 12, 12, 12, 8])
            } else {
                rng.pick(&[8u64, 8, 10, 12, 12, 11, 9])
            }
        } else if opening[p] && rng.chance(45) {
            6
        } else if !inb[p] && r < 25 {
            1
        } else {
            match r {
                0..=4 => 1,
                5..=34 => 2,
                35..=46 => 3,
                47..=62 => 4,
                63..=84 => 5,
                85..=92 => 6,
                _ => 7,
            }
        };
        c.extend([op, p as u64]);
        match op {
            1 => inb[p] = true,
            2 => {
                let extras = if rng.chance(30) { rng.below(32) } else { 0 };
                c.push(rng.pick(&[0u64, 0, 1, 2, 5, 30]) + 1000 * extras);
                gen_message(rng, &mut c);
            }
            3 => {
                c.push(rng.below(6));
                c.push(rng.pick(&[0u64, 1, 2, 3, 5, 11, 50, 1000]));
                gen_message(rng, &mut c);
                inb[p] = false;
            }
            4 => {
                let n = rng.pick(&[0u64, 1, 1, 2, 3, 6]);
                c.push(n);
                for _ in 0..n {
                    let s = gen_cid(rng);
                    put_cidspec(s.0, s.1, s.2, &s.3, &mut c);
                    c.push(rng.below(2));
                }
            }
            5 => {
                let big = rng.chance(6);
                let n = if big { rng.range(1, 4) } else { rng.pick(&[0u64, 1, 2, 3, 5, 8]) };
                c.push(n);
                for _ in 0..n {
                    let s = gen_cid(rng);
                    if rng.chance(60) {
                        c.push(0);
                        put_cidspec(s.0, s.1, s.2, &s.3, &mut c);
                        let mb = bs::MAX_BATCH_SIZE as u64;
                        c.push(if big {
                            rng.pick(&[mb, mb + 1, mb / 2 + 9, 1 << 20, 700_000])
                        } else {
                            rng.pick(&[4u64, 5, 10, 100, 127, 128, 129, 1000, 20_000])
                        });
                    } else {
                        c.push(1);
                        put_cidspec(s.0, s.1, s.2, &s.3, &mut c);
                        c.push(rng.below(2));
                    }
                }
            }
            6 => gen_carrier(rng, true, &mut c),
            7 => gen_carrier(rng, false, &mut c),
            8 => {
                if conn[p] != 0 {
                    conn[p] = 0;
                    inb[p] = false;
                    opening[p] = false;
                    out[p] = false;
                    pend[p] = 0;
                }
            }
            9 =>
                if conn[p] == 0 {
                    conn[p] = 1;
                },
            10 =>
                if conn[p] == 1 {
                    conn[p] = 2;
                },
            11 => {}
            13 => {
                let kind = rng.below(3);
                let m = u64::MAX;
                let shape = match rng.below(4) {
                    0 => (1u64, 0x55u64, 0x12u64, (0..32u8).collect::<Vec<u8>>()),
                    1 => (0, 0x70, 0x12, (0..32u8).map(|k| k ^ 0x5a).collect()),
                    2 => (1, 0x55, 0x12, vec![7u8; 64]),
                    _ => (1, m, m, vec![9u8; 64]),
                };
                let n = match rng.below(10) {
                    0 => rng.pick(&[0u64, 1, 2, 3, 700]),
                    1..=3 => rng.range(40_000, 60_000),
                    _ => rng.range(60_000, 80_000),
                };
                c.extend([kind, n]);
                put_cidspec(shape.0, shape.1, shape.2, &shape.3, &mut c);
                c.push(match kind {
                    2 => rng.pick(&[4u64, 4, 20, 27, 28, 30, 100]),
                    _ => rng.below(2),
                });
            }
            _ => c.push(rng.below(4)),
        }
        // bookkeeping of the generator only (a rough copy of the loop's state)
        match op {
            4 | 5 | 13 =>
                if !out[p] {
                    if pend[p] == 0 {
                        opening[p] = true;
                    }
                    pend[p] += 1;
                },
            6 =>
                if opening[p] {
                    opening[p] = false;
                    pend[p] = 0;
                    out[p] = c[c.len() - 2] == 0;
                },
            _ => {}
        }
    }
    c
}

pub fn gen_pres(rng: &mut Rng, thorough: bool) -> Vec<u64> {
    let mm = rng.pick(&[0u64, 2, 30, 41, 42, 43, 44, 45, 80, 100, 128, 256, 256, 1000, 1000, 30_000, 1 << 40]);
    let n = rng.range(0, if thorough { 300 } else { 60 });
    let mut c = vec![5, mm, n];
    for _ in 0..n {
        let s = gen_cid(rng);
        put_cidspec(s.0, s.1, s.2, &s.3, &mut c);
        c.push(rng.below(2));
    }
    let _ = cid_of;
    c
}

// ------------------------------------------------------------------ kind 5

pub fn run_pres(c: &[u64]) -> Option<Vec<u64>> {
    let mut rd = Rd { c, i: 1 };
    let mm = rd.n()? as usize;
    let n = rd.n()? as usize;
    if n > c.len() {
        return None;
    }
    let mut orig = Vec::new();
    for _ in 0..n {
        let cid = rd.cid()?;
        let t = match rd.n()? {
            0 => BlockPresenceType::Have,
            1 => BlockPresenceType::DontHave,
            _ => return None,
        };
        orig.push((cid, t));
    }
    if rd.i != c.len() {
        return None;
    }
    let mut queue: VecDeque<(Cid, BlockPresenceType)> = orig.iter().cloned().collect();
    let mut out = vec![5u64, 0];
    let mut nb = 0u64;
    let mut cursor = 0usize;
    while let Some(batch) = bs::extract_next_presence_batch(&mut queue, mm) {
        nb += 1;
        if nb > orig.len() as u64 + 2 {
            out.push(888_888_888);
            break;
        }
        out.push(batch.len() as u64);
        for b in batch.iter() {
            let mut id = 777_777_777u64;
            for j in cursor..orig.len() {
                if orig[j].0 == b.0 && orig[j].1 == b.1 {
                    cursor = j + 1;
                    id = j as u64;
                    break;
                }
            }
            out.push(id);
        }
        match bs::presences_message(batch.clone()) {
            None => out.extend([0, 0, 0]),
            Some((msg, count)) => {
                out.push(msg.len() as u64);
                let dec = bs::SchemaMessage::decode(&msg[..]).ok()?;
                if count != dec.block_presences.len() {
                    out.push(666_666_666);
                }
                out.push(dec.block_presences.len() as u64);
                for p in dec.block_presences.iter() {
                    put_bytes(&p.cid, &mut out);
                    out.push(p.r#type as u32 as u64);
                }
                put_bytes(&msg, &mut out);
            }
        }
    }
    out[1] = nb;
    Some(out)
}

// ------------------------------------------------------------------ kind 4

struct Node {
    manager: TransportManager,
    input: VerifServiceInput,
    handle: BitswapHandle,
    fut: Pin<Box<dyn Future<Output = ()>>>,
    finished: bool,
    peers: Vec<PeerId>,
    conns: Vec<VerifConnection>,
    /// the service's connection to the peer: 0 none, 1 usable, 2 killed
    conn_state: Vec<u8>,
    next_conn: usize,
    inbound: Vec<Option<Carrier>>,
    /// carrier of the outbound substream last given to the loop, per peer
    outbound: Vec<Option<Carrier>>,
    /// outstanding open request (substream id), per peer
    open_req: Vec<Option<usize>>,
    next_inbound: usize,
    /// every block handed to send_response: (peer, index in its response, cid, data)
    sent_blocks: Vec<(usize, u64, Cid, Vec<u8>)>,
}

fn mk_peer(i: u64) -> PeerId {
    // deterministic peer ids: an identity multihash would need the keypair machinery; random is
    // fine because peers appear in traces by index only
    let _ = i;
    PeerId::random()
}

fn peer_addr(i: usize) -> multiaddr::Multiaddr {
    format!("/ip4/10.0.0.{}/tcp/{}", i + 1, 4000 + i).parse().unwrap()
}

impl Node {
    fn new() -> Option<Node> {
        let manager = TransportManagerBuilder::new().build();
        let local = PeerId::random();
        let (service, input) = TransportService::verif_new(
            &manager,
            local,
            ProtocolName::from("/ipfs/bitswap/1.2.0"),
            ProtocolCodec::UnsignedVarint(Some(bs::MAX_MESSAGE_SIZE)),
            Duration::from_secs(3600 * 24),
        );
        let (config, handle) = BitswapConfig::new();
        let bitswap = bs::VerifBitswap::new(service, config);
        let fut: Pin<Box<dyn Future<Output = ()>>> = Box::pin(bitswap.run());
        let peers: Vec<PeerId> = (0..NPEERS as u64).map(mk_peer).collect();
        let mut conns = Vec::new();
        for (i, p) in peers.iter().enumerate() {
            let addr = format!("/ip4/10.0.0.{}/tcp/{}", i + 1, 4000 + i).parse().ok()?;
            conns.push(input.connection_established(*p, i + 1, addr, 256)?);
        }
        let mut n = Node {
            manager,
            input,
            handle,
            fut,
            finished: false,
            peers,
            conns,
            conn_state: vec![1; NPEERS],
            next_conn: 10,
            inbound: vec![None; NPEERS],
            outbound: vec![None; NPEERS],
            open_req: vec![None; NPEERS],
            next_inbound: 100_000,
            sent_blocks: Vec::new(),
        };
        n.poll();
        Some(n)
    }

    fn poll(&mut self) {
        if self.finished {
            return;
        }
        let waker = futures::task::noop_waker();
        let mut cx = Context::from_waker(&waker);
        for _ in 0..4 {
            if let Poll::Ready(()) = self.fut.as_mut().poll(&mut cx) {
                self.finished = true;
                return;
            }
        }
    }

    fn drain_events(&mut self) -> Vec<BitswapEvent> {
        let waker = futures::task::noop_waker();
        let mut cx = Context::from_waker(&waker);
        let mut out = Vec::new();
        while let Poll::Ready(Some(e)) = Pin::new(&mut self.handle).poll_next(&mut cx) {
            out.push(e);
        }
        out
    }

    /// Runs the loop until nothing moves any more; a write that stalls is ended by the write
    /// timeout. Returns the events the user saw.
    async fn settle(&mut self) -> Vec<BitswapEvent> {
        let mut events = Vec::new();
        for round in 0..64 {
            self.poll();
            let evs = self.drain_events();
            let progressed = !evs.is_empty();
            events.extend(evs);
            for p in 0..NPEERS {
                for id in self.conns[p].take_open_requests() {
                    self.open_req[p] = Some(id);
                }
            }
            let stalled = self.outbound.iter().flatten().any(|c| c.blocked());
            if stalled {
                tokio::time::advance(Duration::from_secs(16)).await;
                // the timed-out substream is dropped by the loop; its carrier takes no more writes
                for c in self.outbound.iter().flatten() {
                    if c.blocked() {
                        c.set_write(Some(0), true);
                    }
                }
                continue;
            }
            if !progressed && round > 0 {
                break;
            }
        }
        events
    }

    fn peer_index(&self, p: &PeerId) -> u64 {
        self.peers.iter().position(|x| x == p).map(|i| i as u64).unwrap_or(99)
    }
}

/// What was written to a carrier since the last look: complete frames decoded with the crate's
/// schema, and the number of bytes of an incomplete one.
fn enc_written(node: &Node, p: usize, bytes: &[u8], out: &mut Vec<u64>) -> Option<()> {
    let mut msgs: Vec<Vec<u64>> = Vec::new();
    let mut rest = bytes;
    let partial;
    loop {
        if rest.is_empty() {
            partial = 0;
            break;
        }
        // length prefix
        let mut len: u64 = 0;
        let mut used = 0;
        let mut complete = false;
        for (i, b) in rest.iter().enumerate().take(10) {
            len |= ((*b & 0x7f) as u64) << (7 * i);
            used = i + 1;
            if b & 0x80 == 0 {
                complete = true;
                break;
            }
        }
        if !complete || rest.len() - used < len as usize {
            partial = rest.len() as u64;
            break;
        }
        let body = &rest[used..used + len as usize];
        rest = &rest[used + len as usize..];
        let m = bs::SchemaMessage::decode(body).ok()?;
        let mut e = Vec::new();
        let nwl = m.wantlist.as_ref().map(|w| w.entries.len()).unwrap_or(0);
        if nwl > 0 || (m.payload.is_empty() && m.block_presences.is_empty()) {
            let w = m.wantlist.as_ref()?;
            e.extend([1, len]);
            let entries: Vec<Vec<u64>> = w
                .entries
                .iter()
                .map(|x| {
                    let mut v = Vec::new();
                    put_bytes(&x.block, &mut v);
                    v.extend([
                        x.priority as u32 as u64,
                        x.cancel as u64,
                        x.want_type as u32 as u64,
                        x.send_dont_have as u64,
                    ]);
                    v
                })
                .collect();
            put_runs(entries, &mut e);
            e.push(w.full as u64);
            if !m.payload.is_empty() || !m.block_presences.is_empty() {
                e.push(666_666_666);
            }
        } else if !m.block_presences.is_empty() {
            e.extend([2, len]);
            let entries: Vec<Vec<u64>> = m
                .block_presences
                .iter()
                .map(|x| {
                    let mut v = Vec::new();
                    put_bytes(&x.cid, &mut v);
                    v.push(x.r#type as u32 as u64);
                    v
                })
                .collect();
            put_runs(entries, &mut e);
            if !m.payload.is_empty() || m.wantlist.is_none() {
                e.push(666_666_666);
            }
        } else {
            e.extend([3, len]);
            // which block handed to send_response is this? (the same question for a run of equal
            // entries is asked once)
            let mut last: Option<(&Vec<u8>, &Vec<u8>, Option<u64>)> = None;
            let entries: Vec<Vec<u64>> = m
                .payload
                .iter()
                .map(|x| {
                    let found = match last {
                        Some((pf, d, f)) if pf == &x.prefix && d == &x.data => f,
                        _ => node
                            .sent_blocks
                            .iter()
                            .rev()
                            .find(|(q, _, cid, data)| *q == p && data == &x.data && prefix_of(cid) == x.prefix)
                            .map(|f| f.1),
                    };
                    last = Some((&x.prefix, &x.data, found));
                    let mut v = vec![found.unwrap_or(777_777_777)];
                    put_bytes(&x.prefix, &mut v);
                    v.push(x.data.len() as u64);
                    v.push(found.is_some() as u64);
                    v
                })
                .collect();
            put_runs(entries, &mut e);
            if m.wantlist.is_none() {
                e.push(666_666_666);
            }
        }
        msgs.push(e);
    }
    out.push(msgs.len() as u64);
    for m in msgs {
        out.extend(m);
    }
    out.push(partial);
    Some(())
}

/// Run-length encoding of equal neighbours: count-prefixed list of `count entry`.
fn put_runs(entries: Vec<Vec<u64>>, out: &mut Vec<u64>) {
    let mut runs: Vec<(u64, Vec<u64>)> = Vec::new();
    for e in entries {
        match runs.last_mut() {
            Some((k, cur)) if *cur == e => *k += 1,
            _ => runs.push((1, e)),
        }
    }
    out.push(runs.len() as u64);
    for (k, e) in runs {
        out.push(k);
        out.extend(e);
    }
}

/// The runs of a bulk command: (run index, length), lengths 1, 2, 3, ... adding up to n.
fn bulk_runs(n: u64) -> Vec<(u64, u64)> {
    let mut v = Vec::new();
    let (mut j, mut left) = (0u64, n);
    while left > 0 {
        let len = std::cmp::min(j + 1, left);
        v.push((j, len));
        left -= len;
        j += 1;
    }
    v
}

fn bulk_cid(base: &Cid, j: u64) -> Option<Cid> {
    let mut dg = base.hash().digest().to_vec();
    if dg.len() < 2 {
        return None;
    }
    dg[0] = (j / 256 % 256) as u8;
    dg[1] = (j % 256) as u8;
    let mh = Multihash::wrap(base.hash().code(), &dg).ok()?;
    Cid::new(base.version(), base.codec(), mh).ok()
}

/// The prefix bytes of a block stored under `cid`, written by the harness.
fn prefix_of(cid: &Cid) -> Vec<u8> {
    let mut b: Vec<u64> = Vec::new();
    put_varint(u64::from(cid.version()), &mut b);
    put_varint(cid.codec(), &mut b);
    put_varint(cid.hash().code(), &mut b);
    put_varint(cid.hash().size() as u64, &mut b);
    b.iter().map(|x| *x as u8).collect()
}

fn enc_events(node: &Node, evs: Vec<BitswapEvent>, msg: Option<&InMsg>, out: &mut Vec<u64>) {
    out.push(evs.len() as u64);
    for e in evs {
        match e {
            BitswapEvent::Request { peer, cids } => {
                out.extend([1, node.peer_index(&peer), cids.len() as u64]);
                for (cid, w) in cids.iter() {
                    enc_cid(cid, out);
                    out.push(match w {
                        WantType::Block => 0,
                        WantType::Have => 1,
                    });
                }
            }
            BitswapEvent::Response { peer, responses } => {
                // Which payload entry is a delivered block?  The loop goes through the entries in
                // order and delivers the accepted ones, so the k-th block is the k-th entry that
                // `block_to_response` (asked here entry by entry, through the hook) accepts.
                // Matching by content would be ambiguous: two entries of a frame may carry the
                // same bytes (every empty payload does) under prefixes of the same shape, one
                // of them dropped.  The judgement of what was delivered is the oracle's.
                let accepted: Vec<(u64, u64)> = msg
                    .map(|m| {
                        m.payload
                            .iter()
                            .filter(|(prefix, did, dlen)| {
                                bs::block_to_response(&peer, prefix.clone(), payload(*did, *dlen)).is_some()
                            })
                            .map(|(_, did, dlen)| (*did, *dlen))
                            .collect()
                    })
                    .unwrap_or_default();
                let mut cursor = 0usize;
                out.extend([2, node.peer_index(&peer), responses.len() as u64]);
                for r in responses.iter() {
                    match r {
                        ResponseType::Block { cid, block } => {
                            out.push(0);
                            enc_cid(cid, out);
                            let found = accepted.get(cursor).filter(|(did, dlen)| &payload(*did, *dlen) == block);
                            cursor += 1;
                            match found {
                                Some((did, dlen)) => out.extend([*did, *dlen]),
                                None => out.extend([1_000_000, block.len() as u64]),
                            }
                        }
                        ResponseType::Presence { cid, presence } => {
                            out.push(1);
                            enc_cid(cid, out);
                            out.push(match presence {
                                BlockPresenceType::Have => 0,
                                BlockPresenceType::DontHave => 1,
                            });
                        }
                    }
                }
            }
        }
    }
}

async fn run_node_async(c: &[u64]) -> Option<Vec<u64>> {
    let mut rd = Rd { c, i: 1 };
    let nops = rd.n()? as usize;
    if nops > c.len() {
        return None;
    }
    let mut node = Node::new()?;
    let mut out = vec![4u64, nops as u64];
    for opi in 0..nops {
        let op = rd.n()?;
        let p = rd.peer()?;
        let peer = node.peers[p];
        let mut in_msg: Option<InMsg> = None;
        match op {
            1 if node.conn_state[p] == 0 => {}
            1 => {
                let carrier = Carrier::default();
                node.next_inbound += 1;
                node.input.substream_opened(peer, None, node.next_inbound, Box::new(carrier.clone()), &node.conns[p]);
                node.inbound[p] = Some(carrier);
            }
            2 => {
                // split + 1000 * extras (see InMsg::encode_with)
                let raw = rd.n()?;
                let (split, extras) = ((raw % 1000) as usize, raw / 1000);
                let m = rd.message()?;
                if let Some(carrier) = node.inbound[p].clone() {
                    let f = frame(&m.encode_with(extras));
                    if split > 0 && split < f.len() {
                        carrier.feed(&f[..split]);
                        // nothing may be delivered from a frame that is not complete yet
                        let early = node.settle().await;
                        if !early.is_empty() {
                            out.push(333_333_333);
                        }
                        carrier.feed(&f[split..]);
                    } else {
                        carrier.feed(&f);
                    }
                }
                in_msg = Some(m);
            }
            3 => {
                let kind = rd.n()?;
                let cut = rd.n()? as usize;
                let m = rd.message()?;
                if kind > 5 {
                    return None;
                }
                // the loop drops the substream in every case; when the carrier itself is still
                // open (kinds 0, 2, 5) the harness keeps it and goes on writing frames to it
                // (here and in later operations): nothing behind the bad item may be read
                let keep = matches!(kind, 0 | 2 | 5);
                let carrier = if keep { node.inbound[p].clone() } else { node.inbound[p].take() };
                if let Some(carrier) = carrier {
                    let body = m.encode();
                    match kind {
                        0 => {
                            // a frame whose body is not a protobuf message: a length-delimited
                            // field that claims more bytes than there are; a good frame follows
                            let mut b = body.clone();
                            b.extend([0x1a, 0x7f, 1, 2, 3]);
                            debug_assert!(bs::SchemaMessage::decode(&b[..]).is_err());
                            carrier.feed(&frame(&b));
                            carrier.feed(&frame(&body));
                        }
                        1 => {
                            let f = frame(&body);
                            // at least one byte is missing
                            let k = if f.len() <= 1 { 0 } else { cut % (f.len() - 1) + 1 };
                            let k = std::cmp::min(k, f.len() - 1);
                            carrier.feed(&f[..k]);
                            carrier.end(false);
                        }
                        2 => {
                            let mut f = Vec::new();
                            pb_varint(bs::MAX_MESSAGE_SIZE as u64 + 1 + cut as u64, &mut f);
                            f.extend_from_slice(&body);
                            carrier.feed(&f);
                        }
                        3 => carrier.end(false),
                        4 => carrier.end(true),
                        _ => {
                            carrier.feed(&[0xff; 12]);
                            carrier.feed(&body);
                        }
                    }
                }
            }
            4 => {
                let n = rd.n()? as usize;
                let mut cids = Vec::new();
                for _ in 0..n {
                    let cid = rd.cid()?;
                    let w = match rd.n()? {
                        0 => WantType::Block,
                        1 => WantType::Have,
                        _ => return None,
                    };
                    cids.push((cid, w));
                }
                node.handle.send_request(peer, cids).await;
            }
            5 => {
                let n = rd.n()? as usize;
                let mut entries = Vec::new();
                for idx in 0..n {
                    match rd.n()? {
                        0 => {
                            let cid = rd.cid()?;
                            let dlen = rd.n()?;
                            if !(4..=(8 << 20)).contains(&dlen) {
                                return None;
                            }
                            let data = payload((opi as u64) << 16 | idx as u64, dlen);
                            node.sent_blocks.push((p, idx as u64, cid, data.clone()));
                            entries.push(ResponseType::Block { cid, block: data });
                        }
                        1 => {
                            let cid = rd.cid()?;
                            let presence = match rd.n()? {
                                0 => BlockPresenceType::Have,
                                1 => BlockPresenceType::DontHave,
                                _ => return None,
                            };
                            entries.push(ResponseType::Presence { cid, presence });
                        }
                        _ => return None,
                    }
                }
                node.handle.send_response(peer, entries).await;
            }
            6 => {
                let (mode, budget) = (rd.n()?, rd.n()?);
                if mode > 3 {
                    return None;
                }
                if let Some(id) = node.open_req[p].take() {
                    if mode == 3 {
                        node.input.substream_open_failure(id);
                    } else {
                        let carrier = Carrier::default();
                        carrier.set_write(if mode == 0 { None } else { Some(budget) }, mode == 2);
                        node.input.substream_opened(peer, Some(id), id, Box::new(carrier.clone()), &node.conns[p]);
                        node.outbound[p] = Some(carrier);
                    }
                }
            }
            7 => {
                let (mode, budget) = (rd.n()?, rd.n()?);
                if mode > 2 {
                    return None;
                }
                if let Some(c) = &node.outbound[p] {
                    c.set_write(if mode == 0 { None } else { Some(budget) }, mode == 2);
                }
            }
            8 =>
                if node.conn_state[p] != 0 {
                    node.input.connection_closed(peer, &node.conns[p]);
                    node.conn_state[p] = 0;
                    node.inbound[p] = None;
                    node.outbound[p] = None;
                    node.open_req[p] = None;
                },
            9 =>
                if node.conn_state[p] == 0 {
                    node.next_conn += 1;
                    let id = node.next_conn;
                    node.conns[p] = node.input.connection_established(peer, id, peer_addr(p), 256)?;
                    node.conn_state[p] = 1;
                },
            10 =>
                if node.conn_state[p] == 1 {
                    node.conns[p].kill();
                    node.conn_state[p] = 2;
                },
            11 => {
                node.input.dial_failure(peer, vec![peer_addr(p)]);
            }
            12 => {
                let tag = rd.n()? as usize;
                if tag > 3 {
                    return None;
                }
                node.manager.verif_force_peer(peer, tag, peer_addr(p));
            }
            13 => {
                let (kind, n) = (rd.n()?, rd.n()?);
                let base = rd.cid()?;
                let x = rd.n()?;
                if n > 80_000 || base.hash().digest().len() < 2 {
                    return None;
                }
                match kind {
                    0 => {
                        let w = match x {
                            0 => WantType::Block,
                            1 => WantType::Have,
                            _ => return None,
                        };
                        let mut cids = Vec::with_capacity(n as usize);
                        for (j, len) in bulk_runs(n) {
                            let cid = bulk_cid(&base, j)?;
                            cids.extend(std::iter::repeat((cid, w)).take(len as usize));
                        }
                        node.handle.send_request(peer, cids).await;
                    }
                    1 => {
                        let presence = match x {
                            0 => BlockPresenceType::Have,
                            1 => BlockPresenceType::DontHave,
                            _ => return None,
                        };
                        let mut entries = Vec::with_capacity(n as usize);
                        for (j, len) in bulk_runs(n) {
                            let cid = bulk_cid(&base, j)?;
                            entries.extend(std::iter::repeat(ResponseType::Presence { cid, presence }).take(len as usize));
                        }
                        node.handle.send_response(peer, entries).await;
                    }
                    2 => {
                        if !(4..=(8 << 20)).contains(&x) {
                            return None;
                        }
                        let mut entries = Vec::with_capacity(n as usize);
                        for (j, len) in bulk_runs(n) {
                            let cid = bulk_cid(&base, j)?;
                            let data = payload((opi as u64) << 16 | (j & 0xffff), x);
                            node.sent_blocks.push((p, j, cid, data.clone()));
                            entries.extend(
                                std::iter::repeat(ResponseType::Block { cid, block: data }).take(len as usize),
                            );
                        }
                        node.handle.send_response(peer, entries).await;
                    }
                    _ => return None,
                }
            }
            _ => return None,
        }
        let evs = node.settle().await;
        enc_events(&node, evs, in_msg.as_ref(), &mut out);
        let written = node.outbound[p].as_ref().map(|c| c.take_written()).unwrap_or_default();
        enc_written(&node, p, &written, &mut out)?;
    }
    if rd.i != c.len() {
        return None;
    }
    Some(out)
}

pub fn run_node(c: &[u64]) -> Option<Vec<u64>> {
    let rt = tokio::runtime::Builder::new_current_thread().enable_time().start_paused(true).build().unwrap();
    // unconstrained: tokio's cooperative budget would make channel polls return Pending spuriously
    rt.block_on(tokio::task::unconstrained(run_node_async(c)))
}

// ------------------------------------------------------------------ kind 6: send_request, one message

pub fn gen_wants(rng: &mut Rng, thorough: bool) -> Vec<u64> {
    // limits on both sides of the size of the one message (0-60 wants of 8-94 bytes; thorough 0-300)
    let mm = rng.pick(&[0u64, 1, 2, 3, 44, 45, 46, 90, 200, 500, 1000, 1500, 2000, 3000, 5000, 8000, 12_000, 30_000, 1 << 40]);
    let n = rng.range(0, if thorough { 300 } else { 60 });
    let mut c = vec![6, mm, n];
    for _ in 0..n {
        let s = gen_cid(rng);
        put_cidspec(s.0, s.1, s.2, &s.3, &mut c);
        c.push(rng.below(2));
    }
    c
}

/// The real `send_request` on a substream over an in-memory carrier whose codec has the message
/// size limit of the case.
pub fn run_wants(c: &[u64]) -> Option<Vec<u64>> {
    let mut rd = Rd { c, i: 1 };
    let mm = rd.n()? as usize;
    let n = rd.n()? as usize;
    if n > c.len() {
        return None;
    }
    let mut orig = Vec::new();
    for _ in 0..n {
        let cid = rd.cid()?;
        let w = match rd.n()? {
            0 => WantType::Block,
            1 => WantType::Have,
            _ => return None,
        };
        orig.push((cid, w));
    }
    if rd.i != c.len() {
        return None;
    }
    let carrier = Carrier::default();
    let mut substream = Substream::new_verif(
        PeerId::random(),
        SubstreamId::from(1usize),
        Box::new(carrier.clone()),
        ProtocolCodec::UnsignedVarint(Some(mm)),
    );
    let rt = tokio::runtime::Builder::new_current_thread().enable_time().start_paused(true).build().unwrap();
    let res = rt.block_on(bs::send_request(&mut substream, orig.clone()));
    let written = carrier.take_written();
    let mut out = vec![6u64];
    if res.is_err() {
        out.extend([0, written.len() as u64]);
        return Some(out);
    }
    // one frame: length prefix, body
    let mut len: u64 = 0;
    let mut used = 0;
    for (i, b) in written.iter().enumerate().take(10) {
        len |= ((*b & 0x7f) as u64) << (7 * i);
        used = i + 1;
        if b & 0x80 == 0 {
            break;
        }
    }
    let body = written.get(used..)?;
    if body.len() as u64 != len {
        out.push(555_555_555);
        return Some(out);
    }
    out.extend([1, len]);
    let dec = bs::SchemaMessage::decode(body).ok()?;
    let w = dec.wantlist.as_ref()?;
    out.push(w.entries.len() as u64);
    for x in w.entries.iter() {
        put_bytes(&x.block, &mut out);
        out.extend([x.priority as u32 as u64, x.cancel as u64, x.want_type as u32 as u64, x.send_dont_have as u64]);
    }
    out.push(w.full as u64);
    put_bytes(body, &mut out);
    if !dec.payload.is_empty() || !dec.block_presences.is_empty() {
        out.push(666_666_666);
    }
    Some(out)
}

// ------------------------------------------------------------------ kind 7: blocks_message, byte for byte

pub fn gen_blocks_msg(rng: &mut Rng) -> Vec<u64> {
    let n = rng.pick(&[0u64, 1, 1, 2, 3, 6]);
    let mut c = vec![7, n];
    for _ in 0..n {
        let s = gen_cid(rng);
        put_cidspec(s.0, s.1, s.2, &s.3, &mut c);
        let dl = rng.pick(&[0u64, 0, 1, 5, 40, 127, 128, 300]);
        c.push(dl);
        for _ in 0..dl {
            c.push(rng.below(256));
        }
    }
    c
}

pub fn run_blocks_msg(c: &[u64]) -> Option<Vec<u64>> {
    let mut rd = Rd { c, i: 1 };
    let n = rd.n()? as usize;
    if n > c.len() {
        return None;
    }
    let mut blocks = Vec::new();
    for _ in 0..n {
        let cid = rd.cid()?;
        let data = rd.bytes()?;
        blocks.push((cid, data));
    }
    if rd.i != c.len() {
        return None;
    }
    let mut out = vec![7u64];
    match bs::blocks_message(blocks) {
        None => out.push(0),
        Some((msg, _)) => put_bytes(&msg, &mut out),
    }
    Some(out)
}

// ------------------------------------------------------------------ helpers of kind 8

/// `cidspec t` with t in {0, 1} (a want or a presence).
pub fn gen_want(rng: &mut Rng, c: &mut Vec<u64>) {
    let s = gen_cid(rng);
    put_cidspec(s.0, s.1, s.2, &s.3, c);
    c.push(rng.below(2));
}

/// A count-prefixed list of `cidspec t` starting at `at`; the list and the index behind it.
pub fn read_wants(c: &[u64], at: usize) -> Option<(Vec<(Cid, u64)>, usize)> {
    let mut rd = Rd { c, i: at };
    let n = rd.n()? as usize;
    if n > c.len() {
        return None;
    }
    let mut v = Vec::new();
    for _ in 0..n {
        let cid = rd.cid()?;
        let t = rd.n()?;
        if t > 1 {
            return None;
        }
        v.push((cid, t));
    }
    Some((v, rd.i))
}
