//! Shared helpers: deterministic PRNG, argument parsing, line IO.
use std::{collections::HashMap, fs, io::Write, path::Path};

/// splitmix64: every random choice of a run derives from one seed.
#[derive(Clone)]
pub struct Rng(pub u64);

impl Rng {
    pub fn new(seed: u64) -> Self {
        // the state is a mixed image of the seed: with the plain `seed * G + c` consecutive seeds gave the
        // same output stream shifted by one draw, so "another seed" was almost the same list of cases
        let mut r = Rng(seed.wrapping_mul(0x9E3779B97F4A7C15).wrapping_add(0x1234_5678_9abc_def1));
        let a = r.next();
        let b = r.next();
        Rng(a ^ b.rotate_left(29) ^ seed.wrapping_mul(0xD6E8FEB86659FD93))
    }
    /// deterministic derivation of case-internal data (keys, ids, payloads) from a case parameter: the original
    /// formula, kept so that stored corpus cases keep their meaning
    pub fn derive(x: u64) -> Self {
        Rng(x.wrapping_mul(0x9E3779B97F4A7C15).wrapping_add(0x1234_5678_9abc_def1))
    }
    pub fn next(&mut self) -> u64 {
        self.0 = self.0.wrapping_add(0x9E3779B97F4A7C15);
        let mut z = self.0;
        z = (z ^ (z >> 30)).wrapping_mul(0xBF58476D1CE4E5B9);
        z = (z ^ (z >> 27)).wrapping_mul(0x94D049BB133111EB);
        z ^ (z >> 31)
    }
    /// uniform in 0..n (n > 0)
    pub fn below(&mut self, n: u64) -> u64 {
        self.next() % n
    }
    pub fn range(&mut self, lo: u64, hi_incl: u64) -> u64 {
        lo + self.below(hi_incl - lo + 1)
    }
    pub fn pick<T: Copy>(&mut self, xs: &[T]) -> T {
        xs[self.below(xs.len() as u64) as usize]
    }
    pub fn chance(&mut self, percent: u64) -> bool {
        self.below(100) < percent
    }
    pub fn fork(&mut self) -> Rng {
        Rng(self.next())
    }
}

pub struct Args {
    pub map: HashMap<String, String>,
}

impl Args {
    pub fn parse(args: &[String]) -> Self {
        let mut map = HashMap::new();
        let mut i = 0;
        while i < args.len() {
            if let Some(k) = args[i].strip_prefix("--") {
                if i + 1 < args.len() && !args[i + 1].starts_with("--") {
                    map.insert(k.to_string(), args[i + 1].clone());
                    i += 2;
                } else {
                    map.insert(k.to_string(), "1".to_string());
                    i += 1;
                }
            } else {
                i += 1;
            }
        }
        Args { map }
    }
    pub fn u64(&self, k: &str, default: u64) -> u64 {
        self.map.get(k).and_then(|v| v.parse().ok()).unwrap_or(default)
    }
    pub fn str(&self, k: &str) -> Option<&str> {
        self.map.get(k).map(|s| s.as_str())
    }
}

pub fn line(xs: &[u64]) -> String {
    let mut s = String::with_capacity(xs.len() * 4);
    for (i, x) in xs.iter().enumerate() {
        if i > 0 {
            s.push(' ');
        }
        s.push_str(&x.to_string());
    }
    s
}

pub fn parse_line(s: &str) -> Vec<u64> {
    s.split_whitespace().filter_map(|t| t.parse().ok()).collect()
}

/// Cases stored in a corpus directory or replay file: every non-comment line is one case.
pub fn read_cases(path: &Path) -> Vec<Vec<u64>> {
    let mut out = Vec::new();
    let mut files = Vec::new();
    if path.is_dir() {
        if let Ok(rd) = fs::read_dir(path) {
            for e in rd.flatten() {
                if e.path().extension().map(|x| x == "case").unwrap_or(false) {
                    files.push(e.path());
                }
            }
        }
        files.sort();
    } else if path.is_file() {
        files.push(path.to_path_buf());
    }
    for f in files {
        if let Ok(s) = fs::read_to_string(&f) {
            for l in s.lines() {
                let l = l.trim();
                if l.is_empty() || l.starts_with('#') {
                    continue;
                }
                if let Some(rest) = l.strip_prefix("case:") {
                    out.push(parse_line(rest));
                } else if l.chars().next().map(|c| c.is_ascii_digit()).unwrap_or(false) {
                    out.push(parse_line(l));
                }
            }
        }
    }
    out
}

pub struct Outputs {
    pub cases: Box<dyn Write>,
    pub traces: Box<dyn Write>,
}

impl Outputs {
    pub fn open(args: &Args) -> Self {
        let c = args.str("out-cases").expect("--out-cases");
        let t = args.str("out-trace").expect("--out-trace");
        Outputs {
            cases: Box::new(std::io::BufWriter::new(fs::File::create(c).unwrap())),
            traces: Box::new(std::io::BufWriter::new(fs::File::create(t).unwrap())),
        }
    }
    pub fn emit(&mut self, case: &[u64], trace: &[u64]) {
        writeln!(self.cases, "{}", line(case)).unwrap();
        writeln!(self.traces, "{}", line(trace)).unwrap();
    }
}

/// Marker at the head of a trace when the implementation panicked while running the case.
pub const PANIC_MARK: u64 = 999_999_999;

pub fn silence_panics() {
    std::panic::set_hook(Box::new(|_| {}));
}
