//! C06, end-to-end stream (tag 9604; child module of c06x.rs): REAL `Litep2p` nodes over real
//! loopback TCP sockets, configured through the public API (`ConfigBuilder::with_connection_limits`),
//! observed through the public API only (`Litep2p::dial_address` results, `Litep2pEvent`s).
//!
//! Node A is the node under test, built with the limit configuration of the case. Remote nodes
//! B_1.. (default configuration, one runtime each so that a node can be killed) connect to A or are
//! dialled by A, one operation after the other:
//!   op 0 p   remote p dials A            -> whether A reports ConnectionEstablished(p), and what the remote
//!                                           saw: 1 established and open, 2 established then closed (A
//!                                           rejected the negotiated connection), 3 its dial failed (A
//!                                           rejected the pending socket)
//!   op 1 p   A dials remote p by address -> the result of Litep2p::dial_address (0 Ok, 1 ConnectionLimit,
//!                                           3 AlreadyConnected, 5 other) and whether A reports
//!                                           ConnectionEstablished(p)
//!   op 2 p   remote p is killed          -> 1 if A reports ConnectionClosed(p)
//! The expected answers are computed by the manager model of coq/Mgr from the translation of every
//! operation into manager events (coq/C06/Glue.v `e2e_*`), so this stream ties the model's
//! accept / reject / ConnectionLimit decisions to a complete node: configuration plumbing, manager,
//! real transport, real sockets.
use super::*;
use litep2p::{
    config::ConfigBuilder,
    protocol::libp2p::ping::Config as PingConfig,
    transport::tcp::config::Config as TcpConfig,
    Litep2p, Litep2pEvent,
};
use std::time::{Duration, Instant};
use tokio::sync::mpsc;

pub const TAG_E2E: u64 = 9604;
const NREMOTE: usize = 4;

#[derive(Clone, Copy, Debug)]
pub struct Op {
    pub kind: u64,
    pub p: u64,
}

pub fn enc_case(mi: u64, mo: u64, ops: &[Op]) -> Vec<u64> {
    let mut c = vec![TAG_E2E, mi, mo, ops.len() as u64];
    for o in ops {
        c.extend([o.kind, o.p]);
    }
    c
}

pub fn dec_case(c: &[u64]) -> Option<(u64, u64, Vec<Op>)> {
    if c.len() < 4 || c[3] > 32 || c.len() != 4 + 2 * c[3] as usize || c[1] > 64 || c[2] > 64 {
        return None;
    }
    let mut v = Vec::new();
    for k in 0..c[3] as usize {
        let (kind, p) = (c[4 + 2 * k], c[5 + 2 * k]);
        if kind > 2 || p == 0 || p > NREMOTE as u64 {
            return None;
        }
        v.push(Op { kind, p });
    }
    Some((c[1], c[2], v))
}

fn node(limits: Option<(u64, u64)>) -> (Litep2p, Box<dyn futures::Stream<Item = litep2p::protocol::libp2p::ping::PingEvent> + Send + Unpin>) {
    let (ping, events) = PingConfig::default();
    let mut b = ConfigBuilder::new()
        .with_tcp(TcpConfig {
            listen_addresses: vec!["/ip4/127.0.0.1/tcp/0".parse().unwrap()],
            reuse_port: false,
            ..Default::default()
        })
        .with_libp2p_ping(ping)
        .with_keep_alive_timeout(Duration::from_secs(120));
    if let Some((mi, mo)) = limits {
        b = b.with_connection_limits(
            ConnectionLimitsConfig::default()
                .max_incoming_connections(dec_opt(mi))
                .max_outgoing_connections(dec_opt(mo)),
        );
    }
    (Litep2p::new(b.build()).unwrap(), events)
}

/// what a remote node reports: 1 connection established with A, 2 connection closed, 3 dial failure
type RObs = u64;

struct Remote {
    rt: Option<tokio::runtime::Runtime>,
    peer: PeerId,
    addr: Multiaddr,
    cmd: mpsc::UnboundedSender<Multiaddr>,
    obs: std::sync::mpsc::Receiver<RObs>,
    seen: Vec<RObs>,
}

impl Remote {
    fn new() -> Remote {
        let rt = tokio::runtime::Builder::new_multi_thread().worker_threads(1).enable_all().build().unwrap();
        let (cmd, mut crx) = mpsc::unbounded_channel::<Multiaddr>();
        let (otx, obs) = std::sync::mpsc::channel();
        let (itx, irx) = std::sync::mpsc::channel();
        rt.spawn(async move {
            let (mut l, _ping) = node(None);
            let addr = l.listen_addresses().next().unwrap().clone();
            let _ = itx.send((*l.local_peer_id(), addr));
            loop {
                tokio::select! {
                    c = crx.recv() => match c {
                        Some(a) => { let _ = l.dial_address(a).await; }
                        None => break,
                    },
                    e = l.next_event() => match e {
                        Some(Litep2pEvent::ConnectionEstablished { .. }) => { let _ = otx.send(1); }
                        Some(Litep2pEvent::ConnectionClosed { .. }) => { let _ = otx.send(2); }
                        Some(Litep2pEvent::DialFailure { .. }) | Some(Litep2pEvent::ListDialFailures { .. }) => { let _ = otx.send(3); }
                        None => break,
                    },
                }
            }
        });
        let (peer, addr) = irx.recv_timeout(Duration::from_secs(20)).expect("remote node");
        Remote { rt: Some(rt), peer, addr, cmd, obs, seen: Vec::new() }
    }
    fn pump(&mut self) {
        while let Ok(o) = self.obs.try_recv() {
            self.seen.push(o);
        }
    }
    fn kill(&mut self) {
        if let Some(rt) = self.rt.take() {
            rt.shutdown_background();
        }
    }
}

/// events of A: (kind 1 established / 2 closed, remote index or 99)
async fn pump_a(a: &mut Litep2p, remotes: &[Option<Remote>], seen: &mut Vec<(u64, u64)>, ms: u64) {
    let idx = |p: &PeerId| -> u64 {
        remotes.iter().position(|r| r.as_ref().map(|r| r.peer == *p).unwrap_or(false)).map(|i| i as u64 + 1).unwrap_or(99)
    };
    let end = Instant::now() + Duration::from_millis(ms);
    loop {
        let left = end.saturating_duration_since(Instant::now());
        match tokio::time::timeout(left.max(Duration::from_millis(1)), a.next_event()).await {
            Ok(Some(Litep2pEvent::ConnectionEstablished { peer, .. })) => seen.push((1, idx(&peer))),
            Ok(Some(Litep2pEvent::ConnectionClosed { peer, .. })) => seen.push((2, idx(&peer))),
            Ok(Some(_)) => {}
            Ok(None) => return,
            Err(_) => return,
        }
        if Instant::now() >= end {
            return;
        }
    }
}

/// wait until `done`, polling A in slices of 5 ms, at most `ms`
async fn wait_a(
    a: &mut Litep2p,
    remotes: &mut [Option<Remote>],
    seen: &mut Vec<(u64, u64)>,
    ms: u64,
    done: impl Fn(&[(u64, u64)], &[Option<Remote>]) -> bool,
) -> bool {
    let start = Instant::now();
    loop {
        pump_a(a, remotes, seen, 5).await;
        for r in remotes.iter_mut().flatten() {
            r.pump();
        }
        if done(seen, remotes) {
            return true;
        }
        if start.elapsed() > Duration::from_millis(ms) {
            return false;
        }
    }
}

pub fn run(mi: u64, mo: u64, ops: &[Op]) -> Vec<u64> {
    const LONG: u64 = 10_000;
    const QUIET: u64 = 300;
    let rt = tokio::runtime::Builder::new_current_thread().enable_all().build().unwrap();
    let mut t = vec![1u64];
    let mut remotes: Vec<Option<Remote>> = (0..NREMOTE).map(|_| Some(Remote::new())).collect();
    rt.block_on(async {
        let (mut a, _ping) = node(Some((mi, mo)));
        let a_addr = a.listen_addresses().next().unwrap().clone(); // carries /p2p/<A>
        let mut seen: Vec<(u64, u64)> = Vec::new();
        for o in ops {
            let i = o.p as usize - 1;
            let mark = seen.len();
            match o.kind {
                0 => {
                    // remote p dials A
                    let Some(r) = remotes[i].as_ref() else {
                        t.extend([9, 9]);
                        continue;
                    };
                    let rmark = r.seen.len();
                    let _ = r.cmd.send(a_addr.clone());
                    let p = o.p;
                    // the remote's attempt ends: its side of the handshake completes, or its dial fails
                    let _ = wait_a(&mut a, &mut remotes, &mut seen, LONG, |_, rs| {
                        rs[i].as_ref().map(|r| r.seen[rmark..].iter().any(|x| *x == 1 || *x == 3)).unwrap_or(true)
                    })
                    .await;
                    // accepted: A reports it; rejected: the remote sees the connection close / its dial fail
                    let _ = wait_a(&mut a, &mut remotes, &mut seen, LONG, |s, rs| {
                        s[mark..].contains(&(1, p))
                            || rs[i].as_ref().map(|r| r.seen[rmark..].iter().any(|x| *x == 2 || *x == 3)).unwrap_or(true)
                    })
                    .await;
                    // let the other outcome show up too if it is going to
                    let _ = wait_a(&mut a, &mut remotes, &mut seen, QUIET, |_, _| false).await;
                    let est = seen[mark..].contains(&(1, p)) as u64;
                    let rs: Vec<u64> = remotes[i].as_ref().map(|r| r.seen[rmark..].to_vec()).unwrap_or_default();
                    // what the remote saw: 3 its dial failed, 2 established then closed, 1 established and open, 0 nothing
                    let outcome = if rs.contains(&3) {
                        3
                    } else if rs.contains(&1) && rs.contains(&2) {
                        2
                    } else if rs.contains(&1) {
                        1
                    } else {
                        0
                    };
                    t.extend([est, outcome]);
                }
                1 => {
                    let Some(r) = remotes[i].as_ref() else {
                        t.extend([9, 9]);
                        continue;
                    };
                    let addr = r.addr.clone(); // carries /p2p/<remote>
                    let res = a.dial_address(addr).await;
                    let code = ret_code(&res);
                    let p = o.p;
                    let est = if code == 0 {
                        wait_a(&mut a, &mut remotes, &mut seen, LONG, |s, _| s[mark..].contains(&(1, p))).await as u64
                    } else {
                        wait_a(&mut a, &mut remotes, &mut seen, QUIET, |s, _| s[mark..].contains(&(1, p))).await as u64
                    };
                    t.extend([code, est]);
                }
                _ => {
                    let was = remotes[i].is_some();
                    if let Some(r) = remotes[i].as_mut() {
                        r.kill();
                    }
                    let p = o.p;
                    // A reports ConnectionClosed(p) if it had a connection; otherwise nothing happens
                    let closed = wait_a(&mut a, &mut remotes, &mut seen, if was { 1500 } else { 50 }, |s, _| s[mark..].contains(&(2, p))).await as u64;
                    remotes[i] = None;
                    t.extend([closed, 0]);
                }
            }
        }
    });
    for r in remotes.iter_mut().flatten() {
        r.kill();
    }
    rt.shutdown_background();
    t
}

pub fn generated(rng: &mut Rng) -> (Vec<u64>, Vec<u64>) {
    let mi = rng.pick(&[0u64, 1, 2, 2, 3]);
    let mo = rng.pick(&[0u64, 1, 2, 2, 3]);
    let n = rng.range(3, 6);
    // a remote is used for one connection attempt (dialling a connected peer is refused by the
    // dialling side before anything reaches the node under test), then it may be killed
    let mut fresh: Vec<u64> = (1..=NREMOTE as u64).collect();
    let mut used: Vec<u64> = Vec::new();
    let mut ops = Vec::new();
    for _ in 0..n {
        let roll = rng.below(10);
        if roll < 7 && !fresh.is_empty() {
            let p = fresh.remove(rng.below(fresh.len() as u64) as usize);
            used.push(p);
            ops.push(Op { kind: if roll < 4 { 0 } else { 1 }, p });
        } else if !used.is_empty() {
            let p = used.remove(rng.below(used.len() as u64) as usize);
            ops.push(Op { kind: 2, p });
        }
    }
    (enc_case(mi, mo, &ops), run(mi, mo, &ops))
}

/// inbound limit 1: the second remote is turned away, after the first one is gone the third gets in;
/// outbound limit 1: the second dial fails with ConnectionLimit, after the first is gone a dial succeeds
pub fn table() -> Vec<(Vec<u64>, Vec<u64>)> {
    let mut v = Vec::new();
    let ops = [Op { kind: 0, p: 1 }, Op { kind: 0, p: 2 }, Op { kind: 2, p: 1 }, Op { kind: 0, p: 3 }, Op { kind: 1, p: 4 }];
    v.push((enc_case(2, 0, &ops), run(2, 0, &ops)));
    let ops = [Op { kind: 1, p: 1 }, Op { kind: 1, p: 2 }, Op { kind: 2, p: 1 }, Op { kind: 1, p: 3 }, Op { kind: 0, p: 4 }];
    v.push((enc_case(0, 2, &ops), run(0, 2, &ops)));
    v
}
