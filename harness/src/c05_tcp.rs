//! C05, transport streams: drives the REAL `TcpTransport` (tag 9000), `WebSocketTransport` (9001)
//! and, when the harness is built with `--features quic`, `QuicTransport` (9002) through their
//! `Verif*Transport` facades over loopback sockets and records, per step, the results of the `Transport` trait calls, the
//! `TransportEvent`s polled (kind + connection id), the warn/debug lines of the branches of
//! `poll_next` that consume a future without an event, and a dump of the bookkeeping maps.
//! Format: coq/Tcp/Glue.v.
//!
//! The completion order of the inner futures is decided here by construction: every address
//! points at a *gate* (a loopback listener that connects through to one of two further real
//! TcpTransport nodes A and B with different identities — or, for inbound sockets, to the transport
//! under test — and holds the bytes until it is released: pass = pipe the two sockets, fail = close
//! both), at a closed port, or is malformed. Independently of where it leads, an address *names*
//! a peer (none, A, B or an identity nobody has), so an address can be answered by another
//! identity than the one it names. `EAns f i r` ends attempt i of future f: it releases that gate
//! (r = 0 close, r = 1 + node: pass, the node behind the gate authenticates) and polls until the
//! transport's state shows what the attempt did; an attempt that fails by itself is ended by the
//! step that follows its creation.
use crate::util::*;
use litep2p::{
    crypto::ed25519::Keypair,
    transport::tcp::{
        config::Config,
        verif_transport::{VerifResolver, VerifTcpEvent, VerifTcpState, VerifTcpTransport},
    },
    transport::websocket::{config::Config as WsConfig, verif_transport::VerifWsTransport},
    PeerId,
};
use multiaddr::{Multiaddr, Protocol};
use std::{
    cell::RefCell,
    collections::HashMap,
    net::SocketAddr,
    task::Poll,
    time::{Duration, Instant},
};
use tokio::{
    net::{TcpListener, TcpStream},
    runtime::Runtime,
    sync::{mpsc, oneshot},
    task::JoinHandle,
};

pub const STREAM_TAG: u64 = 9000;

#[cfg(feature = "quic")]
use litep2p::transport::quic::{config::Config as QuicConfig, verif_transport::VerifQuicTransport};

/// The transport a case is about; the stream tag of the case is 9000 + its number.
#[derive(Clone, Copy, PartialEq, Eq, Debug)]
pub enum Tk {
    Tcp,
    Ws,
    Quic,
}
impl Tk {
    pub fn tag(self) -> u64 {
        STREAM_TAG + self as u64
    }
    pub fn of_tag(t: u64) -> Option<Tk> {
        match t {
            9000 => Some(Tk::Tcp),
            9001 => Some(Tk::Ws),
            9002 => Some(Tk::Quic),
            _ => None,
        }
    }
    /// WebSocket and QUIC refuse an address without /p2p
    fn strict(self) -> bool {
        self != Tk::Tcp
    }
}

/// The transport under test / a remote node.
enum AnyT {
    Tcp(VerifTcpTransport),
    Ws(VerifWsTransport),
    #[cfg(feature = "quic")]
    Quic(VerifQuicTransport),
}
macro_rules! any {
    ($s:expr, $t:ident => $e:expr) => {
        match $s {
            AnyT::Tcp($t) => $e,
            AnyT::Ws($t) => $e,
            #[cfg(feature = "quic")]
            AnyT::Quic($t) => $e,
        }
    };
}
impl AnyT {
    fn new(kind: Tk, cfg: u64, resolver: &VerifResolver) -> (AnyT, SocketAddr) {
        let timeout = if cfg >= 4 { Duration::from_millis(SHORT_TIMEOUT_MS) } else { Duration::from_secs(60) };
        match kind {
            Tk::Tcp => {
                let (t, a) = VerifTcpTransport::new(
                    Keypair::generate(),
                    Config {
                        listen_addresses: vec!["/ip4/127.0.0.1/tcp/0".parse().unwrap()],
                        reuse_port: false,
                        connection_open_timeout: timeout,
                        substream_open_timeout: Duration::from_secs(60),
                        max_parallel_dials: parallel(cfg),
                        ..Default::default()
                    },
                    resolver,
                )
                .unwrap();
                (AnyT::Tcp(t), socket_of(&a[0]))
            }
            Tk::Ws => {
                let (t, a) = VerifWsTransport::new(
                    Keypair::generate(),
                    WsConfig {
                        listen_addresses: vec!["/ip4/127.0.0.1/tcp/0/ws".parse().unwrap()],
                        reuse_port: false,
                        connection_open_timeout: timeout,
                        substream_open_timeout: Duration::from_secs(60),
                        max_parallel_dials: parallel(cfg),
                        ..Default::default()
                    },
                    resolver,
                )
                .unwrap();
                (AnyT::Ws(t), socket_of(&a[0]))
            }
            #[cfg(feature = "quic")]
            Tk::Quic => {
                let (t, a) = VerifQuicTransport::new(
                    Keypair::generate(),
                    QuicConfig {
                        listen_addresses: vec!["/ip4/127.0.0.1/udp/0/quic-v1".parse().unwrap()],
                        connection_open_timeout: timeout,
                        substream_open_timeout: Duration::from_secs(60),
                    },
                    resolver,
                )
                .unwrap();
                (AnyT::Quic(t), socket_of(&a[0]))
            }
            #[cfg(not(feature = "quic"))]
            Tk::Quic => panic!("the harness was built without the quic feature"),
        }
    }
    fn local_peer_id(&self) -> PeerId {
        any!(self, t => t.local_peer_id())
    }
    fn draw_connection_id(&self) -> usize {
        any!(self, t => t.draw_connection_id())
    }
    fn dial(&mut self, c: usize, a: Multiaddr) -> bool {
        any!(self, t => t.dial(c, a))
    }
    fn open(&mut self, c: usize, a: Vec<Multiaddr>) -> bool {
        any!(self, t => t.open(c, a))
    }
    fn negotiate(&mut self, c: usize) -> bool {
        any!(self, t => t.negotiate(c))
    }
    fn cancel(&mut self, c: usize) {
        any!(self, t => t.cancel(c))
    }
    fn accept(&mut self, c: usize) -> Option<futures::future::BoxFuture<'static, litep2p::Result<()>>> {
        any!(self, t => t.accept(c))
    }
    fn reject(&mut self, c: usize) -> bool {
        any!(self, t => t.reject(c))
    }
    fn accept_pending(&mut self, c: usize) -> bool {
        any!(self, t => t.accept_pending(c))
    }
    fn reject_pending(&mut self, c: usize) -> bool {
        any!(self, t => t.reject_pending(c))
    }
    fn poll_event(&mut self, cx: &mut std::task::Context<'_>) -> Poll<Option<VerifTcpEvent>> {
        any!(self, t => t.poll_event(cx))
    }
    fn state(&self) -> VerifTcpState {
        any!(self, t => t.state())
    }
}

/// connection_open_timeout of the cases that let timeouts fire
const SHORT_TIMEOUT_MS: u64 = 250;

/// answers that did not show up in this run
static MISSED: std::sync::atomic::AtomicUsize = std::sync::atomic::AtomicUsize::new(0);

/// two cases in `share` belong to the transport streams (one TCP, one WebSocket)
pub fn share(thorough: bool) -> u64 {
    if thorough {
        1000
    } else {
        20
    }
}

// ---------- output buffer shared with the log tap (emission order is kept) ----------
type Out = (u64, u64, u64);
thread_local! {
    static OUTS: RefCell<Vec<Out>> = RefCell::new(Vec::new());
}
fn push_out(tag: u64, v: u64) {
    OUTS.with(|o| o.borrow_mut().push((tag, v, 0)));
}
fn push_out3(tag: u64, v: u64, w: u64) {
    OUTS.with(|o| o.borrow_mut().push((tag, v, w)));
}
fn take_outs() -> Vec<Out> {
    OUTS.with(|o| std::mem::take(&mut *o.borrow_mut()))
}

/// Log tap: the three branches of `TcpTransport::poll_next` that drop a completed future.
struct LogTap;
#[derive(Default)]
struct TapVisitor {
    message: String,
    conn: u64,
}
impl tracing::field::Visit for TapVisitor {
    fn record_debug(&mut self, field: &tracing::field::Field, value: &dyn std::fmt::Debug) {
        if field.name() == "message" {
            self.message = format!("{:?}", value);
        } else if field.name() == "connection_id" {
            let s = format!("{:?}", value);
            let digits: String = s.chars().filter(|c| c.is_ascii_digit()).collect();
            self.conn = digits.parse().unwrap_or(999_999);
        }
    }
}
impl tracing::Subscriber for LogTap {
    fn enabled(&self, m: &tracing::Metadata<'_>) -> bool {
        (matches!(m.target(), "litep2p::tcp" | "litep2p::websocket" | "litep2p::quic") && *m.level() <= tracing::Level::DEBUG)
            || std::env::var("VERIF_TCP_LOG").is_ok()
    }
    fn new_span(&self, _: &tracing::span::Attributes<'_>) -> tracing::span::Id {
        tracing::span::Id::from_u64(1)
    }
    fn record(&self, _: &tracing::span::Id, _: &tracing::span::Record<'_>) {}
    fn record_follows_from(&self, _: &tracing::span::Id, _: &tracing::span::Id) {}
    fn event(&self, event: &tracing::Event<'_>) {
        let mut v = TapVisitor::default();
        event.record(&mut v);
        if std::env::var("VERIF_TCP_LOG").is_ok() {
            eprintln!("LOG {} {} conn={} tap={}", event.metadata().target(), v.message, v.conn, TAP_ON.with(|t| *t.borrow()));
        }
        if !TAP_ON.with(|t| *t.borrow()) || !matches!(event.metadata().target(), "litep2p::tcp" | "litep2p::websocket" | "litep2p::quic") {
            return;
        }
        if v.message.contains("raw connection without a cancel handle") {
            push_out(9, v.conn);
        } else if v.message.contains("raw cancelled connection without a cancel handle") {
            push_out(10, v.conn);
        } else if v.message.contains("Pending inbound connection failed") {
            push_out(11, v.conn);
        }
    }
    fn enter(&self, _: &tracing::span::Id) {}
    fn exit(&self, _: &tracing::span::Id) {}
}
thread_local! {
    /// only the transport under test is tapped (the remote node logs through the same target)
    static TAP_ON: RefCell<bool> = RefCell::new(false);
}
fn tap(on: bool) {
    TAP_ON.with(|t| *t.borrow_mut() = on);
}

pub fn install_log_tap() {
    let _ = tracing::subscriber::set_global_default(LogTap);
}

// ---------- gates ----------
struct Gate {
    port: u16,
    release: Option<oneshot::Sender<bool>>,
}

fn loopback(port: u16) -> SocketAddr {
    SocketAddr::from(([127, 0, 0, 1], port))
}

/// A port nothing listens on: tcpmux (a freed ephemeral port could be taken by another process of
/// this machine before the transport connects to it).
fn closed_port() -> u16 {
    1
}

fn spawn_gate(kind: Tk, target: SocketAddr, first_through: bool, tasks: &mut Vec<JoinHandle<()>>) -> Gate {
    if kind == Tk::Quic {
        return spawn_udp_gate(target, first_through, tasks);
    }
    let l = std::net::TcpListener::bind(loopback(0)).unwrap();
    l.set_nonblocking(true).unwrap();
    let port = l.local_addr().unwrap().port();
    let listener = TcpListener::from_std(l).unwrap();
    let (tx, rx) = oneshot::channel::<bool>();
    tasks.push(tokio::spawn(async move {
        let Ok((mut a, _)) = listener.accept().await else { return };
        drop(listener);
        let b = TcpStream::connect(target).await;
        match rx.await {
            Ok(true) =>
                if let Ok(mut b) = b {
                    let _ = tokio::io::copy_bidirectional(&mut a, &mut b).await;
                },
            _ => {}
        }
    }));
    Gate { port, release: Some(tx) }
}

/// The gate of the QUIC stream: a UDP relay between the first client that sends to it and `target`.
/// Until it is released it keeps the datagrams (with `first_through` the client's first datagram is
/// forwarded at once, so that the listener behind it announces the connection); pass = deliver what
/// was kept and relay both ways, fail = drop everything (the attempt then ends by its idle timeout).
fn spawn_udp_gate(target: SocketAddr, first_through: bool, tasks: &mut Vec<JoinHandle<()>>) -> Gate {
    let down = std::net::UdpSocket::bind(loopback(0)).unwrap();
    down.set_nonblocking(true).unwrap();
    let port = down.local_addr().unwrap().port();
    let up = std::net::UdpSocket::bind(loopback(0)).unwrap();
    up.set_nonblocking(true).unwrap();
    let (tx, mut rx) = oneshot::channel::<bool>();
    tasks.push(tokio::spawn(async move {
        let down = tokio::net::UdpSocket::from_std(down).unwrap();
        let up = tokio::net::UdpSocket::from_std(up).unwrap();
        let mut client: Option<SocketAddr> = None;
        let mut kept_up: Vec<Vec<u8>> = Vec::new(); // client -> target
        let mut kept_down: Vec<Vec<u8>> = Vec::new(); // target -> client
        let mut open = false;
        let mut dead = false;
        let mut first = first_through;
        let mut b1 = vec![0u8; 65536];
        let mut b2 = vec![0u8; 65536];
        loop {
            tokio::select! {
                r = &mut rx, if !open && !dead => match r {
                    Ok(true) => {
                        open = true;
                        for d in kept_up.drain(..) {
                            let _ = up.send_to(&d, target).await;
                        }
                        if let Some(c) = client {
                            for d in kept_down.drain(..) {
                                let _ = down.send_to(&d, c).await;
                            }
                        }
                    }
                    _ => dead = true,
                },
                r = down.recv_from(&mut b1) => {
                    let Ok((n, from)) = r else { break };
                    if client.is_none() {
                        client = Some(from);
                    }
                    if dead || client != Some(from) {
                        continue;
                    }
                    if open || first {
                        first = false;
                        let _ = up.send_to(&b1[..n], target).await;
                    } else if kept_up.len() < 64 {
                        kept_up.push(b1[..n].to_vec());
                    }
                }
                r = up.recv_from(&mut b2) => {
                    let Ok((n, _)) = r else { break };
                    if dead {
                        continue;
                    }
                    match (open, client) {
                        (true, Some(c)) => {
                            let _ = down.send_to(&b2[..n], c).await;
                        }
                        _ => if kept_down.len() < 64 {
                            kept_down.push(b2[..n].to_vec());
                        },
                    }
                }
            }
        }
    }));
    Gate { port, release: Some(tx) }
}

// ---------- events of a case ----------
/// An address: (kind, named). kind: 0 gate to node A, 1 closed port, 2 malformed (a transport-level
/// protocol no socket transport has), 3 gate to node B, 4 a well-formed address of another transport
/// (ws-shaped for TCP, tcp-shaped for WebSocket and QUIC), 5 gate to node A, /wss (WebSocket only).
/// named: 0 no /p2p component, 1 node A, 2 node B, 3 an identity nobody has.
type Addr = (u64, u64);

#[derive(Clone, Debug)]
pub enum Ev {
    Draw,
    Dial(u64, Addr),
    Open(u64, Vec<Addr>),
    Negotiate(u64),
    Cancel(u64),
    Accept(u64),
    Reject(u64),
    AcceptPending(u64),
    RejectPending(u64),
    Poll,
    /// 0: node A dials through a gate; 1: a bare socket that never speaks; 2: node B through a gate
    Inbound(u64),
    /// future, attempt, 0 = fails / 1 + node that authenticates
    Ans(u64, u64, u64),
    Expire(u64),
}

impl Ev {
    fn encode(&self, out: &mut Vec<u64>) {
        match self {
            Ev::Draw => out.push(0),
            Ev::Dial(c, a) => out.extend([1, *c, a.0, a.1]),
            Ev::Open(c, ks) => {
                out.extend([2, *c, ks.len() as u64]);
                for a in ks {
                    out.extend([a.0, a.1]);
                }
            }
            Ev::Negotiate(c) => out.extend([3, *c]),
            Ev::Cancel(c) => out.extend([4, *c]),
            Ev::Accept(c) => out.extend([5, *c]),
            Ev::Reject(c) => out.extend([6, *c]),
            Ev::AcceptPending(c) => out.extend([7, *c]),
            Ev::RejectPending(c) => out.extend([8, *c]),
            Ev::Poll => out.push(9),
            Ev::Inbound(k) => out.extend([10, *k]),
            Ev::Ans(f, i, r) => out.extend([11, *f, *i, *r]),
            Ev::Expire(f) => out.extend([12, *f]),
        }
    }
    fn decode(c: &[u64], i: &mut usize) -> Option<Ev> {
        let mut next = || {
            let v = c.get(*i).copied();
            *i += 1;
            v
        };
        Some(match next()? {
            0 => Ev::Draw,
            1 => Ev::Dial(next()?, (next()?, next()?)),
            2 => {
                let id = next()?;
                let n = next()?;
                if n > 64 {
                    return None;
                }
                let mut ks = Vec::new();
                for _ in 0..n {
                    ks.push((next()?, next()?));
                }
                Ev::Open(id, ks)
            }
            3 => Ev::Negotiate(next()?),
            4 => Ev::Cancel(next()?),
            5 => Ev::Accept(next()?),
            6 => Ev::Reject(next()?),
            7 => Ev::AcceptPending(next()?),
            8 => Ev::RejectPending(next()?),
            9 => Ev::Poll,
            10 => Ev::Inbound(next()?),
            11 => Ev::Ans(next()?, next()?, next()?),
            12 => Ev::Expire(next()?),
            _ => return None,
        })
    }
}

#[derive(Clone, Copy, PartialEq, Eq, Debug)]
enum FKind {
    Raw,
    Dial,
    Inb,
    Neg,
}
#[derive(Clone, Copy, PartialEq, Eq, Debug)]
enum Alive {
    Yes,
    No,
    Unknown,
}
/// One attempt of a future: the gate it goes through (None: it fails by itself), the node behind
/// the gate, what the address names, whether it has ended.
#[derive(Clone, Copy, Debug)]
struct Attempt {
    gate: Option<usize>,
    node: u64,
    named: u64,
    /// a /wss address: the TLS handshake with the plain listener behind the gate cannot succeed
    tls: bool,
    over: bool,
}
impl Attempt {
    /// the handshake through this gate authenticates the node the address names
    fn good(&self) -> bool {
        self.gate.is_some() && !self.tls && (self.named == 0 || self.named == self.node + 1)
    }
}
struct Fut {
    kind: FKind,
    id: u64,
    attempts: Vec<Attempt>,
    /// a bare inbound socket held by the harness
    sock: Option<TcpStream>,
    alive: Alive,
}
impl Fut {
    fn open_attempts(&self) -> usize {
        self.attempts.iter().filter(|a| !a.over).count()
    }
}

enum InbSrc {
    /// gate, node behind it
    Gate(usize, u64),
    Sock(TcpStream),
}

struct World {
    kind: Tk,
    t: AnyT,
    listen: SocketAddr,
    /// nodes A and B
    remote_listen: [SocketAddr; 2],
    remote_peer: [PeerId; 2],
    remote_cmd: [mpsc::UnboundedSender<Multiaddr>; 2],
    nobody: PeerId,
    /// timeouts fire in this case
    short: bool,
    gates: Vec<Gate>,
    futs: Vec<Fut>,
    inbound_src: HashMap<u64, InbSrc>,
    tasks: Vec<JoinHandle<()>>,
}

fn socket_of(a: &Multiaddr) -> SocketAddr {
    let mut it = a.iter();
    match (it.next(), it.next()) {
        (Some(Protocol::Ip4(ip)), Some(Protocol::Tcp(p))) | (Some(Protocol::Ip4(ip)), Some(Protocol::Udp(p))) =>
            SocketAddr::from((ip, p)),
        _ => panic!("listen address"),
    }
}

async fn remote_task(mut t: AnyT, mut rx: mpsc::UnboundedReceiver<Multiaddr>) {
    loop {
        tokio::select! {
            cmd = rx.recv() => match cmd {
                Some(addr) => {
                    let id = t.draw_connection_id();
                    let _ = t.dial(id, addr);
                }
                None => break,
            },
            ev = futures::future::poll_fn(|cx| t.poll_event(cx)) => match ev {
                Some(VerifTcpEvent::PendingInbound(id)) => {
                    let _ = t.accept_pending(id);
                }
                Some(_) => {}
                None => break,
            },
        }
    }
}

impl World {
    async fn new(resolver: &VerifResolver, kind: Tk, cfg: u64) -> World {
        let (t, listen) = AnyT::new(kind, cfg, resolver);
        let mut tasks = Vec::new();
        let mut node = || {
            let (r, rlisten) = AnyT::new(kind, 0, resolver);
            let peer = r.local_peer_id();
            let (tx, rx) = mpsc::unbounded_channel();
            tasks.push(tokio::spawn(remote_task(r, rx)));
            (rlisten, peer, tx)
        };
        let (a, b) = (node(), node());
        World {
            kind,
            t,
            listen,
            remote_listen: [a.0, b.0],
            remote_peer: [a.1, b.1],
            remote_cmd: [a.2, b.2],
            nobody: PeerId::random(),
            short: cfg >= 4,
            gates: Vec::new(),
            futs: Vec::new(),
            inbound_src: HashMap::new(),
            tasks,
        }
    }

    fn peer_index(&self, p: &PeerId) -> u64 {
        self.remote_peer.iter().position(|x| x == p).map(|i| i as u64).unwrap_or(9)
    }

    /// the address of this transport's shape for a port
    fn shaped(&self, port: u16, tls: bool) -> Multiaddr {
        let ip = Multiaddr::empty().with(Protocol::Ip4(std::net::Ipv4Addr::new(127, 0, 0, 1)));
        match self.kind {
            Tk::Tcp => ip.with(Protocol::Tcp(port)),
            Tk::Ws if tls => ip.with(Protocol::Tcp(port)).with(Protocol::Wss(std::borrow::Cow::Borrowed("/"))),
            Tk::Ws => ip.with(Protocol::Tcp(port)).with(Protocol::Ws(std::borrow::Cow::Borrowed("/"))),
            Tk::Quic => ip.with(Protocol::Udp(port)).with(Protocol::QuicV1),
        }
    }

    /// one address; when the transport takes it as an attempt (it parses), the attempt record is
    /// appended to `attempts` — the same rule as `expect_of` of coq/Tcp/Variants.v
    fn address(&mut self, a: Addr, attempts: &mut Vec<Attempt>) -> Multiaddr {
        let (kind, named) = a;
        let ip = Multiaddr::empty().with(Protocol::Ip4(std::net::Ipv4Addr::new(127, 0, 0, 1)));
        let name = |m: Multiaddr, w: &World| match named {
            0 => m,
            1 => m.with(Protocol::P2p(w.remote_peer[0].into())),
            2 => m.with(Protocol::P2p(w.remote_peer[1].into())),
            _ => m.with(Protocol::P2p(w.nobody.into())),
        };
        let parses = !(self.kind.strict() && named == 0);
        match kind {
            0 | 3 | 5 if !(kind == 5 && self.kind != Tk::Ws) => {
                let node = if kind == 3 { 1 } else { 0 };
                // an address the transport refuses never connects: no gate needed
                if !parses {
                    return name(self.shaped(closed_port(), kind == 5), self);
                }
                let g = spawn_gate(self.kind, self.remote_listen[node], false, &mut self.tasks);
                let port = g.port;
                self.gates.push(g);
                attempts.push(Attempt { gate: Some(self.gates.len() - 1), node: node as u64, named, tls: kind == 5, over: false });
                name(self.shaped(port, kind == 5), self)
            }
            1 => {
                if parses {
                    attempts.push(Attempt { gate: None, node: 0, named, tls: false, over: false });
                }
                name(self.shaped(closed_port(), false), self)
            }
            4 => match self.kind {
                // a WebSocket address handed to TCP; a TCP address handed to WebSocket / QUIC
                Tk::Tcp => name(ip.with(Protocol::Tcp(closed_port())).with(Protocol::Ws(std::borrow::Cow::Borrowed("/"))), self),
                _ => name(ip.with(Protocol::Tcp(closed_port())), self),
            },
            _ => match self.kind {
                Tk::Quic => ip.with(Protocol::Tcp(4001)).with(Protocol::Sctp(1)),
                _ => ip.with(Protocol::Udp(4001)),
            },
        }
    }

    /// poll_next until Pending — and not woken meanwhile: `FuturesUnordered` gives up its turn with a
    /// self-wake (after two futures that woke themselves, which the `buffer_unordered` inside every
    /// raw future does whenever its attempts have all been polled) while futures that are ready are
    /// still queued; the owner's event loop is then polled again at once, and so is the transport here
    async fn flush(&mut self) {
        struct Flag {
            woken: std::sync::atomic::AtomicBool,
            inner: std::task::Waker,
        }
        impl std::task::Wake for Flag {
            fn wake(self: std::sync::Arc<Self>) {
                self.woken.store(true, std::sync::atomic::Ordering::SeqCst);
                self.inner.wake_by_ref();
            }
        }
        tap(true);
        let mut again = 0;
        loop {
            let t = &mut self.t;
            let (r, woken) = futures::future::poll_fn(|cx| {
                let flag = std::sync::Arc::new(Flag { woken: false.into(), inner: cx.waker().clone() });
                let waker = std::task::Waker::from(flag.clone());
                let r = t.poll_event(&mut std::task::Context::from_waker(&waker));
                Poll::Ready((r, flag.woken.load(std::sync::atomic::Ordering::SeqCst)))
            })
            .await;
            match r {
                Poll::Pending if woken && again < 64 => {
                    again += 1;
                    // a tokio resource that ran out of its cooperative budget also wakes itself
                    tap(false);
                    tokio::task::yield_now().await;
                    tap(true);
                }
                Poll::Pending => break,
                Poll::Ready(None) => {
                    push_out(14, 0);
                    break;
                }
                Poll::Ready(Some(ev)) => match ev {
                    VerifTcpEvent::PendingInbound(c) => push_out(3, c as u64),
                    VerifTcpEvent::Opened(c) => push_out(4, c as u64),
                    VerifTcpEvent::OpenFailure(c) => push_out(5, c as u64),
                    VerifTcpEvent::Established(c, l, p) => push_out3(6 + l as u64, c as u64, self.peer_index(&p)),
                    VerifTcpEvent::DialFailure(c) => push_out(8, c as u64),
                    VerifTcpEvent::Closed(c) => push_out(13, c as u64),
                },
            }
        }
        tap(false);
    }

    /// poll until `done(state)`; `patient`: the completion is certain, its absence is recorded
    async fn wait(&mut self, patient: bool, done: impl Fn(&VerifTcpState, &[Out]) -> bool) {
        self.wait_for(patient, if patient { 20_000 } else { 60 }, done).await
    }

    /// `patient`: the completion is certain, its absence after `limit_ms` is recorded. The budget is
    /// counted on a clock that a stall of the whole process cannot advance by more than 100 ms per
    /// iteration (the sandbox VM gets paused: after a pause of more than the limit this loop would give
    /// up before the runtime has had a turn to fire the implementation's own timers)
    async fn wait_for(&mut self, patient: bool, limit_ms: u64, done: impl Fn(&VerifTcpState, &[Out]) -> bool) {
        // once an answer went missing the run is failing anyway: do not spend 20 s on each further one
        // (a QUIC attempt that gets no answer ends after 3 probe timeouts, about 3 s)
        let missed = MISSED.load(std::sync::atomic::Ordering::Relaxed);
        let short = if self.kind == Tk::Quic { 8_000 } else { 2_000 };
        let limit = Duration::from_millis(if patient && missed > 0 { limit_ms.min(short) } else { limit_ms });
        let mut spent = Duration::ZERO;
        let mut last = Instant::now();
        loop {
            self.flush().await;
            let seen = OUTS.with(|o| done(&self.t.state(), &o.borrow()));
            if seen {
                break;
            }
            let now = Instant::now();
            spent += (now - last).min(Duration::from_millis(100));
            last = now;
            if spent > limit {
                if patient {
                    push_out(12, 0);
                    MISSED.fetch_add(1, std::sync::atomic::Ordering::Relaxed);
                }
                break;
            }
            tokio::time::sleep(Duration::from_millis(1)).await;
        }
    }

    fn release(&mut self, g: usize, pass: bool) {
        if let Some(tx) = self.gates[g].release.take() {
            let _ = tx.send(pass);
        }
    }

    async fn apply(&mut self, ev: &Ev) {
        match ev {
            Ev::Draw => push_out(2, self.t.draw_connection_id() as u64),
            Ev::Dial(c, a) => {
                let mut attempts = Vec::new();
                let addr = self.address(*a, &mut attempts);
                tap(true);
                let ok = self.t.dial(*c as usize, addr);
                tap(false);
                push_out(1, ok as u64);
                if ok {
                    self.futs.push(Fut { kind: FKind::Dial, id: *c, attempts, sock: None, alive: Alive::Yes });
                }
            }
            Ev::Open(c, ks) => {
                let mut attempts = Vec::new();
                let addrs: Vec<Multiaddr> = ks.iter().map(|k| self.address(*k, &mut attempts)).collect();
                tap(true);
                let ok = self.t.open(*c as usize, addrs);
                tap(false);
                push_out(1, ok as u64);
                if ok {
                    // an earlier open with the same id loses its handle: what the transport does
                    // with that future is no longer known here
                    for f in self.futs.iter_mut() {
                        if f.kind == FKind::Raw && f.id == *c && f.alive == Alive::Yes {
                            f.alive = Alive::Unknown;
                        }
                    }
                    let dup = self.futs.iter().any(|f| f.kind == FKind::Raw && f.id == *c && f.alive != Alive::No);
                    self.futs.push(Fut {
                        kind: FKind::Raw,
                        id: *c,
                        attempts,
                        sock: None,
                        alive: if dup { Alive::Unknown } else { Alive::Yes },
                    });
                }
            }
            Ev::Negotiate(c) => {
                let ok = self.t.negotiate(*c as usize);
                push_out(1, ok as u64);
                if ok {
                    self.futs.push(Fut { kind: FKind::Neg, id: *c, attempts: Vec::new(), sock: None, alive: Alive::No });
                }
            }
            Ev::Cancel(c) => {
                let had = self.t.state().cancel_futures.iter().any(|x| x.0 == *c as usize);
                self.t.cancel(*c as usize);
                if had {
                    for f in self.futs.iter_mut() {
                        if f.kind == FKind::Raw && f.id == *c && f.alive == Alive::Yes {
                            f.alive = Alive::No;
                        }
                    }
                }
            }
            Ev::Accept(c) => match self.t.accept(*c as usize) {
                Some(fut) => {
                    push_out(1, 1);
                    let _ = tokio::time::timeout(Duration::from_secs(5), fut).await;
                }
                None => push_out(1, 0),
            },
            Ev::Reject(c) => push_out(1, self.t.reject(*c as usize) as u64),
            Ev::AcceptPending(c) => {
                let ok = self.t.accept_pending(*c as usize);
                push_out(1, ok as u64);
                if ok {
                    let (attempts, sock) = match self.inbound_src.remove(c) {
                        Some(InbSrc::Gate(g, node)) =>
                            (vec![Attempt { gate: Some(g), node, named: 0, tls: false, over: false }], None),
                        Some(InbSrc::Sock(s)) => (vec![Attempt { gate: None, node: 0, named: 0, tls: false, over: false }], Some(s)),
                        None => (Vec::new(), None),
                    };
                    self.futs.push(Fut { kind: FKind::Inb, id: *c, attempts, sock, alive: Alive::Yes });
                }
            }
            Ev::RejectPending(c) => {
                let ok = self.t.reject_pending(*c as usize);
                push_out(1, ok as u64);
                if ok {
                    self.inbound_src.remove(c);
                }
            }
            Ev::Poll => self.flush().await,
            Ev::Inbound(k) => {
                self.flush().await;
                let src = if *k != 1 || self.kind == Tk::Quic {
                    let node = if *k == 2 { 1 } else { 0 };
                    let g = spawn_gate(self.kind, self.listen, true, &mut self.tasks);
                    let addr = self.shaped(g.port, false).with(Protocol::P2p(self.t.local_peer_id().into()));
                    self.gates.push(g);
                    let _ = self.remote_cmd[node].send(addr);
                    Some(InbSrc::Gate(self.gates.len() - 1, node as u64))
                } else {
                    TcpStream::connect(self.listen).await.ok().map(InbSrc::Sock)
                };
                self.wait(true, |_, outs| outs.iter().any(|o| o.0 == 3)).await;
                let id = OUTS.with(|o| o.borrow().iter().rev().find(|o| o.0 == 3).map(|o| o.1));
                if let (Some(id), Some(src)) = (id, src) {
                    self.inbound_src.insert(id, src);
                }
            }
            Ev::Ans(f, i, r) => {
                self.flush().await;
                let before = self.t.state();
                let Some(fut) = self.futs.get_mut(*f as usize) else {
                    return;
                };
                let (kind, alive, id) = (fut.kind, fut.alive, fut.id);
                let Some(att) = fut.attempts.get_mut(*i as usize) else {
                    return;
                };
                if att.over {
                    return;
                }
                att.over = true;
                let att = *att;
                // what the future does with the end of this attempt, by construction
                let wins = *r != 0 && att.good();
                let decisive = wins || fut.open_attempts() == 0;
                if decisive {
                    fut.alive = Alive::No;
                }
                if *r == 0 {
                    // a bare inbound socket can only go away
                    drop(fut.sock.take());
                }
                if let Some(g) = att.gate {
                    // with short timeouts a failing attempt is not closed: its timeout ends it (the
                    // only way a QUIC attempt can be made to fail); a /wss attempt fails by itself
                    // once the TLS client talks to the plain listener
                    if att.tls {
                        self.release(g, true);
                    } else if !((self.short || self.kind == Tk::Quic) && *r == 0) {
                        self.release(g, *r != 0);
                    }
                }
                // the future is consumed: an output that names its id, or one future less
                let named = move |outs: &[Out], tags: &[u64]| outs.iter().any(|o| o.1 == id && tags.contains(&o.0));
                // an attempt that passes although it should not win is given a moment to show it
                let patient = decisive && alive == Alive::Yes;
                if kind == FKind::Neg || alive == Alive::No || (!decisive && *r == 0) {
                    return;
                }
                // certain: up to 20 s, then recorded as missing; a future this harness lost track of
                // (two opens with one id): long enough for a handshake; an attempt that should not
                // win: a moment
                let limit = if patient { 20_000 } else if decisive { 800 } else { 60 };
                match kind {
                    FKind::Raw => {
                        let n = before.pending_raw_connections;
                        self.wait_for(patient, limit, move |s, o| named(o, &[4, 5, 9]) || s.pending_raw_connections < n).await
                    }
                    _ => {
                        let n = before.pending_connections;
                        self.wait_for(patient, limit, move |s, o| named(o, &[6, 7, 8, 11]) || s.pending_connections < n).await
                    }
                }
            }
            Ev::Expire(f) => {
                // the overall deadline of an open: nothing to do but wait for it
                self.flush().await;
                let before = self.t.state();
                let Some(fut) = self.futs.get_mut(*f as usize) else {
                    return;
                };
                if fut.kind != FKind::Raw || fut.alive != Alive::Yes || !self.short {
                    return;
                }
                fut.alive = Alive::No;
                let id = fut.id;
                let n = before.pending_raw_connections;
                self.wait(true, move |s, o| o.iter().any(|x| x.1 == id && [4, 5, 9].contains(&x.0)) || s.pending_raw_connections < n)
                    .await
            }
        }
    }

    fn dump(&self, out: &mut Vec<u64>) {
        let s = self.t.state();
        let set = |out: &mut Vec<u64>, v: &[usize]| {
            out.push(v.len() as u64);
            out.extend(v.iter().map(|x| *x as u64));
        };
        out.push(s.next_connection_id as u64);
        set(out, &s.pending_dials);
        set(out, &s.pending_inbound_connections);
        out.push(s.pending_raw_connections as u64);
        out.push(s.pending_connections as u64);
        set(out, &s.opened);
        out.push(s.cancel_futures.len() as u64);
        for (c, a) in &s.cancel_futures {
            out.extend([*c as u64, *a as u64]);
        }
        set(out, &s.pending_open);
    }

    /// one step: returns the outputs (for the generator) after appending the group to the trace
    async fn step(&mut self, ev: &Ev, trace: &mut Vec<u64>) -> Vec<Out> {
        let _ = take_outs();
        self.apply(ev).await;
        let outs = take_outs();
        trace.push(outs.len() as u64);
        for (t, v, w) in &outs {
            trace.extend([*t, *v, *w]);
        }
        self.dump(trace);
        outs
    }

}

impl Drop for World {
    /// also when the case ends in a panic of the implementation
    fn drop(&mut self) {
        for t in &self.tasks {
            t.abort();
        }
    }
}

// ---------- generator ----------
/// What the generator remembers of the run (from the real outputs only).
#[derive(Default)]
struct Know {
    drawn: Vec<u64>,
    used: Vec<u64>,
    opening: Vec<u64>,
    opened: Vec<u64>,
    established: Vec<u64>,
    inbound: Vec<u64>,
}

fn pick_or(rng: &mut Rng, xs: &[u64], noisy: bool) -> Option<u64> {
    if noisy && rng.chance(25) {
        return Some(rng.below(12));
    }
    if xs.is_empty() {
        None
    } else {
        Some(xs[rng.below(xs.len() as u64) as usize])
    }
}

fn gen_addr(rng: &mut Rng, kind: Tk, gate_only: bool) -> Addr {
    let k = if gate_only {
        rng.pick(&[0, 0, 3])
    } else {
        match kind {
            Tk::Tcp => rng.pick(&[0, 0, 0, 0, 3, 3, 1, 1, 2, 4]),
            Tk::Ws => rng.pick(&[0, 0, 0, 0, 3, 3, 1, 1, 2, 4, 5]),
            // nothing answers for a closed UDP port: such an attempt only ends by its timeout
            Tk::Quic => rng.pick(&[0, 0, 0, 0, 3, 3, 2, 4]),
        }
    };
    let named = match k {
        0 | 5 => rng.pick(&[1, 1, 1, 1, 1, 1, 1, 2, 2, 0, 3]),
        3 => rng.pick(&[2, 2, 2, 2, 2, 1, 1, 1, 0, 3]),
        _ => rng.pick(&[1, 1, 2, 0]),
    };
    (k, named)
}

/// without a gate among the attempts, at most one attempt may end by itself (its end is then the
/// end of the future; two would race)
fn sanitize(kind: Tk, v: &mut Vec<Addr>) {
    let parses = |a: &Addr| !(kind.strict() && a.1 == 0);
    let gates = v.iter().filter(|a| matches!(a.0, 0 | 3 | 5) && !(a.0 == 5 && kind != Tk::Ws) && parses(a)).count();
    if gates == 0 {
        let mut seen = false;
        v.retain(|a| {
            if a.0 == 1 && parses(a) {
                let keep = !seen;
                seen = true;
                keep
            } else {
                true
            }
        });
    }
}

fn parallel(cfg: u64) -> usize {
    match cfg % 4 {
        0 => 8,
        k => k as usize,
    }
}

/// the attempts of future f that can be ended now through their gate: `open` runs at most
/// `max_parallel_dials` attempts at a time, in the order of the addresses (QUIC: all at once)
fn gate_attempts(f: &Fut, kind: Tk, cfg: u64) -> Vec<usize> {
    f.attempts
        .iter()
        .enumerate()
        .filter(|(_, a)| !a.over)
        .take(if kind == Tk::Quic { usize::MAX } else { parallel(cfg) })
        .filter(|(_, a)| a.gate.is_some() || f.sock.is_some())
        .map(|(i, _)| i)
        .collect()
}

/// how the generator ends a gate attempt: pass (the node behind the gate authenticates) or failure
fn gen_answer(rng: &mut Rng, kind: Tk, a: &Attempt, pass_percent: u64) -> u64 {
    if a.tls || a.gate.is_none() {
        0
    } else if kind == Tk::Quic || rng.chance(pass_percent) {
        1 + a.node
    } else {
        0
    }
}

/// Cases in which the timeouts fire (connection_open_timeout = 250 ms): one future at a time, ended
/// by waiting — a held attempt of an open / a dial times out (`Ans f i 0`), or three held addresses
/// tried one after the other run into the overall deadline of the open (`Expire f`).
async fn run_timeouts(resolver: &VerifResolver, kind: Tk, rng: &mut Rng, case: &mut Vec<u64>) -> Vec<u64> {
    let cfg = 5; // short timeouts, max_parallel_dials = 1
    let mut w = World::new(resolver, kind, cfg).await;
    let mut evs: Vec<Ev> = Vec::new();
    let mut id = 0u64;
    let mut f = 0u64;
    for _ in 0..rng.range(1, 2) {
        match rng.below(3) {
            0 => evs.extend([Ev::Draw, Ev::Dial(id, (0, 1)), Ev::Poll, Ev::Ans(f, 0, 0)]),
            1 => evs.extend([Ev::Draw, Ev::Open(id, vec![(0, 1)]), Ev::Poll, Ev::Ans(f, 0, 0)]),
            // QUIC has no overall deadline: both held attempts run into their own timeout
            _ if kind == Tk::Quic =>
                evs.extend([Ev::Draw, Ev::Open(id, vec![(0, 1), (3, 2)]), Ev::Poll, Ev::Ans(f, 0, 0), Ev::Ans(f, 1, 0)]),
            _ => evs.extend([Ev::Draw, Ev::Open(id, vec![(0, 1), (3, 2), (0, 1)]), Ev::Poll, Ev::Expire(f)]),
        }
        id += 1;
        f += 1;
    }
    evs.push(Ev::Poll);
    *case = vec![kind.tag(), cfg, evs.len() as u64];
    for ev in &evs {
        ev.encode(case);
    }
    let mut trace = vec![1u64];
    for ev in &evs {
        w.step(ev, &mut trace).await;
    }
    trace
}

/// `case` is kept up to date step by step: when the implementation panics, it holds the events up to
/// the one that panicked.
async fn run_generated(resolver: &VerifResolver, kind: Tk, rng: &mut Rng, thorough: bool, case: &mut Vec<u64>) -> Vec<u64> {
    if rng.chance(3) {
        return run_timeouts(resolver, kind, rng, case).await;
    }
    let cfg = rng.below(4);
    // QUIC tells a dialed connection from an accepted one by its `pending_dials` entry (TCP and
    // WebSocket carry the endpoint inside the negotiated connection), which an owner that uses one id
    // twice confuses; the model's endpoint direction is that of TCP, and coincides with QUIC's for an
    // owner that draws its ids (invariant c_conn_dial): QUIC cases keep to such owners
    let noisy = rng.chance(15) && kind != Tk::Quic;
    let n = if thorough { rng.range(8, 70) } else { rng.range(5, 40) };
    let mut w = World::new(resolver, kind, cfg).await;
    let mut k = Know::default();
    *case = vec![kind.tag(), cfg, 0];
    let mut trace = vec![1u64];
    let mut count = 0u64;
    // steps that must follow at once (an attempt that ends by itself, the manager's
    // cancel + negotiate after ConnectionOpened, the poll after a call)
    let mut forced: Vec<Ev> = Vec::new();
    let mut settle = false;
    while count < n + 80 {
        let ev = if !forced.is_empty() {
            forced.remove(0)
        } else if count >= n || settle {
            // settle: end what is still pending, then stop
            settle = true;
            match w.futs.iter().position(|f| f.alive == Alive::Yes && !gate_attempts(f, kind, cfg).is_empty()) {
                Some(f) => {
                    let i = gate_attempts(&w.futs[f], kind, cfg)[0];
                    let a = w.futs[f].attempts[i];
                    Ev::Ans(f as u64, i as u64, gen_answer(rng, kind, &a, 60))
                }
                None => break,
            }
        } else {
            let roll = rng.below(100);
            let alive: Vec<u64> = w
                .futs
                .iter()
                .enumerate()
                .filter(|(_, f)| f.alive != Alive::No && !gate_attempts(f, kind, cfg).is_empty())
                .map(|(i, _)| i as u64)
                .collect();
            match roll {
                0..=17 => {
                    // open with a fresh id (sometimes a used / never drawn one)
                    let id = if noisy && rng.chance(30) { pick_or(rng, &k.used, true) } else { None };
                    // without a gate at most one address (its end is then the end of the future)
                    let mut kinds: Vec<Addr> = match rng.below(12) {
                        0 => Vec::new(),
                        1 | 2 => vec![gen_addr(rng, kind, false)],
                        _ => {
                            let mut v = vec![gen_addr(rng, kind, true)];
                            for _ in 0..rng.below(4) {
                                v.push(gen_addr(rng, kind, false));
                            }
                            // any order
                            let r = rng.below(v.len() as u64) as usize;
                            v.swap(0, r);
                            v
                        }
                    };
                    sanitize(kind, &mut kinds);
                    match id {
                        Some(id) => Ev::Open(id, kinds),
                        None => {
                            forced.push(Ev::Open(u64::MAX, kinds));
                            Ev::Draw
                        }
                    }
                }
                18..=29 => {
                    let a = gen_addr(rng, kind, false);
                    if noisy && rng.chance(30) {
                        match pick_or(rng, &k.used, true) {
                            Some(id) => Ev::Dial(id, a),
                            None => Ev::Draw,
                        }
                    } else {
                        forced.push(Ev::Dial(u64::MAX, a));
                        Ev::Draw
                    }
                }
                30..=38 => Ev::Inbound(if kind == Tk::Quic { rng.pick(&[0, 0, 2]) } else { rng.pick(&[0, 0, 0, 2, 2, 1]) }),
                39..=66 => match pick_or(rng, &alive, false) {
                    Some(f) => {
                        let ga = gate_attempts(&w.futs[f as usize], kind, cfg);
                        let i = ga[rng.below(ga.len() as u64) as usize];
                        let a = w.futs[f as usize].attempts[i];
                        Ev::Ans(f, i as u64, gen_answer(rng, kind, &a, 70))
                    }
                    None => Ev::Inbound(if kind == Tk::Quic { rng.pick(&[0, 2]) } else { rng.pick(&[0, 0, 2, 1]) }),
                },
                67..=73 => match pick_or(rng, &k.opening, noisy) {
                    Some(c) => Ev::Cancel(c),
                    None => Ev::Draw,
                },
                74..=78 => match pick_or(rng, &k.opened, noisy) {
                    Some(c) => {
                        if rng.chance(40) {
                            Ev::Cancel(c)
                        } else {
                            Ev::Negotiate(c)
                        }
                    }
                    None => Ev::Poll,
                },
                79..=86 => match pick_or(rng, &k.inbound, noisy) {
                    Some(c) => {
                        if rng.chance(75) {
                            Ev::AcceptPending(c)
                        } else {
                            Ev::RejectPending(c)
                        }
                    }
                    None => Ev::Inbound(0),
                },
                87..=94 => match pick_or(rng, &k.established, noisy) {
                    Some(c) => {
                        if rng.chance(60) {
                            Ev::Accept(c)
                        } else {
                            Ev::Reject(c)
                        }
                    }
                    None => Ev::Poll,
                },
                95..=96 if noisy => Ev::Ans(w.futs.len() as u64 + rng.below(2), rng.below(3), rng.below(3)),
                _ => Ev::Poll,
            }
        };
        // ids drawn for a forced dial / open
        let ev = match ev {
            Ev::Open(u64::MAX, ks) => Ev::Open(k.drawn.pop().unwrap_or(0), ks),
            Ev::Dial(u64::MAX, a) => Ev::Dial(k.drawn.pop().unwrap_or(0), a),
            e => e,
        };
        ev.encode(case);
        count += 1;
        case[2] = count;
        let nf = w.futs.len();
        let outs = w.step(&ev, &mut trace).await;
        // observe
        for (t, v, _) in &outs {
            match t {
                2 => k.drawn.push(*v),
                3 => k.inbound.push(*v),
                4 => {
                    k.opening.retain(|x| x != v);
                    k.opened.push(*v);
                    if !settle && rng.chance(80) {
                        // what the manager does on ConnectionOpened: cancel, negotiate, no poll between
                        if rng.chance(70) {
                            forced.push(Ev::Cancel(*v));
                        }
                        forced.push(Ev::Negotiate(*v));
                    }
                }
                5 => k.opening.retain(|x| x != v),
                6 | 7 => k.established.push(*v),
                _ => {}
            }
        }
        match &ev {
            Ev::Open(c, _) => {
                k.used.push(*c);
                k.opening.push(*c);
            }
            Ev::Dial(c, _) => k.used.push(*c),
            Ev::Negotiate(c) => k.opened.retain(|x| x != c),
            Ev::Accept(c) | Ev::Reject(c) => k.established.retain(|x| x != c),
            Ev::AcceptPending(c) | Ev::RejectPending(c) => k.inbound.retain(|x| x != c),
            Ev::Cancel(c) => {
                if rng.chance(80) {
                    k.opening.retain(|x| x != c)
                }
            }
            _ => {}
        }
        if w.futs.len() > nf && matches!(w.futs[nf].kind, FKind::Raw | FKind::Dial) {
            // the attempts that end by themselves as soon as they are polled: the next steps say so
            let f = nf as u64;
            let auto: Vec<u64> = w.futs[nf].attempts.iter().enumerate().filter(|(_, a)| a.gate.is_none()).map(|(i, _)| i as u64).collect();
            let all_auto = auto.len() == w.futs[nf].attempts.len();
            let mut next = Vec::new();
            match &ev {
                Ev::Open(c, _) if all_auto && rng.chance(25) => {
                    next.push(Ev::Cancel(*c));
                    next.push(Ev::Poll);
                }
                Ev::Open(..) if auto.is_empty() && w.futs[nf].attempts.is_empty() => next.push(Ev::Poll),
                _ => {
                    for i in auto {
                        next.push(Ev::Ans(f, i, 0));
                    }
                }
            }
            if !next.is_empty() {
                next.extend(forced.drain(..));
                forced = next;
            }
        }
        if forced.is_empty() && !matches!(ev, Ev::Poll | Ev::Ans(..) | Ev::Inbound(_) | Ev::Draw | Ev::Expire(_)) && rng.chance(85) {
            forced.push(Ev::Poll);
        }
    }
    if forced.is_empty() {
        // closing poll and dump
        let ev = Ev::Poll;
        ev.encode(case);
        count += 1;
        case[2] = count;
        w.step(&ev, &mut trace).await;
    }
    trace
}

async fn run_stored_async(resolver: &VerifResolver, c: &[u64]) -> Vec<u64> {
    let Some(kind) = c.first().copied().and_then(Tk::of_tag) else {
        return vec![0];
    };
    if c.len() < 3 || (kind == Tk::Quic && !cfg!(feature = "quic")) {
        return vec![0];
    }
    let mut evs = Vec::new();
    let mut i = 3;
    for _ in 0..c[2] {
        match Ev::decode(c, &mut i) {
            Some(e) => evs.push(e),
            None => return vec![0],
        }
    }
    if i != c.len() {
        return vec![0];
    }
    let mut w = World::new(resolver, kind, c[1]).await;
    let mut trace = vec![1u64];
    for ev in &evs {
        w.step(ev, &mut trace).await;
    }
    trace
}

pub struct Tcp {
    resolver: VerifResolver,
}

impl Tcp {
    pub fn new(rt: &Runtime) -> Tcp {
        let _g = rt.enter();
        install_log_tap();
        Tcp { resolver: VerifResolver::new().expect("resolver") }
    }
    pub fn is_tcp_case(c: &[u64]) -> bool {
        c.first().copied().and_then(Tk::of_tag).is_some()
    }
    pub fn run_stored(&self, rt: &Runtime, c: &[u64]) -> Vec<u64> {
        rt.block_on(run_stored_async(&self.resolver, c))
    }
    /// a panic of the implementation ends the case: the events so far, and the panic marker as trace
    pub fn run_generated(&self, rt: &Runtime, kind: Tk, rng: &mut Rng, thorough: bool) -> (Vec<u64>, Vec<u64>) {
        let mut case = Vec::new();
        let r = std::panic::catch_unwind(std::panic::AssertUnwindSafe(|| {
            rt.block_on(run_generated(&self.resolver, kind, rng, thorough, &mut case))
        }));
        match r {
            Ok(trace) => (case, trace),
            Err(_) => (case, vec![PANIC_MARK]),
        }
    }
}

/// which transport stream, if any, case number i of a run belongs to
pub fn stream_of(i: u64, thorough: bool, only: Option<Tk>) -> Option<Tk> {
    if let Some(k) = only {
        return Some(k);
    }
    let m = share(thorough);
    if i % m == 9 {
        Some(Tk::Tcp)
    } else if i % m == m / 2 + 9 {
        Some(Tk::Ws)
    } else {
        None
    }
}
