//! C05, TCP stream: drives the REAL `TcpTransport` (through the `VerifTcpTransport` facade) over
//! loopback sockets and records, per step, the results of the `Transport` trait calls, the
//! `TransportEvent`s polled (kind + connection id), the warn/debug lines of the branches of
//! `poll_next` that consume a future without an event, and a dump of the bookkeeping maps.
//! Format: coq/Tcp/Glue.v.
//!
//! The completion order of the inner futures is decided here by construction: every address
//! points at a *gate* (a loopback listener that connects through to one of two further real
//! TcpTransport nodes A and B with different identities — or, for inbound sockets, to the transport
//! under test — and holds the bytes until it is released: pass = pipe the two sockets, fail = close
//! both), at a closed port, or is malformed. Independently of where it leads, an address *names*
//! a peer (none, A, B or an identity nobody has), so an address can be answered by another
//! identity than the one it names. `EAns f i r` ends attempt i of future f: it releases that gate
//! (r = 0 close, r = 1 + node: pass, the node behind the gate authenticates) and polls until the
//! transport's state shows what the attempt did; an attempt that fails by itself is ended by the
//! step that follows its creation.
use crate::util::*;
use litep2p::{
    crypto::ed25519::Keypair,
    transport::tcp::{
        config::Config,
        verif_transport::{VerifResolver, VerifTcpEvent, VerifTcpState, VerifTcpTransport},
    },
    PeerId,
};
use multiaddr::{Multiaddr, Protocol};
use std::{
    cell::RefCell,
    collections::HashMap,
    net::SocketAddr,
    task::Poll,
    time::{Duration, Instant},
};
use tokio::{
    net::{TcpListener, TcpStream},
    runtime::Runtime,
    sync::{mpsc, oneshot},
    task::JoinHandle,
};

pub const STREAM_TAG: u64 = 9000;

/// connection_open_timeout of the cases that let timeouts fire
const SHORT_TIMEOUT_MS: u64 = 250;

/// answers that did not show up in this run
static MISSED: std::sync::atomic::AtomicUsize = std::sync::atomic::AtomicUsize::new(0);

/// one case in `share` belongs to this stream
pub fn share(thorough: bool) -> u64 {
    if thorough {
        400
    } else {
        10
    }
}

// ---------- output buffer shared with the log tap (emission order is kept) ----------
type Out = (u64, u64, u64);
thread_local! {
    static OUTS: RefCell<Vec<Out>> = RefCell::new(Vec::new());
}
fn push_out(tag: u64, v: u64) {
    OUTS.with(|o| o.borrow_mut().push((tag, v, 0)));
}
fn push_out3(tag: u64, v: u64, w: u64) {
    OUTS.with(|o| o.borrow_mut().push((tag, v, w)));
}
fn take_outs() -> Vec<Out> {
    OUTS.with(|o| std::mem::take(&mut *o.borrow_mut()))
}

/// Log tap: the three branches of `TcpTransport::poll_next` that drop a completed future.
struct LogTap;
#[derive(Default)]
struct TapVisitor {
    message: String,
    conn: u64,
}
impl tracing::field::Visit for TapVisitor {
    fn record_debug(&mut self, field: &tracing::field::Field, value: &dyn std::fmt::Debug) {
        if field.name() == "message" {
            self.message = format!("{:?}", value);
        } else if field.name() == "connection_id" {
            let s = format!("{:?}", value);
            let digits: String = s.chars().filter(|c| c.is_ascii_digit()).collect();
            self.conn = digits.parse().unwrap_or(999_999);
        }
    }
}
impl tracing::Subscriber for LogTap {
    fn enabled(&self, m: &tracing::Metadata<'_>) -> bool {
        (m.target() == "litep2p::tcp" && *m.level() <= tracing::Level::DEBUG) || std::env::var("VERIF_TCP_LOG").is_ok()
    }
    fn new_span(&self, _: &tracing::span::Attributes<'_>) -> tracing::span::Id {
        tracing::span::Id::from_u64(1)
    }
    fn record(&self, _: &tracing::span::Id, _: &tracing::span::Record<'_>) {}
    fn record_follows_from(&self, _: &tracing::span::Id, _: &tracing::span::Id) {}
    fn event(&self, event: &tracing::Event<'_>) {
        let mut v = TapVisitor::default();
        event.record(&mut v);
        if std::env::var("VERIF_TCP_LOG").is_ok() {
            eprintln!("LOG {} {} conn={} tap={}", event.metadata().target(), v.message, v.conn, TAP_ON.with(|t| *t.borrow()));
        }
        if !TAP_ON.with(|t| *t.borrow()) {
            return;
        }
        if v.message.contains("raw connection without a cancel handle") {
            push_out(9, v.conn);
        } else if v.message.contains("raw cancelled connection without a cancel handle") {
            push_out(10, v.conn);
        } else if v.message.contains("Pending inbound connection failed") {
            push_out(11, v.conn);
        }
    }
    fn enter(&self, _: &tracing::span::Id) {}
    fn exit(&self, _: &tracing::span::Id) {}
}
thread_local! {
    /// only the transport under test is tapped (the remote node logs through the same target)
    static TAP_ON: RefCell<bool> = RefCell::new(false);
}
fn tap(on: bool) {
    TAP_ON.with(|t| *t.borrow_mut() = on);
}

pub fn install_log_tap() {
    let _ = tracing::subscriber::set_global_default(LogTap);
}

// ---------- gates ----------
struct Gate {
    port: u16,
    release: Option<oneshot::Sender<bool>>,
}

fn loopback(port: u16) -> SocketAddr {
    SocketAddr::from(([127, 0, 0, 1], port))
}

/// A port nothing listens on: tcpmux (a freed ephemeral port could be taken by another process of
/// this machine before the transport connects to it).
fn closed_port() -> u16 {
    1
}

fn spawn_gate(target: SocketAddr, tasks: &mut Vec<JoinHandle<()>>) -> Gate {
    let l = std::net::TcpListener::bind(loopback(0)).unwrap();
    l.set_nonblocking(true).unwrap();
    let port = l.local_addr().unwrap().port();
    let listener = TcpListener::from_std(l).unwrap();
    let (tx, rx) = oneshot::channel::<bool>();
    tasks.push(tokio::spawn(async move {
        let Ok((mut a, _)) = listener.accept().await else { return };
        drop(listener);
        let b = TcpStream::connect(target).await;
        match rx.await {
            Ok(true) =>
                if let Ok(mut b) = b {
                    let _ = tokio::io::copy_bidirectional(&mut a, &mut b).await;
                },
            _ => {}
        }
    }));
    Gate { port, release: Some(tx) }
}

// ---------- events of a case ----------
/// An address: (kind, named). kind: 0 gate to node A, 1 closed port, 2 malformed, 3 gate to node B.
/// named: 0 no /p2p component, 1 node A, 2 node B, 3 an identity nobody has.
type Addr = (u64, u64);

#[derive(Clone, Debug)]
pub enum Ev {
    Draw,
    Dial(u64, Addr),
    Open(u64, Vec<Addr>),
    Negotiate(u64),
    Cancel(u64),
    Accept(u64),
    Reject(u64),
    AcceptPending(u64),
    RejectPending(u64),
    Poll,
    /// 0: node A dials through a gate; 1: a bare socket that never speaks; 2: node B through a gate
    Inbound(u64),
    /// future, attempt, 0 = fails / 1 + node that authenticates
    Ans(u64, u64, u64),
    Expire(u64),
}

impl Ev {
    fn encode(&self, out: &mut Vec<u64>) {
        match self {
            Ev::Draw => out.push(0),
            Ev::Dial(c, a) => out.extend([1, *c, a.0, a.1]),
            Ev::Open(c, ks) => {
                out.extend([2, *c, ks.len() as u64]);
                for a in ks {
                    out.extend([a.0, a.1]);
                }
            }
            Ev::Negotiate(c) => out.extend([3, *c]),
            Ev::Cancel(c) => out.extend([4, *c]),
            Ev::Accept(c) => out.extend([5, *c]),
            Ev::Reject(c) => out.extend([6, *c]),
            Ev::AcceptPending(c) => out.extend([7, *c]),
            Ev::RejectPending(c) => out.extend([8, *c]),
            Ev::Poll => out.push(9),
            Ev::Inbound(k) => out.extend([10, *k]),
            Ev::Ans(f, i, r) => out.extend([11, *f, *i, *r]),
            Ev::Expire(f) => out.extend([12, *f]),
        }
    }
    fn decode(c: &[u64], i: &mut usize) -> Option<Ev> {
        let mut next = || {
            let v = c.get(*i).copied();
            *i += 1;
            v
        };
        Some(match next()? {
            0 => Ev::Draw,
            1 => Ev::Dial(next()?, (next()?, next()?)),
            2 => {
                let id = next()?;
                let n = next()?;
                if n > 64 {
                    return None;
                }
                let mut ks = Vec::new();
                for _ in 0..n {
                    ks.push((next()?, next()?));
                }
                Ev::Open(id, ks)
            }
            3 => Ev::Negotiate(next()?),
            4 => Ev::Cancel(next()?),
            5 => Ev::Accept(next()?),
            6 => Ev::Reject(next()?),
            7 => Ev::AcceptPending(next()?),
            8 => Ev::RejectPending(next()?),
            9 => Ev::Poll,
            10 => Ev::Inbound(next()?),
            11 => Ev::Ans(next()?, next()?, next()?),
            12 => Ev::Expire(next()?),
            _ => return None,
        })
    }
}

#[derive(Clone, Copy, PartialEq, Eq, Debug)]
enum FKind {
    Raw,
    Dial,
    Inb,
    Neg,
}
#[derive(Clone, Copy, PartialEq, Eq, Debug)]
enum Alive {
    Yes,
    No,
    Unknown,
}
/// One attempt of a future: the gate it goes through (None: it fails by itself), the node behind
/// the gate, what the address names, whether it has ended.
#[derive(Clone, Copy, Debug)]
struct Attempt {
    gate: Option<usize>,
    node: u64,
    named: u64,
    over: bool,
}
impl Attempt {
    /// the handshake through this gate authenticates the node the address names
    fn good(&self) -> bool {
        self.gate.is_some() && (self.named == 0 || self.named == self.node + 1)
    }
}
struct Fut {
    kind: FKind,
    id: u64,
    attempts: Vec<Attempt>,
    /// a bare inbound socket held by the harness
    sock: Option<TcpStream>,
    alive: Alive,
}
impl Fut {
    fn open_attempts(&self) -> usize {
        self.attempts.iter().filter(|a| !a.over).count()
    }
}

enum InbSrc {
    /// gate, node behind it
    Gate(usize, u64),
    Sock(TcpStream),
}

struct World {
    t: VerifTcpTransport,
    listen: SocketAddr,
    /// nodes A and B
    remote_listen: [SocketAddr; 2],
    remote_peer: [PeerId; 2],
    remote_cmd: [mpsc::UnboundedSender<Multiaddr>; 2],
    nobody: PeerId,
    /// timeouts fire in this case
    short: bool,
    gates: Vec<Gate>,
    futs: Vec<Fut>,
    inbound_src: HashMap<u64, InbSrc>,
    tasks: Vec<JoinHandle<()>>,
}

fn socket_of(a: &Multiaddr) -> SocketAddr {
    let mut it = a.iter();
    match (it.next(), it.next()) {
        (Some(Protocol::Ip4(ip)), Some(Protocol::Tcp(p))) => SocketAddr::from((ip, p)),
        _ => panic!("listen address"),
    }
}

fn config(cfg: u64) -> Config {
    Config {
        listen_addresses: vec!["/ip4/127.0.0.1/tcp/0".parse().unwrap()],
        reuse_port: false,
        // cfg >= 4: timeouts that fire within a case (an attempt is then ended by waiting)
        connection_open_timeout: if cfg >= 4 { Duration::from_millis(SHORT_TIMEOUT_MS) } else { Duration::from_secs(60) },
        substream_open_timeout: Duration::from_secs(60),
        max_parallel_dials: parallel(cfg),
        ..Default::default()
    }
}

async fn remote_task(mut t: VerifTcpTransport, mut rx: mpsc::UnboundedReceiver<Multiaddr>) {
    loop {
        tokio::select! {
            cmd = rx.recv() => match cmd {
                Some(addr) => {
                    let id = t.draw_connection_id();
                    let _ = t.dial(id, addr);
                }
                None => break,
            },
            ev = futures::future::poll_fn(|cx| t.poll_event(cx)) => match ev {
                Some(VerifTcpEvent::PendingInbound(id)) => {
                    let _ = t.accept_pending(id);
                }
                Some(_) => {}
                None => break,
            },
        }
    }
}

impl World {
    async fn new(resolver: &VerifResolver, cfg: u64) -> World {
        let (t, addrs) = VerifTcpTransport::new(Keypair::generate(), config(cfg), resolver).unwrap();
        let mut tasks = Vec::new();
        let mut node = || {
            let (r, raddrs) = VerifTcpTransport::new(Keypair::generate(), config(0), resolver).unwrap();
            let peer = r.local_peer_id();
            let (tx, rx) = mpsc::unbounded_channel();
            tasks.push(tokio::spawn(remote_task(r, rx)));
            (socket_of(&raddrs[0]), peer, tx)
        };
        let (a, b) = (node(), node());
        World {
            t,
            listen: socket_of(&addrs[0]),
            remote_listen: [a.0, b.0],
            remote_peer: [a.1, b.1],
            remote_cmd: [a.2, b.2],
            nobody: PeerId::random(),
            short: cfg >= 4,
            gates: Vec::new(),
            futs: Vec::new(),
            inbound_src: HashMap::new(),
            tasks,
        }
    }

    fn peer_index(&self, p: &PeerId) -> u64 {
        self.remote_peer.iter().position(|x| x == p).map(|i| i as u64).unwrap_or(9)
    }

    /// one address; its attempt record is appended to `attempts`
    fn address(&mut self, a: Addr, attempts: &mut Vec<Attempt>) -> Multiaddr {
        let (kind, named) = a;
        let tcp = |port: u16| {
            Multiaddr::empty()
                .with(Protocol::Ip4(std::net::Ipv4Addr::new(127, 0, 0, 1)))
                .with(Protocol::Tcp(port))
        };
        let name = |m: Multiaddr, w: &World| match named {
            0 => m,
            1 => m.with(Protocol::P2p(w.remote_peer[0].into())),
            2 => m.with(Protocol::P2p(w.remote_peer[1].into())),
            _ => m.with(Protocol::P2p(w.nobody.into())),
        };
        match kind {
            0 | 3 => {
                let node = if kind == 0 { 0 } else { 1 };
                let g = spawn_gate(self.remote_listen[node], &mut self.tasks);
                let port = g.port;
                self.gates.push(g);
                attempts.push(Attempt { gate: Some(self.gates.len() - 1), node: node as u64, named, over: false });
                name(tcp(port), self)
            }
            1 => {
                attempts.push(Attempt { gate: None, node: 0, named, over: false });
                name(tcp(closed_port()), self)
            }
            _ => {
                attempts.push(Attempt { gate: None, node: 0, named, over: false });
                Multiaddr::empty()
                    .with(Protocol::Ip4(std::net::Ipv4Addr::new(127, 0, 0, 1)))
                    .with(Protocol::Udp(4001))
            }
        }
    }

    /// poll_next until Pending
    async fn flush(&mut self) {
        tap(true);
        loop {
            let t = &mut self.t;
            let r = futures::future::poll_fn(|cx| Poll::Ready(t.poll_event(cx))).await;
            match r {
                Poll::Pending => break,
                Poll::Ready(None) => {
                    push_out(14, 0);
                    break;
                }
                Poll::Ready(Some(ev)) => match ev {
                    VerifTcpEvent::PendingInbound(c) => push_out(3, c as u64),
                    VerifTcpEvent::Opened(c) => push_out(4, c as u64),
                    VerifTcpEvent::OpenFailure(c) => push_out(5, c as u64),
                    VerifTcpEvent::Established(c, l, p) => push_out3(6 + l as u64, c as u64, self.peer_index(&p)),
                    VerifTcpEvent::DialFailure(c) => push_out(8, c as u64),
                    VerifTcpEvent::Closed(c) => push_out(13, c as u64),
                },
            }
        }
        tap(false);
    }

    /// poll until `done(state)`; `patient`: the completion is certain, its absence is recorded
    async fn wait(&mut self, patient: bool, done: impl Fn(&VerifTcpState, &[Out]) -> bool) {
        self.wait_for(patient, if patient { 20_000 } else { 60 }, done).await
    }

    /// `patient`: the completion is certain, its absence after `limit_ms` is recorded
    async fn wait_for(&mut self, patient: bool, limit_ms: u64, done: impl Fn(&VerifTcpState, &[Out]) -> bool) {
        let start = Instant::now();
        // once an answer went missing the run is failing anyway: do not spend 20 s on each further one
        let missed = MISSED.load(std::sync::atomic::Ordering::Relaxed);
        let limit = Duration::from_millis(if patient && missed > 0 { limit_ms.min(2_000) } else { limit_ms });
        loop {
            self.flush().await;
            let seen = OUTS.with(|o| done(&self.t.state(), &o.borrow()));
            if seen {
                break;
            }
            if start.elapsed() > limit {
                if patient {
                    push_out(12, 0);
                    MISSED.fetch_add(1, std::sync::atomic::Ordering::Relaxed);
                }
                break;
            }
            tokio::time::sleep(Duration::from_millis(1)).await;
        }
    }

    fn release(&mut self, g: usize, pass: bool) {
        if let Some(tx) = self.gates[g].release.take() {
            let _ = tx.send(pass);
        }
    }

    async fn apply(&mut self, ev: &Ev) {
        match ev {
            Ev::Draw => push_out(2, self.t.draw_connection_id() as u64),
            Ev::Dial(c, a) => {
                let mut attempts = Vec::new();
                let addr = self.address(*a, &mut attempts);
                tap(true);
                let ok = self.t.dial(*c as usize, addr);
                tap(false);
                push_out(1, ok as u64);
                if ok {
                    self.futs.push(Fut { kind: FKind::Dial, id: *c, attempts, sock: None, alive: Alive::Yes });
                }
            }
            Ev::Open(c, ks) => {
                let mut attempts = Vec::new();
                let addrs: Vec<Multiaddr> = ks.iter().map(|k| self.address(*k, &mut attempts)).collect();
                tap(true);
                let ok = self.t.open(*c as usize, addrs);
                tap(false);
                push_out(1, ok as u64);
                if ok {
                    // an earlier open with the same id loses its handle: what the transport does
                    // with that future is no longer known here
                    for f in self.futs.iter_mut() {
                        if f.kind == FKind::Raw && f.id == *c && f.alive == Alive::Yes {
                            f.alive = Alive::Unknown;
                        }
                    }
                    let dup = self.futs.iter().any(|f| f.kind == FKind::Raw && f.id == *c && f.alive != Alive::No);
                    self.futs.push(Fut {
                        kind: FKind::Raw,
                        id: *c,
                        attempts,
                        sock: None,
                        alive: if dup { Alive::Unknown } else { Alive::Yes },
                    });
                }
            }
            Ev::Negotiate(c) => {
                let ok = self.t.negotiate(*c as usize);
                push_out(1, ok as u64);
                if ok {
                    self.futs.push(Fut { kind: FKind::Neg, id: *c, attempts: Vec::new(), sock: None, alive: Alive::No });
                }
            }
            Ev::Cancel(c) => {
                let had = self.t.state().cancel_futures.iter().any(|x| x.0 == *c as usize);
                self.t.cancel(*c as usize);
                if had {
                    for f in self.futs.iter_mut() {
                        if f.kind == FKind::Raw && f.id == *c && f.alive == Alive::Yes {
                            f.alive = Alive::No;
                        }
                    }
                }
            }
            Ev::Accept(c) => match self.t.accept(*c as usize) {
                Some(fut) => {
                    push_out(1, 1);
                    let _ = tokio::time::timeout(Duration::from_secs(5), fut).await;
                }
                None => push_out(1, 0),
            },
            Ev::Reject(c) => push_out(1, self.t.reject(*c as usize) as u64),
            Ev::AcceptPending(c) => {
                let ok = self.t.accept_pending(*c as usize);
                push_out(1, ok as u64);
                if ok {
                    let (attempts, sock) = match self.inbound_src.remove(c) {
                        Some(InbSrc::Gate(g, node)) =>
                            (vec![Attempt { gate: Some(g), node, named: 0, over: false }], None),
                        Some(InbSrc::Sock(s)) => (vec![Attempt { gate: None, node: 0, named: 0, over: false }], Some(s)),
                        None => (Vec::new(), None),
                    };
                    self.futs.push(Fut { kind: FKind::Inb, id: *c, attempts, sock, alive: Alive::Yes });
                }
            }
            Ev::RejectPending(c) => {
                let ok = self.t.reject_pending(*c as usize);
                push_out(1, ok as u64);
                if ok {
                    self.inbound_src.remove(c);
                }
            }
            Ev::Poll => self.flush().await,
            Ev::Inbound(k) => {
                self.flush().await;
                let src = if *k != 1 {
                    let node = if *k == 0 { 0 } else { 1 };
                    let g = spawn_gate(self.listen, &mut self.tasks);
                    let addr = Multiaddr::empty()
                        .with(Protocol::Ip4(std::net::Ipv4Addr::new(127, 0, 0, 1)))
                        .with(Protocol::Tcp(g.port))
                        .with(Protocol::P2p(self.t.local_peer_id().into()));
                    self.gates.push(g);
                    let _ = self.remote_cmd[node].send(addr);
                    Some(InbSrc::Gate(self.gates.len() - 1, node as u64))
                } else {
                    TcpStream::connect(self.listen).await.ok().map(InbSrc::Sock)
                };
                self.wait(true, |_, outs| outs.iter().any(|o| o.0 == 3)).await;
                let id = OUTS.with(|o| o.borrow().iter().rev().find(|o| o.0 == 3).map(|o| o.1));
                if let (Some(id), Some(src)) = (id, src) {
                    self.inbound_src.insert(id, src);
                }
            }
            Ev::Ans(f, i, r) => {
                self.flush().await;
                let before = self.t.state();
                let Some(fut) = self.futs.get_mut(*f as usize) else {
                    return;
                };
                let (kind, alive, id) = (fut.kind, fut.alive, fut.id);
                let Some(att) = fut.attempts.get_mut(*i as usize) else {
                    return;
                };
                if att.over {
                    return;
                }
                att.over = true;
                let att = *att;
                // what the future does with the end of this attempt, by construction
                let wins = *r != 0 && att.good();
                let decisive = wins || fut.open_attempts() == 0;
                if decisive {
                    fut.alive = Alive::No;
                }
                if *r == 0 {
                    // a bare inbound socket can only go away
                    drop(fut.sock.take());
                }
                if let Some(g) = att.gate {
                    // with short timeouts a failing attempt is not closed: its timeout ends it
                    if !(self.short && *r == 0) {
                        self.release(g, *r != 0);
                    }
                }
                // the future is consumed: an output that names its id, or one future less
                let named = move |outs: &[Out], tags: &[u64]| outs.iter().any(|o| o.1 == id && tags.contains(&o.0));
                // an attempt that passes although it should not win is given a moment to show it
                let patient = decisive && alive == Alive::Yes;
                if kind == FKind::Neg || alive == Alive::No || (!decisive && *r == 0) {
                    return;
                }
                // certain: up to 20 s, then recorded as missing; a future this harness lost track of
                // (two opens with one id): long enough for a handshake; an attempt that should not
                // win: a moment
                let limit = if patient { 20_000 } else if decisive { 800 } else { 60 };
                match kind {
                    FKind::Raw => {
                        let n = before.pending_raw_connections;
                        self.wait_for(patient, limit, move |s, o| named(o, &[4, 5, 9]) || s.pending_raw_connections < n).await
                    }
                    _ => {
                        let n = before.pending_connections;
                        self.wait_for(patient, limit, move |s, o| named(o, &[6, 7, 8, 11]) || s.pending_connections < n).await
                    }
                }
            }
            Ev::Expire(f) => {
                // the overall deadline of an open: nothing to do but wait for it
                self.flush().await;
                let before = self.t.state();
                let Some(fut) = self.futs.get_mut(*f as usize) else {
                    return;
                };
                if fut.kind != FKind::Raw || fut.alive != Alive::Yes || !self.short {
                    return;
                }
                fut.alive = Alive::No;
                let id = fut.id;
                let n = before.pending_raw_connections;
                self.wait(true, move |s, o| o.iter().any(|x| x.1 == id && [4, 5, 9].contains(&x.0)) || s.pending_raw_connections < n)
                    .await
            }
        }
    }

    fn dump(&self, out: &mut Vec<u64>) {
        let s = self.t.state();
        let set = |out: &mut Vec<u64>, v: &[usize]| {
            out.push(v.len() as u64);
            out.extend(v.iter().map(|x| *x as u64));
        };
        out.push(s.next_connection_id as u64);
        set(out, &s.pending_dials);
        set(out, &s.pending_inbound_connections);
        out.push(s.pending_raw_connections as u64);
        out.push(s.pending_connections as u64);
        set(out, &s.opened);
        out.push(s.cancel_futures.len() as u64);
        for (c, a) in &s.cancel_futures {
            out.extend([*c as u64, *a as u64]);
        }
        set(out, &s.pending_open);
    }

    /// one step: returns the outputs (for the generator) after appending the group to the trace
    async fn step(&mut self, ev: &Ev, trace: &mut Vec<u64>) -> Vec<Out> {
        let _ = take_outs();
        self.apply(ev).await;
        let outs = take_outs();
        trace.push(outs.len() as u64);
        for (t, v, w) in &outs {
            trace.extend([*t, *v, *w]);
        }
        self.dump(trace);
        outs
    }

    fn shutdown(self) {
        for t in &self.tasks {
            t.abort();
        }
    }
}

// ---------- generator ----------
/// What the generator remembers of the run (from the real outputs only).
#[derive(Default)]
struct Know {
    drawn: Vec<u64>,
    used: Vec<u64>,
    opening: Vec<u64>,
    opened: Vec<u64>,
    established: Vec<u64>,
    inbound: Vec<u64>,
}

fn pick_or(rng: &mut Rng, xs: &[u64], noisy: bool) -> Option<u64> {
    if noisy && rng.chance(25) {
        return Some(rng.below(12));
    }
    if xs.is_empty() {
        None
    } else {
        Some(xs[rng.below(xs.len() as u64) as usize])
    }
}

fn gen_addr(rng: &mut Rng, gate_only: bool) -> Addr {
    let kind = if gate_only { rng.pick(&[0, 0, 3]) } else { rng.pick(&[0, 0, 0, 0, 3, 3, 1, 1, 2]) };
    let named = match kind {
        0 => rng.pick(&[1, 1, 1, 1, 1, 1, 1, 2, 2, 0, 3]),
        3 => rng.pick(&[2, 2, 2, 2, 2, 1, 1, 1, 0, 3]),
        _ => rng.pick(&[1, 1, 2, 0]),
    };
    (kind, named)
}

fn parallel(cfg: u64) -> usize {
    match cfg % 4 {
        0 => 8,
        k => k as usize,
    }
}

/// the attempts of future f that can be ended now through their gate: `open` runs at most
/// `max_parallel_dials` attempts at a time, in the order of the addresses
fn gate_attempts(f: &Fut, cfg: u64) -> Vec<usize> {
    f.attempts
        .iter()
        .enumerate()
        .filter(|(_, a)| !a.over)
        .take(parallel(cfg))
        .filter(|(_, a)| a.gate.is_some() || f.sock.is_some())
        .map(|(i, _)| i)
        .collect()
}

/// Cases in which the timeouts fire (connection_open_timeout = 250 ms): one future at a time, ended
/// by waiting — a held attempt of an open / a dial times out (`Ans f i 0`), or three held addresses
/// tried one after the other run into the overall deadline of the open (`Expire f`).
async fn run_timeouts(resolver: &VerifResolver, rng: &mut Rng) -> (Vec<u64>, Vec<u64>) {
    let cfg = 5; // short timeouts, max_parallel_dials = 1
    let mut w = World::new(resolver, cfg).await;
    let mut evs: Vec<Ev> = Vec::new();
    let mut id = 0u64;
    let mut f = 0u64;
    for _ in 0..rng.range(1, 2) {
        match rng.below(3) {
            0 => evs.extend([Ev::Draw, Ev::Dial(id, (0, 1)), Ev::Poll, Ev::Ans(f, 0, 0)]),
            1 => evs.extend([Ev::Draw, Ev::Open(id, vec![(0, 1)]), Ev::Poll, Ev::Ans(f, 0, 0)]),
            _ => evs.extend([Ev::Draw, Ev::Open(id, vec![(0, 1), (3, 2), (0, 1)]), Ev::Poll, Ev::Expire(f)]),
        }
        id += 1;
        f += 1;
    }
    evs.push(Ev::Poll);
    let mut case = vec![STREAM_TAG, cfg, evs.len() as u64];
    let mut trace = vec![1u64];
    for ev in &evs {
        ev.encode(&mut case);
        w.step(ev, &mut trace).await;
    }
    w.shutdown();
    (case, trace)
}

async fn run_generated(resolver: &VerifResolver, rng: &mut Rng, thorough: bool) -> (Vec<u64>, Vec<u64>) {
    if rng.chance(3) {
        return run_timeouts(resolver, rng).await;
    }
    let cfg = rng.below(4);
    let noisy = rng.chance(15);
    let n = if thorough { rng.range(8, 70) } else { rng.range(5, 40) };
    let mut w = World::new(resolver, cfg).await;
    let mut k = Know::default();
    let mut case = vec![STREAM_TAG, cfg, 0];
    let mut trace = vec![1u64];
    let mut count = 0u64;
    // steps that must follow at once (an attempt that ends by itself, the manager's
    // cancel + negotiate after ConnectionOpened, the poll after a call)
    let mut forced: Vec<Ev> = Vec::new();
    let mut settle = false;
    while count < n + 80 {
        let ev = if !forced.is_empty() {
            forced.remove(0)
        } else if count >= n || settle {
            // settle: end what is still pending, then stop
            settle = true;
            match w.futs.iter().position(|f| f.alive == Alive::Yes && !gate_attempts(f, cfg).is_empty()) {
                Some(f) => {
                    let i = gate_attempts(&w.futs[f], cfg)[0];
                    let a = w.futs[f].attempts[i];
                    let pass = a.gate.is_some() && rng.chance(60);
                    Ev::Ans(f as u64, i as u64, if pass { 1 + a.node } else { 0 })
                }
                None => break,
            }
        } else {
            let roll = rng.below(100);
            let alive: Vec<u64> = w
                .futs
                .iter()
                .enumerate()
                .filter(|(_, f)| f.alive != Alive::No && !gate_attempts(f, cfg).is_empty())
                .map(|(i, _)| i as u64)
                .collect();
            match roll {
                0..=17 => {
                    // open with a fresh id (sometimes a used / never drawn one)
                    let id = if noisy && rng.chance(30) { pick_or(rng, &k.used, true) } else { None };
                    // without a gate at most one address (its end is then the end of the future)
                    let kinds: Vec<Addr> = match rng.below(12) {
                        0 => Vec::new(),
                        1 | 2 => vec![gen_addr(rng, false)],
                        _ => {
                            let mut v = vec![gen_addr(rng, true)];
                            for _ in 0..rng.below(4) {
                                v.push(gen_addr(rng, false));
                            }
                            // any order
                            let r = rng.below(v.len() as u64) as usize;
                            v.swap(0, r);
                            v
                        }
                    };
                    match id {
                        Some(id) => Ev::Open(id, kinds),
                        None => {
                            forced.push(Ev::Open(u64::MAX, kinds));
                            Ev::Draw
                        }
                    }
                }
                18..=29 => {
                    let a = gen_addr(rng, false);
                    if noisy && rng.chance(30) {
                        match pick_or(rng, &k.used, true) {
                            Some(id) => Ev::Dial(id, a),
                            None => Ev::Draw,
                        }
                    } else {
                        forced.push(Ev::Dial(u64::MAX, a));
                        Ev::Draw
                    }
                }
                30..=38 => Ev::Inbound(rng.pick(&[0, 0, 0, 2, 2, 1])),
                39..=66 => match pick_or(rng, &alive, false) {
                    Some(f) => {
                        let ga = gate_attempts(&w.futs[f as usize], cfg);
                        let i = ga[rng.below(ga.len() as u64) as usize];
                        let a = w.futs[f as usize].attempts[i];
                        let pass = a.gate.is_some() && rng.chance(70);
                        Ev::Ans(f, i as u64, if pass { 1 + a.node } else { 0 })
                    }
                    None => Ev::Inbound(rng.pick(&[0, 0, 2, 1])),
                },
                67..=73 => match pick_or(rng, &k.opening, noisy) {
                    Some(c) => Ev::Cancel(c),
                    None => Ev::Draw,
                },
                74..=78 => match pick_or(rng, &k.opened, noisy) {
                    Some(c) => {
                        if rng.chance(40) {
                            Ev::Cancel(c)
                        } else {
                            Ev::Negotiate(c)
                        }
                    }
                    None => Ev::Poll,
                },
                79..=86 => match pick_or(rng, &k.inbound, noisy) {
                    Some(c) => {
                        if rng.chance(75) {
                            Ev::AcceptPending(c)
                        } else {
                            Ev::RejectPending(c)
                        }
                    }
                    None => Ev::Inbound(0),
                },
                87..=94 => match pick_or(rng, &k.established, noisy) {
                    Some(c) => {
                        if rng.chance(60) {
                            Ev::Accept(c)
                        } else {
                            Ev::Reject(c)
                        }
                    }
                    None => Ev::Poll,
                },
                95..=96 if noisy => Ev::Ans(w.futs.len() as u64 + rng.below(2), rng.below(3), rng.below(3)),
                _ => Ev::Poll,
            }
        };
        // ids drawn for a forced dial / open
        let ev = match ev {
            Ev::Open(u64::MAX, ks) => Ev::Open(k.drawn.pop().unwrap_or(0), ks),
            Ev::Dial(u64::MAX, a) => Ev::Dial(k.drawn.pop().unwrap_or(0), a),
            e => e,
        };
        ev.encode(&mut case);
        count += 1;
        let nf = w.futs.len();
        let outs = w.step(&ev, &mut trace).await;
        // observe
        for (t, v, _) in &outs {
            match t {
                2 => k.drawn.push(*v),
                3 => k.inbound.push(*v),
                4 => {
                    k.opening.retain(|x| x != v);
                    k.opened.push(*v);
                    if !settle && rng.chance(80) {
                        // what the manager does on ConnectionOpened: cancel, negotiate, no poll between
                        if rng.chance(70) {
                            forced.push(Ev::Cancel(*v));
                        }
                        forced.push(Ev::Negotiate(*v));
                    }
                }
                5 => k.opening.retain(|x| x != v),
                6 | 7 => k.established.push(*v),
                _ => {}
            }
        }
        match &ev {
            Ev::Open(c, _) => {
                k.used.push(*c);
                k.opening.push(*c);
            }
            Ev::Dial(c, _) => k.used.push(*c),
            Ev::Negotiate(c) => k.opened.retain(|x| x != c),
            Ev::Accept(c) | Ev::Reject(c) => k.established.retain(|x| x != c),
            Ev::AcceptPending(c) | Ev::RejectPending(c) => k.inbound.retain(|x| x != c),
            Ev::Cancel(c) => {
                if rng.chance(80) {
                    k.opening.retain(|x| x != c)
                }
            }
            _ => {}
        }
        if w.futs.len() > nf && matches!(w.futs[nf].kind, FKind::Raw | FKind::Dial) {
            // the attempts that end by themselves as soon as they are polled: the next steps say so
            let f = nf as u64;
            let auto: Vec<u64> = w.futs[nf].attempts.iter().enumerate().filter(|(_, a)| a.gate.is_none()).map(|(i, _)| i as u64).collect();
            let all_auto = auto.len() == w.futs[nf].attempts.len();
            let mut next = Vec::new();
            match &ev {
                Ev::Open(c, _) if all_auto && rng.chance(25) => {
                    next.push(Ev::Cancel(*c));
                    next.push(Ev::Poll);
                }
                Ev::Open(..) if auto.is_empty() && w.futs[nf].attempts.is_empty() => next.push(Ev::Poll),
                _ => {
                    for i in auto {
                        next.push(Ev::Ans(f, i, 0));
                    }
                }
            }
            if !next.is_empty() {
                next.extend(forced.drain(..));
                forced = next;
            }
        }
        if forced.is_empty() && !matches!(ev, Ev::Poll | Ev::Ans(..) | Ev::Inbound(_) | Ev::Draw | Ev::Expire(_)) && rng.chance(85) {
            forced.push(Ev::Poll);
        }
    }
    if forced.is_empty() {
        // closing poll and dump
        let ev = Ev::Poll;
        ev.encode(&mut case);
        count += 1;
        w.step(&ev, &mut trace).await;
    }
    case[2] = count;
    w.shutdown();
    (case, trace)
}

async fn run_stored_async(resolver: &VerifResolver, c: &[u64]) -> Vec<u64> {
    if c.len() < 3 || c[0] != STREAM_TAG {
        return vec![0];
    }
    let mut evs = Vec::new();
    let mut i = 3;
    for _ in 0..c[2] {
        match Ev::decode(c, &mut i) {
            Some(e) => evs.push(e),
            None => return vec![0],
        }
    }
    if i != c.len() {
        return vec![0];
    }
    let mut w = World::new(resolver, c[1]).await;
    let mut trace = vec![1u64];
    for ev in &evs {
        w.step(ev, &mut trace).await;
    }
    w.shutdown();
    trace
}

pub struct Tcp {
    resolver: VerifResolver,
}

impl Tcp {
    pub fn new(rt: &Runtime) -> Tcp {
        let _g = rt.enter();
        install_log_tap();
        Tcp { resolver: VerifResolver::new().expect("resolver") }
    }
    pub fn is_tcp_case(c: &[u64]) -> bool {
        c.first() == Some(&STREAM_TAG)
    }
    pub fn run_stored(&self, rt: &Runtime, c: &[u64]) -> Vec<u64> {
        rt.block_on(run_stored_async(&self.resolver, c))
    }
    pub fn run_generated(&self, rt: &Runtime, rng: &mut Rng, thorough: bool) -> (Vec<u64>, Vec<u64>) {
        rt.block_on(run_generated(&self.resolver, rng, thorough))
    }
}
