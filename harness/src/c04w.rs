//! C04, kinds 50 / 51 (only in the crate built with litep2p's webrtc feature, tools/c04_extra_streams.sh): the real
//! substream::Substream of the WebRTC substream type over the real webrtc::Substream; the harness plays the
//! connection side through the SubstreamHandle (formats: coq/C04/GlueWebRtc.v). Everything is polled by hand;
//! a tokio runtime is entered only because the handle arms a timer when it starts the half close.
use crate::c04::{err_code, mk_msg, poll_code, rle, Cur, HarnessWake, MAX_LEN, PANIC};
use crate::util::Rng;
use bytes::Bytes;
use futures::{Sink, Stream};
use litep2p::{
    codec::ProtocolCodec,
    error::SubstreamError,
    substream::verif_substream_over_webrtc,
    transport::webrtc::verif::{SchemaFlag, SubstreamHandle, WebRtcMessage},
};
use std::{
    future::Future,
    panic::{catch_unwind, AssertUnwindSafe},
    pin::Pin,
    sync::Arc,
    task::{Context, Poll},
};

fn parse_codec(tag: u64, arg: u64) -> Option<ProtocolCodec> {
    Some(match tag {
        0 if arg <= MAX_LEN => ProtocolCodec::Identity(arg as usize),
        1 if arg == 0 => ProtocolCodec::UnsignedVarint(None),
        2 => ProtocolCodec::UnsignedVarint(Some(arg as usize)),
        _ => return None,
    })
}

#[derive(Clone, Copy, Debug)]
enum REnv {
    Poll(u64),
    FinAck,
    Stop,
    Reset,
}

fn parse_renv(cur: &mut Cur) -> Option<REnv> {
    Some(match cur.next()? {
        0 => {
            let k = cur.next()?;
            if k > 2000 {
                return None;
            }
            REnv::Poll(k)
        }
        1 => REnv::FinAck,
        2 => REnv::Stop,
        3 => REnv::Reset,
        _ => return None,
    })
}

/// what came out of the handle
#[derive(Default)]
struct Seen {
    lens: Vec<usize>,
    data: Vec<u8>,
    fin: bool,
    ended: bool,
}

fn on_message(handle: &mut SubstreamHandle, cx: &mut Context<'_>, payload: Option<Vec<u8>>, flag: Option<SchemaFlag>) {
    let mut fut = Box::pin(handle.on_message(WebRtcMessage { payload, flag }));
    // on_message never waits
    let _ = fut.as_mut().poll(cx);
}

fn apply(handle: &mut SubstreamHandle, seen: &mut Seen, cx: &mut Context<'_>, e: REnv) {
    match e {
        REnv::Poll(k) => {
            for _ in 0..k {
                if seen.ended {
                    break;
                }
                match Pin::new(&mut *handle).poll_next(cx) {
                    Poll::Pending => break,
                    Poll::Ready(None) => {
                        seen.ended = true;
                        break;
                    }
                    Poll::Ready(Some(m)) => match m.flag {
                        None => {
                            seen.lens.push(m.payload.len());
                            seen.data.extend_from_slice(&m.payload);
                        }
                        Some(SchemaFlag::Fin) => seen.fin = true,
                        Some(_) => {}
                    },
                }
            }
        }
        REnv::FinAck => on_message(handle, cx, None, Some(SchemaFlag::FinAck)),
        REnv::Stop => on_message(handle, cx, None, Some(SchemaFlag::StopSending)),
        REnv::Reset => on_message(handle, cx, None, Some(SchemaFlag::ResetStream)),
    }
}

enum WOp {
    Ready,
    StartSend(u8, usize),
    Flush,
    SendFramed(u8, usize),
    PollClose,
    CloseAll,
    Env(REnv),
}

fn run_writer(c: &[u64]) -> Vec<u64> {
    let mut cur = Cur(c, 0);
    let parsed = (|| {
        if cur.next()? != 50 {
            return None;
        }
        let tag = cur.next()?;
        let arg = cur.next()?;
        let codec = parse_codec(tag, arg)?;
        let nops = cur.count()?;
        let mut ops = Vec::new();
        for _ in 0..nops {
            ops.push(match cur.next()? {
                0 => WOp::Ready,
                t @ (1 | 3) => {
                    let b = cur.next()?;
                    let len = cur.next()?;
                    if b > 255 || len > MAX_LEN {
                        return None;
                    }
                    if t == 1 { WOp::StartSend(b as u8, len as usize) } else { WOp::SendFramed(b as u8, len as usize) }
                }
                2 => WOp::Flush,
                4 => WOp::PollClose,
                5 => WOp::CloseAll,
                6 => WOp::Env(parse_renv(&mut cur)?),
                _ => return None,
            });
        }
        if ops.iter().rev().skip(1).any(|o| matches!(o, WOp::CloseAll)) {
            return None;
        }
        let nw = cur.count()?;
        let mut wakes = std::collections::VecDeque::new();
        for _ in 0..nw {
            wakes.push_back(parse_renv(&mut cur)?);
        }
        if cur.1 != c.len() {
            return None;
        }
        Some((codec, ops, wakes))
    })();
    let Some((codec, ops, mut wakes)) = parsed else { return vec![0] };
    let waker = futures::task::waker(Arc::new(HarnessWake));
    let mut cx = Context::from_waker(&waker);
    let r = catch_unwind(AssertUnwindSafe(|| {
        let mut out = vec![7u64];
        let (sub, mut handle) = verif_substream_over_webrtc(codec, 3);
        let mut sub = Some(sub);
        let mut seen = Seen::default();
        let mut stopped = false;
        for op in &ops {
            let mut one = |p: Poll<Result<(), SubstreamError>>| vec![poll_code(p)];
            let head: Vec<u64> = match op {
                WOp::Ready => one(Sink::<Bytes>::poll_ready(Pin::new(sub.as_mut().unwrap()), &mut cx)),
                WOp::Flush => one(Sink::<Bytes>::poll_flush(Pin::new(sub.as_mut().unwrap()), &mut cx)),
                WOp::PollClose => one(Sink::<Bytes>::poll_close(Pin::new(sub.as_mut().unwrap()), &mut cx)),
                WOp::StartSend(b, len) =>
                    match Sink::<Bytes>::start_send(Pin::new(sub.as_mut().unwrap()), mk_msg(*b, *len)) {
                        Ok(()) => vec![1],
                        Err(e) => vec![err_code(&e)],
                    },
                WOp::SendFramed(b, len) => {
                    let mut fut = Box::pin(sub.as_mut().unwrap().send_framed(mk_msg(*b, *len)));
                    let mut npend = 0u64;
                    loop {
                        match fut.as_mut().poll(&mut cx) {
                            Poll::Ready(Ok(())) => break vec![1, npend],
                            Poll::Ready(Err(e)) => break vec![err_code(&e), npend],
                            Poll::Pending => {
                                npend += 1;
                                match wakes.pop_front() {
                                    Some(e) => apply(&mut handle, &mut seen, &mut cx, e),
                                    None => {
                                        stopped = true;
                                        break vec![0, npend];
                                    }
                                }
                            }
                        }
                    }
                }
                WOp::CloseAll => {
                    let mut fut = Box::pin(sub.take().unwrap().close());
                    let mut npend = 0u64;
                    loop {
                        match fut.as_mut().poll(&mut cx) {
                            Poll::Ready(()) => break vec![1, npend],
                            Poll::Pending => {
                                npend += 1;
                                match wakes.pop_front() {
                                    Some(e) => apply(&mut handle, &mut seen, &mut cx, e),
                                    None => {
                                        stopped = true;
                                        break vec![0, npend];
                                    }
                                }
                            }
                        }
                    }
                }
                WOp::Env(e) => {
                    apply(&mut handle, &mut seen, &mut cx, *e);
                    vec![]
                }
            };
            out.extend(head);
            if !matches!(op, WOp::Env(..) | WOp::CloseAll) {
                let (pbytes, frames, cur, ..) = sub.as_ref().unwrap().verif_state();
                out.push(pbytes as u64);
                out.push(frames.len() as u64);
                out.extend(frames.iter().map(|l| *l as u64));
                out.push(cur.map(|l| l as u64 + 1).unwrap_or(0));
            }
            out.push(seen.lens.len() as u64);
            if stopped {
                break;
            }
        }
        // the connection side takes whatever it still can (the Substream, when it is still there, is kept alive)
        apply(&mut handle, &mut seen, &mut cx, REnv::Poll(1000));
        out.push(stopped as u64);
        out.push(seen.lens.len() as u64);
        out.extend(seen.lens.iter().map(|l| *l as u64));
        rle(&mut out, &seen.data);
        out.push(seen.fin as u64);
        drop(sub);
        out
    }));
    r.unwrap_or(vec![7, PANIC])
}

fn run_reader(c: &[u64]) -> Vec<u64> {
    let mut cur = Cur(c, 0);
    let parsed = (|| {
        if cur.next()? != 51 {
            return None;
        }
        let tag = cur.next()?;
        let arg = cur.next()?;
        let codec = parse_codec(tag, arg)?;
        let nraw = cur.count()?;
        let mut wire = Vec::new();
        for _ in 0..nraw {
            let b = cur.next()?;
            let k = cur.next()?;
            if b > 255 || k > MAX_LEN {
                return None;
            }
            wire.extend(std::iter::repeat(b as u8).take(k as usize));
        }
        if wire.len() > 200_000 {
            return None;
        }
        let nsteps = cur.count()?;
        let mut steps = Vec::new();
        for _ in 0..nsteps {
            steps.push(match cur.next()? {
                0 => {
                    let k = cur.next()?;
                    let f = cur.next()?;
                    if k > 100_000 || f > 1 {
                        return None;
                    }
                    (0u64, k as usize, f == 1)
                }
                2 => (2, 0, false),
                3 => (3, 0, false),
                4 => {
                    let n = cur.next()?;
                    if n > 600 {
                        return None;
                    }
                    (4, n as usize, false)
                }
                _ => return None,
            });
        }
        if cur.1 != c.len() {
            return None;
        }
        Some((codec, wire, steps))
    })();
    let Some((codec, wire, steps)) = parsed else { return vec![0] };
    let waker = futures::task::waker(Arc::new(HarnessWake));
    let mut cx = Context::from_waker(&waker);
    let r = catch_unwind(AssertUnwindSafe(|| {
        let mut out = vec![8u64];
        let (mut sub, mut handle) = verif_substream_over_webrtc(codec, 4);
        let mut pos = 0usize;
        for (t, k, fin) in steps {
            match t {
                0 => {
                    let k = k.min(wire.len() - pos);
                    let flag = if fin { Some(SchemaFlag::Fin) } else { None };
                    on_message(&mut handle, &mut cx, Some(wire[pos..pos + k].to_vec()), flag);
                    pos += k;
                }
                3 => on_message(&mut handle, &mut cx, None, Some(SchemaFlag::ResetStream)),
                4 => {
                    for _ in 0..k {
                        if pos < wire.len() {
                            on_message(&mut handle, &mut cx, Some(vec![wire[pos]]), None);
                            pos += 1;
                        }
                    }
                }
                _ => {
                    match Stream::poll_next(Pin::new(&mut sub), &mut cx) {
                        Poll::Pending => out.push(0),
                        Poll::Ready(None) => out.push(1),
                        Poll::Ready(Some(Ok(frame))) => {
                            out.push(2);
                            rle(&mut out, &frame);
                        }
                        Poll::Ready(Some(Err(SubstreamError::ReadFailure(_)))) => out.push(3),
                        Poll::Ready(Some(Err(_))) => out.push(4),
                    }
                    let (_, _, _, buf_len, offset, cur, _) = sub.verif_state();
                    out.extend([buf_len as u64, offset as u64, cur.map(|x| x as u64 + 1).unwrap_or(0)]);
                }
            }
        }
        out
    }));
    r.unwrap_or(vec![8, PANIC])
}

// ---------------------------------------------------------------- kinds 60..62: the QUIC substream type, end to end

mod quic {
    use super::*;
    use futures::{SinkExt, StreamExt};
    use litep2p::{
        config::ConfigBuilder,
        crypto::ed25519::Keypair,
        protocol::{Direction, TransportEvent, TransportService, UserProtocol},
        substream::Substream,
        transport::quic::config::Config as QuicConfig,
        types::protocol::ProtocolName,
        Litep2p, Litep2pEvent, PeerId,
    };
    use std::{
        sync::{Mutex, OnceLock},
        time::Duration,
    };
    use tokio::sync::mpsc;

    /// the codecs the two nodes have a protocol for
    pub const CODECS: [(u64, u64); 12] = [
        (0, 1), (0, 10), (0, 1024), (0, 1025), (0, 2048), (0, 70000), (1, 0), (2, 1), (2, 128), (2, 16384), (2, 70000),
        (2, 2097152),
    ];

    struct Proto {
        name: ProtocolName,
        codec: ProtocolCodec,
        cmd: mpsc::UnboundedReceiver<PeerId>,
        out: mpsc::UnboundedSender<(bool, Substream)>,
        /// an open request that came before this protocol had heard of the connection
        pending: Option<PeerId>,
    }

    #[async_trait::async_trait]
    impl UserProtocol for Proto {
        fn protocol(&self) -> ProtocolName {
            self.name.clone()
        }
        fn codec(&self) -> ProtocolCodec {
            self.codec
        }
        async fn run(mut self: Box<Self>, mut service: TransportService) -> litep2p::Result<()> {
            loop {
                tokio::select! {
                    ev = service.next() => match ev {
                        None => return Ok(()),
                        Some(TransportEvent::SubstreamOpened { direction, substream, .. }) => {
                            let _ = self.out.send((matches!(direction, Direction::Inbound), substream));
                        }
                        Some(TransportEvent::ConnectionEstablished { peer, .. }) => {
                            if self.pending == Some(peer) && service.open_substream(peer).is_ok() {
                                self.pending = None;
                            }
                        }
                        Some(_) => {}
                    },
                    c = self.cmd.recv() => match c {
                        None => return Ok(()),
                        Some(peer) => {
                            if service.open_substream(peer).is_err() {
                                self.pending = Some(peer);
                            }
                        }
                    },
                }
            }
        }
    }

    pub struct Rig {
        rt: tokio::runtime::Runtime,
        peer_b: PeerId,
        open: Vec<mpsc::UnboundedSender<PeerId>>,
        subs_a: Vec<mpsc::UnboundedReceiver<(bool, Substream)>>,
        subs_b: Vec<mpsc::UnboundedReceiver<(bool, Substream)>>,
        /// a case could not get its pair of substreams: the following ones fail at once instead of waiting
        broken: bool,
    }

    fn node(
        rt: &tokio::runtime::Runtime,
    ) -> (PeerId, multiaddr::Multiaddr, Vec<mpsc::UnboundedSender<PeerId>>, Vec<mpsc::UnboundedReceiver<(bool, Substream)>>,
          mpsc::UnboundedSender<multiaddr::Multiaddr>, mpsc::UnboundedReceiver<()>) {
        let (tx, rx) = std::sync::mpsc::channel();
        let (dial_tx, mut dial_rx) = mpsc::unbounded_channel::<multiaddr::Multiaddr>();
        let (up_tx, up_rx) = mpsc::unbounded_channel::<()>();
        rt.spawn(async move {
            let mut builder = ConfigBuilder::new()
                .with_keypair(Keypair::generate())
                .with_keep_alive_timeout(Duration::from_secs(3600))
                .with_quic(QuicConfig {
                    listen_addresses: vec!["/ip4/127.0.0.1/udp/0/quic-v1".parse().unwrap()],
                    ..Default::default()
                });
            let mut open = Vec::new();
            let mut subs = Vec::new();
            for (i, (tag, arg)) in CODECS.iter().enumerate() {
                let (ctx, crx) = mpsc::unbounded_channel();
                let (stx, srx) = mpsc::unbounded_channel();
                builder = builder.with_user_protocol(Box::new(Proto {
                    name: ProtocolName::from(format!("/c04/quic/{i}")),
                    codec: parse_codec(*tag, *arg).unwrap(),
                    cmd: crx,
                    out: stx,
                    pending: None,
                }));
                open.push(ctx);
                subs.push(srx);
            }
            let mut litep2p = Litep2p::new(builder.build()).unwrap();
            let peer = *litep2p.local_peer_id();
            let addr = litep2p.listen_addresses().next().unwrap().clone();
            tx.send((peer, addr, open, subs)).unwrap();
            loop {
                tokio::select! {
                    ev = litep2p.next_event() => match ev {
                        Some(Litep2pEvent::ConnectionEstablished { .. }) => { let _ = up_tx.send(()); }
                        Some(_) => {}
                        None => break,
                    },
                    a = dial_rx.recv() => match a {
                        Some(a) => {
                            if let Err(e) = litep2p.dial_address(a.clone()).await {
                                eprintln!("C04 quic: dial {a} failed: {e:?}");
                            }
                        }
                        None => break,
                    },
                }
            }
        });
        let (peer, addr, open, subs) = rx.recv().unwrap();
        (peer, addr, open, subs, dial_tx, up_rx)
    }

    pub fn rig() -> &'static Mutex<Option<Rig>> {
        static RIG: OnceLock<Mutex<Option<Rig>>> = OnceLock::new();
        RIG.get_or_init(|| {
            let rt = tokio::runtime::Builder::new_multi_thread().worker_threads(2).enable_all().build().unwrap();
            let (_pa, _aa, open_a, subs_a, dial_a, mut up_a) = node(&rt);
            let (pb, ab, _open_b, subs_b, _dial_b, _up_b) = node(&rt);
            let ab = ab.to_string();
            let target: multiaddr::Multiaddr =
                if ab.contains("/p2p/") { ab.parse().unwrap() } else { format!("{ab}/p2p/{pb}").parse().unwrap() };
            let _ = dial_a.send(target);
            let ok = rt.block_on(async { tokio::time::timeout(Duration::from_secs(20), up_a.recv()).await.is_ok() });
            // the dial channel must stay open for the node's loop
            std::mem::forget(dial_a);
            std::mem::forget(_dial_b);
            std::mem::forget(_open_b);
            Mutex::new(if ok { Some(Rig { rt, peer_b: pb, open: open_a, subs_a, subs_b, broken: false }) } else { None })
        })
    }

    pub fn run(c: &[u64]) -> Vec<u64> {
        let mut cur = Cur(c, 0);
        let parsed = (|| {
            let t = cur.next()?;
            let arg = cur.next()?;
            if !(60..=62).contains(&t) {
                return None;
            }
            let idx = CODECS.iter().position(|x| *x == (t - 60, arg))?;
            let nops = cur.count()?;
            let mut ops = Vec::new();
            for _ in 0..nops {
                ops.push(match cur.next()? {
                    t @ (1 | 3) => {
                        let b = cur.next()?;
                        let len = cur.next()?;
                        if b > 255 || len > MAX_LEN {
                            return None;
                        }
                        (t, b as u8, len as usize)
                    }
                    2 => (2, 0, 0),
                    4 => (4, 0, 0),
                    _ => return None,
                });
            }
            let z1 = cur.next()?;
            let z2 = cur.next()?;
            if z1 > 1_000_000 || z2 > 1 || cur.next()? != 0 || cur.next()? != 0 {
                return None;
            }
            if cur.1 != c.len() {
                return None;
            }
            Some((idx, ops))
        })();
        let Some((idx, ops)) = parsed else { return vec![0] };
        let mut guard = rig().lock().unwrap();
        let Some(rig) = guard.as_mut() else { eprintln!("C04 quic: no connection"); return vec![11, PANIC] };
        if rig.broken {
            return vec![11, PANIC];
        }
        let limit = Duration::from_secs(30);
        let peer_b = rig.peer_b;
        let _ = rig.open[idx].send(peer_b);
        let (rx_a, rx_b) = (&mut rig.subs_a[idx], &mut rig.subs_b[idx]);
        let t = rig.rt.block_on(async move {
            let mut out = vec![11u64];
            let dialer = match tokio::time::timeout(limit, rx_a.recv()).await {
                Ok(Some((false, s))) => s,
                other => { eprintln!("C04 quic: no outbound substream: {:?}", other.map(|x| x.map(|y| y.0))); return vec![11, PANIC] }
            };
            let listener = match tokio::time::timeout(limit, rx_b.recv()).await {
                Ok(Some((true, s))) => s,
                other => { eprintln!("C04 quic: no inbound substream: {:?}", other.map(|x| x.map(|y| y.0))); return vec![11, PANIC] }
            };
            let mut dialer = dialer;
            // as in c04::run_e2e: more frames than messages offered ends the reader (code 6), a timed-out operation ends the writer
            let max_frames = ops.iter().filter(|o| o.0 == 1 || o.0 == 3).count();
            let reader = tokio::spawn(async move {
                let mut sub = listener;
                let mut frames: Vec<Vec<u8>> = Vec::new();
                loop {
                    match tokio::time::timeout(limit, sub.next()).await {
                        Ok(Some(Ok(f))) => {
                            frames.push(f.to_vec());
                            if frames.len() > max_frames {
                                return (frames, 6u64);
                            }
                        }
                        Ok(None) => return (frames, 1u64),
                        Ok(Some(Err(SubstreamError::ReadFailure(_)))) => return (frames, 3),
                        Ok(Some(Err(_))) => return (frames, 4),
                        Err(_) => return (frames, 7),
                    }
                }
            });
            let mut timed_out = false;
            for (t, b, len) in ops {
                if timed_out {
                    out.push(7);
                    continue;
                }
                let code = match t {
                    1 => match tokio::time::timeout(limit, dialer.feed(mk_msg(b, len))).await {
                        Ok(Ok(())) => 1,
                        Ok(Err(e)) => err_code(&e),
                        Err(_) => 7,
                    },
                    2 => match tokio::time::timeout(limit, SinkExt::<Bytes>::flush(&mut dialer)).await {
                        Ok(Ok(())) => 1,
                        Ok(Err(e)) => err_code(&e),
                        Err(_) => 7,
                    },
                    3 => match tokio::time::timeout(limit, dialer.send_framed(mk_msg(b, len))).await {
                        Ok(Ok(())) => 1,
                        Ok(Err(e)) => err_code(&e),
                        Err(_) => 7,
                    },
                    _ => match tokio::time::timeout(limit, SinkExt::<Bytes>::close(&mut dialer)).await {
                        Ok(Ok(())) => 1,
                        Ok(Err(e)) => err_code(&e),
                        Err(_) => 7,
                    },
                };
                timed_out = code == 7;
                out.push(code);
            }
            let (frames, fin) = reader.await.unwrap_or((Vec::new(), PANIC));
            out.push(frames.len() as u64);
            for f in &frames {
                rle(&mut out, f);
            }
            out.push(fin);
            out
        });
        if t == [11, PANIC] {
            rig.broken = true;
        }
        t
    }

    pub fn gen(rng: &mut Rng, thorough: bool) -> Vec<u64> {
        let (tag, arg) = rng.pick(&CODECS);
        let mut c = vec![60 + tag, arg];
        let mut ops: Vec<u64> = Vec::new();
        let mut nops = 0;
        let nmsgs = rng.range(1, if thorough { 8 } else { 5 });
        let mut unflushed = false;
        for i in 0..nmsgs {
            let b = (i * 2 + rng.below(2) * 100 + 3) % 256;
            let mut len = match tag {
                0 => arg,
                1 => rng.pick(&[0u64, 1, 127, 128, 16384, 65536, 262_144, 300_000, 1 << 20, 2_000_000]),
                _ => rng.pick(&[0u64, 1, arg / 2, arg, arg.min(262_145), arg.min(300_000)]),
            };
            if i > 0 && rng.chance(10) {
                len = match tag {
                    1 => len,
                    _ => arg + 1,
                };
            }
            if rng.chance(50) {
                ops.extend([1, b, len]);
                unflushed = true;
                if i == 0 || rng.chance(50) {
                    ops.push(2);
                    nops += 1;
                    unflushed = false;
                }
            } else {
                ops.extend([3, b, len]);
                unflushed = false;
            }
            nops += 1;
        }
        if unflushed && rng.chance(60) {
            ops.push(2);
            nops += 1;
        }
        ops.push(4);
        nops += 1;
        c.push(nops);
        c.extend(ops);
        c.extend([0, 0, 0, 0]);
        c
    }
}

pub fn run(c: &[u64]) -> Vec<u64> {
    if matches!(c.first().copied().unwrap_or(0), 60..=62) {
        return quic::run(c);
    }
    // the handle arms tokio::time::sleep when it sends FIN: a runtime context must exist (nothing is awaited)
    let rt = tokio::runtime::Builder::new_current_thread().enable_time().start_paused(true).build().unwrap();
    let _guard = rt.enter();
    match c.first().copied().unwrap_or(0) {
        50 => run_writer(c),
        51 => run_reader(c),
        _ => vec![0],
    }
}

// ---------------------------------------------------------------- generators

fn gen_codec(rng: &mut Rng) -> (u64, u64) {
    match rng.below(10) {
        0..=2 => (0, rng.pick(&[1u64, 10, 300, 1024, 1025, 4000, 20000, 40000, 0])),
        3..=5 => (1, 0),
        _ => (2, rng.pick(&[0u64, 1, 127, 128, 300, 16384, 70000])),
    }
}

fn gen_renv(rng: &mut Rng, c: &mut Vec<u64>) {
    match rng.below(40) {
        0 => c.push(1),
        1 => c.push(2),
        2 => c.push(3),
        _ => c.extend([0, rng.pick(&[0u64, 1, 2, 5, 100, 300, 1000])]),
    }
}

fn gen_writer(rng: &mut Rng, thorough: bool) -> Vec<u64> {
    let (tag, arg) = gen_codec(rng);
    let mut c = vec![50, tag, arg];
    let mut ops: Vec<u64> = Vec::new();
    let mut nops = 0u64;
    let nmsgs = rng.range(1, if thorough { 8 } else { 5 });
    let fit = |rng: &mut Rng| -> u64 {
        match tag {
            0 => arg,
            1 => rng.pick(&[0u64, 1, 5, 127, 128, 1000, 16383, 16384, 16385, 40000, 3]),
            _ => rng.pick(&[0u64, 1, arg / 2, arg, 127.min(arg), 128.min(arg), 16384.min(arg), 3.min(arg)]).min(40000),
        }
    };
    // now and then the channel is filled up first (256 messages): many tiny messages through the Sink
    if rng.chance(12) {
        let n = rng.pick(&[120u64, 127, 128, 130, 200]);
        for _ in 0..n {
            let len = if tag == 0 { arg } else { rng.below(3).min(arg.max(if tag == 1 { 3 } else { 0 })) };
            let len = if tag == 2 { len.min(arg) } else { len };
            if len > 50 {
                break;
            }
            ops.extend([1, 9, len]);
            nops += 1;
        }
        ops.push(2);
        nops += 1;
    }
    // the extracted model works on byte lists: the volume of a case stays below ~90 kB
    let mut budget = 90_000u64;
    for i in 0..nmsgs {
        let b = (i * 2 + rng.below(2) * 100 + 3) % 256;
        let mut len = fit(rng);
        if rng.chance(8) {
            len = match tag {
                0 => rng.pick(&[arg + 1, arg.saturating_sub(1), 0]),
                2 => arg + 1,
                _ => len,
            }
            .min(40001);
        }
        if len > budget {
            if tag == 0 {
                break;
            }
            len = budget;
        }
        budget -= len;
        if rng.chance(45) {
            ops.extend([3, b, len]);
            nops += 1;
        } else {
            if rng.chance(80) {
                ops.push(0);
                nops += 1;
            }
            ops.extend([1, b, len]);
            nops += 1;
            for _ in 0..rng.pick(&[0u64, 1, 1, 2, 3]) {
                ops.push(2);
                nops += 1;
                if rng.chance(40) {
                    ops.push(6);
                    gen_renv(rng, &mut ops);
                    nops += 1;
                }
            }
        }
        if rng.chance(30) {
            ops.push(6);
            gen_renv(rng, &mut ops);
            nops += 1;
        }
    }
    for _ in 0..rng.range(0, 3) {
        ops.push(2);
        nops += 1;
    }
    match rng.below(10) {
        0..=2 => {
            for _ in 0..rng.range(1, 3) {
                ops.push(4);
                nops += 1;
                if rng.chance(60) {
                    ops.push(6);
                    gen_renv(rng, &mut ops);
                    nops += 1;
                }
            }
            if rng.chance(40) {
                ops.extend([3, 77, fit(rng)]);
                nops += 1;
            }
        }
        3..=5 => {
            ops.push(5);
            nops += 1;
        }
        _ => {}
    }
    c.push(nops);
    c.extend(ops);
    let nw = rng.pick(&[0u64, 1, 3, 8, 20]);
    c.push(nw);
    for _ in 0..nw {
        if rng.chance(25) {
            c.push(1); // FIN_ACK: lets a close complete once the FIN went out
        } else {
            gen_renv(rng, &mut c);
        }
    }
    c
}

fn push_varint(raw: &mut Vec<(u64, u64)>, mut n: u64) {
    loop {
        if n < 128 {
            raw.push((n, 1));
            break;
        }
        raw.push((128 + n % 128, 1));
        n /= 128;
    }
}

fn gen_reader(rng: &mut Rng, thorough: bool) -> Vec<u64> {
    let (tag, arg) = gen_codec(rng);
    let arg = if tag == 0 { arg.min(4000) } else { arg };
    let mut c = vec![51, tag, arg];
    let mut raw: Vec<(u64, u64)> = Vec::new();
    let flood = rng.chance(6);
    let n = if flood { rng.range(100, 300) } else { rng.range(0, if thorough { 8 } else { 5 }) };
    for i in 0..n {
        let b = (i * 2 + 3) % 128;
        let len = if flood {
            if tag == 0 { arg.min(3) } else { rng.below(3).min(if tag == 2 { arg } else { 3 }) }
        } else {
            match tag {
                0 => arg,
                1 => rng.pick(&[0u64, 1, 5, 127, 128, 1000, 16384, 20000, 3]),
                _ => rng.pick(&[0u64, 1, arg / 2, arg, 127.min(arg), 128.min(arg)]).min(20000),
            }
        };
        if tag != 0 {
            push_varint(&mut raw, len);
        }
        if len >= 2 {
            raw.push((b, len - 1));
            raw.push((b + 1, 1));
        } else if len == 1 {
            raw.push((b, 1));
        }
    }
    if rng.chance(12) {
        match rng.below(3) {
            0 => raw.push((200, rng.pick(&[1u64, 10, 11]))),
            1 => {
                raw.push((129, 1));
                raw.push((0, 1));
            }
            _ => {
                raw.push((5, 1));
                raw.push((9, 2));
            }
        }
    }
    let total: u64 = raw.iter().map(|r| r.1).sum();
    c.push(raw.len() as u64);
    for (b, k) in &raw {
        c.extend([*b, *k]);
    }
    let mut steps: Vec<u64> = Vec::new();
    let mut nsteps = 0u64;
    let mut moved = 0u64;
    let style = rng.below(4);
    while (moved < total || rng.chance(55)) && nsteps < 300 {
        if moved < total && rng.chance(if flood { 90 } else { 55 }) {
            if flood && rng.chance(70) {
                let nb = rng.pick(&[50u64, 200, 256, 257, 300]);
                steps.extend([4, nb]);
                moved += nb;
            } else {
                let k = match style {
                    0 => rng.range(1, 3),
                    1 => rng.range(1, 50),
                    2 => rng.pick(&[1u64, 127, 128, 1000, 1024, 5000, 16384, 16385]),
                    _ => total,
                };
                let fin = (moved + k >= total && rng.chance(40)) as u64;
                steps.extend([0, k, fin]);
                moved += k;
            }
        } else {
            steps.push(2);
        }
        nsteps += 1;
        if rng.chance(1) {
            steps.push(3);
            nsteps += 1;
        }
    }
    for _ in 0..rng.range(1, 6) {
        steps.push(2);
        nsteps += 1;
    }
    c.push(nsteps);
    c.extend(steps);
    c
}

pub fn gen(rng: &mut Rng, thorough: bool) -> Vec<u64> {
    match rng.below(20) {
        0..=10 => gen_writer(rng, thorough),
        11..=17 => gen_reader(rng, thorough),
        _ => quic::gen(rng, thorough),
    }
}

#[allow(dead_code)]
fn _unused(_: &dyn Future<Output = ()>) {}
