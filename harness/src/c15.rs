//! C15: iterative Kademlia lookups (QueryEngine with one FIND_NODE / PUT_VALUE-lookup /
//! ADD_PROVIDER-lookup / GET_VALUE / GET_PROVIDERS query). Case format: see coq/C15/Glue.v.
//!
//! Cases are produced by an adaptive environment (a small network: who knows whom, who fails,
//! who lies) that reacts to the actions of the REAL engine; the executed event list is written
//! into the case, so that the model replays exactly the same events. Three streams:
//! random networks with random schedules, an exhaustive enumeration of all reply orders and
//! failure subsets of small networks, and a small wall-clock stream for the peer timeout.
use crate::util::*;
#[path = "c15_engine.rs"]
mod engine;
#[path = "gen_c15_dispatch.rs"]
mod gen_dispatch;
use litep2p::{
    protocol::libp2p::kademlia::{
        verif::{ConnectionType, KademliaMessage, KademliaPeer, Key, QueryAction, QueryEngine},
        ContentProvider, QueryId, Quorum, Record, RecordKey,
    },
    PeerId,
};
use multiaddr::Multiaddr;
use std::{
    collections::{HashMap, VecDeque},
    num::NonZeroUsize,
    panic::{catch_unwind, AssertUnwindSafe},
    path::Path,
    time::{Duration, Instant},
};

const POOL: usize = 16;
const NADDR: usize = 8;
/// `timeout` value of cases that do not exercise the peer timeout (the default 10 s stays).
const NO_TIMEOUT: u64 = 1_000_000;
/// One logical time unit of a timed case.
const HALF_TICK: Duration = Duration::from_millis(20);
/// One logical time unit of a timed case run on the logical clock (hook `verif_age_pending`).
const LOGICAL_UNIT: Duration = Duration::from_millis(1000);
/// A timed call must start within this much after its scheduled instant.
const TOLERANCE: Duration = Duration::from_millis(7);
const QID0: usize = 7;

struct World {
    base: Instant,
    /// peers sorted by their real distance to the `PeerId` target
    by_peer_target: Vec<PeerId>,
    /// peers sorted by their real distance to the record-key target
    by_key_target: Vec<PeerId>,
    target_peer: PeerId,
    target_key: RecordKey,
    addrs: Vec<Multiaddr>,
}

impl World {
    fn new() -> Self {
        let base = Instant::now();
        let peers: Vec<PeerId> = (0..POOL).map(|_| PeerId::random()).collect();
        let target_peer = PeerId::random();
        let target_key = RecordKey::from(vec![1u8, 5, 15, 150]);
        let mut a = peers.clone();
        let t = Key::from(target_peer);
        a.sort_by_key(|p| t.distance(&Key::from(*p)));
        let mut b = peers.clone();
        let t2 = Key::new(target_key.clone());
        b.sort_by_key(|p| t2.distance(&Key::from(*p)));
        // ranks stand for distances only if the order is strict (distinct peers, distinct distances)
        let strict = |v: &Vec<PeerId>, d: &dyn Fn(&PeerId) -> litep2p::protocol::libp2p::kademlia::verif::Distance| {
            v.windows(2).all(|w| d(&w[0]) < d(&w[1]))
        };
        assert!(strict(&a, &|p| t.distance(&Key::from(*p))) && strict(&b, &|p| t2.distance(&Key::from(*p))));
        let addrs = (0..NADDR as u16)
            .map(|i| format!("/ip4/10.0.0.{}/tcp/{}", i + 1, 1000 + i).parse().unwrap())
            .collect();
        World { base, by_peer_target: a, by_key_target: b, target_peer, target_key, addrs }
    }
}

/// Fixed part of a case.
#[derive(Clone)]
struct Header {
    kind: u64,
    flavour: u64, // kind 0 only: 0 find_node, 1 put_record lookup, 2 add_provider lookup
    k: u64,
    alpha: u64,
    timeout: u64,
    local: u64,
    qtag: u64,
    qn: u64,
    known: u64,
    dists: Vec<u64>,
    seeds: Vec<u64>,
    kprov: Vec<(u64, Vec<u64>)>,
}

fn push_entries(out: &mut Vec<u64>, l: &[(u64, Vec<u64>)]) {
    out.push(l.len() as u64);
    for (p, a) in l {
        out.push(*p);
        out.push(a.len() as u64);
        out.extend(a);
    }
}

impl Header {
    fn encode(&self, events: &[Vec<u64>]) -> Vec<u64> {
        let mut c = vec![
            self.kind, self.flavour, self.k, self.alpha, self.timeout, self.local, self.qtag, self.qn,
            self.known,
        ];
        c.push(self.dists.len() as u64);
        c.extend(&self.dists);
        c.push(self.seeds.len() as u64);
        c.extend(&self.seeds);
        push_entries(&mut c, &self.kprov);
        c.push(events.len() as u64);
        for e in events {
            c.extend(e);
        }
        c
    }
}

struct Cursor<'a>(&'a [u64], usize);
impl<'a> Cursor<'a> {
    fn n(&mut self) -> Option<u64> {
        let x = *self.0.get(self.1)?;
        self.1 += 1;
        Some(x)
    }
    fn list(&mut self) -> Option<Vec<u64>> {
        let n = self.n()? as usize;
        if n > self.0.len() {
            return None;
        }
        (0..n).map(|_| self.n()).collect()
    }
    fn entries(&mut self) -> Option<Vec<(u64, Vec<u64>)>> {
        let n = self.n()? as usize;
        if n > self.0.len() {
            return None;
        }
        (0..n).map(|_| Some((self.n()?, self.list()?))).collect()
    }
}

#[derive(Clone, Debug)]
enum Event {
    Next(u64),
    Resp { p: u64, flag: u64, id: u64, peers: Vec<u64>, provs: Vec<(u64, Vec<u64>)> },
    Fail(u64),
    SendOk(u64),
    SendFail(u64),
    BadResp(u64),
    PeerAct(u64),
}

impl Event {
    fn encode(&self) -> Vec<u64> {
        match self {
            Event::Next(now) => vec![0, *now],
            Event::Resp { p, flag, id, peers, provs } => {
                let mut v = vec![1, *p, *flag, *id, peers.len() as u64];
                v.extend(peers);
                push_entries(&mut v, provs);
                v
            }
            Event::Fail(p) => vec![2, *p],
            Event::SendOk(p) => vec![3, *p],
            Event::SendFail(p) => vec![4, *p],
            Event::BadResp(p) => vec![5, *p],
            Event::PeerAct(p) => vec![6, *p],
        }
    }
}

fn decode(c: &[u64]) -> Option<(Header, Vec<Event>)> {
    let mut r = Cursor(c, 0);
    let h = Header {
        kind: r.n()?,
        flavour: r.n()?,
        k: r.n()?,
        alpha: r.n()?,
        timeout: r.n()?,
        local: r.n()?,
        qtag: r.n()?,
        qn: r.n()?,
        known: r.n()?,
        dists: r.list()?,
        seeds: r.list()?,
        kprov: r.entries()?,
    };
    let n = r.n()? as usize;
    let mut evs = Vec::new();
    for _ in 0..n {
        let e = match r.n()? {
            0 => Event::Next(r.n()?),
            1 => Event::Resp { p: r.n()?, flag: r.n()?, id: r.n()?, peers: r.list()?, provs: r.entries()? },
            2 => Event::Fail(r.n()?),
            3 => Event::SendOk(r.n()?),
            4 => Event::SendFail(r.n()?),
            5 => Event::BadResp(r.n()?),
            6 => Event::PeerAct(r.n()?),
            _ => return None,
        };
        evs.push(e);
    }
    if r.1 != c.len() {
        return None;
    }
    Some((h, evs))
}

/// The real engine with one query, plus the peer-index translation of the case.
struct Sys<'w> {
    w: &'w World,
    engine: QueryEngine,
    peers: Vec<PeerId>,
    index: HashMap<PeerId, u64>,
    kinds: Vec<u64>,
    qids: Vec<QueryId>,
    /// index of the query the last `next_action` result belonged to
    acted: Option<usize>,
    start: Instant,
    timed: bool,
    late: bool,
    /// wall clock (real sleeps) instead of the logical clock
    wall: bool,
    /// logical time of the last `next_action` call
    clock: u64,
}

impl<'w> Sys<'w> {
    fn new(w: &'w World, h: &Header) -> Option<Self> {
        Self::new_multi(w, std::slice::from_ref(h))
    }

    /// One engine with one query per header; the headers share k, alpha, timeout, local, dists.
    fn new_multi(w: &'w World, hs: &[Header]) -> Option<Self> {
        Self::new_mode(w, hs, false)
    }

    fn new_mode(w: &'w World, hs: &[Header], wall: bool) -> Option<Self> {
        let h0 = hs.first()?;
        let n = h0.dists.len();
        if n == 0 || n > POOL {
            return None;
        }
        let peer_target = hs.len() == 1 && h0.kind == 0 && h0.flavour == 0;
        let pool = if peer_target { &w.by_peer_target } else { &w.by_key_target };
        let mut peers = Vec::new();
        let mut index = HashMap::new();
        for (i, d) in h0.dists.iter().enumerate() {
            let p = *pool.get(*d as usize)?;
            if index.insert(p, i as u64).is_some() {
                return None;
            }
            peers.push(p);
        }
        let ok = |p: &u64| (*p as usize) < n;
        if !ok(&h0.local) {
            return None;
        }
        let mut engine = QueryEngine::new(peers[h0.local as usize], h0.k as usize, h0.alpha as usize);
        let mut s = Sys {
            w,
            engine: QueryEngine::new(peers[0], 0, 0),
            peers,
            index,
            kinds: hs.iter().map(|h| h.kind).collect(),
            qids: (0..hs.len()).map(|i| QueryId(QID0 + i)).collect(),
            acted: None,
            start: Instant::now(),
            timed: h0.timeout < NO_TIMEOUT,
            late: false,
            wall,
            clock: 0,
        };
        for (qi, h) in hs.iter().enumerate() {
            if h.kind > 2 || h.flavour > 2 || (hs.len() > 1 && h.kind == 0 && h.flavour == 0) {
                return None;
            }
            if !h.seeds.iter().all(ok) || !h.kprov.iter().all(|(p, a)| ok(p) && a.iter().all(|x| (*x as usize) < NADDR)) {
                return None;
            }
            let qid = s.qids[qi];
            let seeds: VecDeque<KademliaPeer> = h.seeds.iter().map(|p| s.kad(*p, &[])).collect();
            let quorum = match h.qtag {
                0 => Quorum::All,
                1 => Quorum::One,
                _ => Quorum::N(NonZeroUsize::new(h.qn as usize)?),
            };
            let record = Record { key: w.target_key.clone(), value: vec![9], publisher: None, expires: None };
            match (h.kind, h.flavour) {
                (0, 0) => {
                    engine.start_find_node(qid, w.target_peer, seeds);
                }
                (0, 1) => {
                    engine.start_put_record(qid, record, seeds, quorum);
                }
                (0, _) => {
                    let me = ContentProvider { peer: s.peers[h.local as usize], addresses: vec![] };
                    engine.start_add_provider(qid, w.target_key.clone(), me, seeds, quorum);
                }
                (1, _) => {
                    engine.start_get_record(qid, w.target_key.clone(), seeds, quorum, h.known != 0);
                }
                _ => {
                    let kp = h
                        .kprov
                        .iter()
                        .map(|(p, a)| ContentProvider {
                            peer: s.peers[*p as usize],
                            addresses: a.iter().map(|x| w.addrs[*x as usize].clone()).collect(),
                        })
                        .collect();
                    engine.start_get_providers(qid, w.target_key.clone(), seeds, kp);
                }
            }
            if s.timed {
                let unit = if wall { HALF_TICK } else { LOGICAL_UNIT };
                engine.verif_set_peer_timeout(qid, unit * h.timeout as u32 + unit / 2);
            }
        }
        s.engine = engine;
        s.start = Instant::now();
        Some(s)
    }

    fn kad(&self, p: u64, addrs: &[u64]) -> KademliaPeer {
        KademliaPeer::new(
            self.peers[p as usize],
            addrs.iter().map(|x| self.w.addrs[*x as usize].clone()).collect(),
            ConnectionType::NotConnected,
        )
    }

    fn idx(&self, p: &PeerId) -> u64 {
        self.index.get(p).copied().unwrap_or(777)
    }

    fn idxs<'a>(&self, it: impl Iterator<Item = &'a PeerId>, sort: bool) -> Vec<u64> {
        let mut v: Vec<u64> = it.map(|p| self.idx(p)).collect();
        if sort {
            v.sort();
        }
        v
    }

    fn dump(&self, out: &mut Vec<u64>) {
        for q in &self.qids {
            self.dump_query(*q, out);
        }
    }

    fn dump_query(&self, q: QueryId, out: &mut Vec<u64>) {
        let Some(d) = self.engine.verif_dump(q) else {
            out.push(0);
            return;
        };
        out.push(1);
        let mut put = |v: Vec<u64>| {
            out.push(v.len() as u64);
            out.extend(v);
        };
        put(self.idxs(d.candidates.iter(), false));
        put(self.idxs(d.pending.iter(), true));
        put(self.idxs(d.queried.iter(), true));
        put(self.idxs(d.responses.iter(), false));
        out.push(d.pending_responses as u64);
        out.push(d.found_records as u64);
        let mut put = |v: Vec<u64>| {
            out.push(v.len() as u64);
            out.extend(v);
        };
        put(self.idxs(d.queued_records.iter(), false));
        put(self.idxs(d.found_providers.iter(), false));
    }

    fn action(&mut self, a: Option<QueryAction>) -> Vec<u64> {
        let qid = match &a {
            None => None,
            Some(QueryAction::SendMessage { query, .. })
            | Some(QueryAction::QueryFailed { query })
            | Some(QueryAction::QuerySucceeded { query })
            | Some(QueryAction::FindNodeQuerySucceeded { query, .. })
            | Some(QueryAction::PutRecordToFoundNodes { query, .. })
            | Some(QueryAction::AddProviderToFoundNodes { query, .. })
            | Some(QueryAction::PutRecordQuerySucceeded { query, .. })
            | Some(QueryAction::AddProviderQuerySucceeded { query, .. }) => Some(*query),
            Some(QueryAction::GetRecordPartialResult { query_id, .. })
            | Some(QueryAction::GetRecordQueryDone { query_id })
            | Some(QueryAction::GetProvidersQueryDone { query_id, .. }) => Some(*query_id),
        };
        self.acted = qid.and_then(|q| self.qids.iter().position(|x| *x == q));
        match a {
            None => vec![0],
            Some(QueryAction::SendMessage { peer, .. }) => vec![1, self.idx(&peer)],
            Some(QueryAction::QueryFailed { .. }) => vec![2],
            Some(QueryAction::FindNodeQuerySucceeded { peers, .. })
            | Some(QueryAction::PutRecordToFoundNodes { peers, .. })
            | Some(QueryAction::AddProviderToFoundNodes { peers, .. }) => {
                let mut v = vec![3, peers.len() as u64];
                v.extend(peers.iter().map(|p| self.idx(&p.verif_peer())));
                v
            }
            Some(QueryAction::GetRecordPartialResult { record, .. }) =>
                vec![4, self.idx(&record.peer), record.record.value.first().copied().unwrap_or(0) as u64],
            Some(QueryAction::GetRecordQueryDone { .. }) => vec![5],
            Some(QueryAction::GetProvidersQueryDone { providers, .. }) => {
                let mut v = vec![6, providers.len() as u64];
                for p in providers {
                    let mut a: Vec<u64> = p
                        .addresses
                        .iter()
                        .map(|x| self.w.addrs.iter().position(|y| y == x).unwrap_or(99) as u64)
                        .collect();
                    a.sort();
                    v.push(self.idx(&p.peer));
                    v.push(a.len() as u64);
                    v.extend(a);
                }
                v
            }
            Some(_) => vec![98],
        }
    }

    /// Applies one event to the real engine; returns the encoded action (and appends action and
    /// state dump to `trace`).
    fn apply(&mut self, e: &Event, trace: &mut Vec<u64>) -> Vec<u64> {
        self.apply_q(0, e, trace)
    }

    fn apply_q(&mut self, q: usize, e: &Event, trace: &mut Vec<u64>) -> Vec<u64> {
        let n = self.peers.len() as u64;
        // an index without a query stands for a QueryId the engine does not know (stale query)
        let qid = self.qids.get(q).copied().unwrap_or(QueryId(QID0 + q));
        let kind = self.kinds.get(q).copied().unwrap_or(0);
        let a = match e {
            Event::Next(now) => {
                if self.timed && self.wall {
                    let due = self.start + HALF_TICK * *now as u32;
                    let t = Instant::now();
                    if due > t {
                        std::thread::sleep(due - t);
                    }
                    if Instant::now() > due + TOLERANCE {
                        self.late = true;
                    }
                }
                if self.timed && !self.wall {
                    // logical clock: every pending request becomes (now - clock) units older
                    if *now > self.clock {
                        let by = LOGICAL_UNIT * (*now - self.clock) as u32;
                        for q in self.qids.clone() {
                            if !self.engine.verif_age_pending(q, by) {
                                self.late = true;
                            }
                        }
                        self.clock = *now;
                    }
                    // the real time spent in the case must stay far below half a unit
                    if self.start.elapsed() > LOGICAL_UNIT / 4 {
                        self.late = true;
                    }
                }
                let a = self.engine.next_action();
                if self.timed && self.wall && Instant::now() > self.start + HALF_TICK * *now as u32 + TOLERANCE {
                    self.late = true;
                }
                self.action(a)
            }
            Event::Resp { p, flag, id, peers, provs } if *p < n && peers.iter().all(|x| *x < n) && provs.iter().all(|(x, a)| *x < n && a.iter().all(|y| (*y as usize) < NADDR)) => {
                let peers: Vec<KademliaPeer> = peers.iter().map(|x| self.kad(*x, &[])).collect();
                let msg = match kind {
                    0 => KademliaMessage::FindNode { target: vec![], peers },
                    1 => KademliaMessage::GetRecord {
                        key: None,
                        record: match flag {
                            0 => None,
                            f => Some(Record {
                                key: self.w.target_key.clone(),
                                value: vec![*id as u8, 1, 2],
                                publisher: None,
                                expires: if *f == 1 { None } else { Some(self.w.base) },
                            }),
                        },
                        peers,
                    },
                    _ => KademliaMessage::GetProviders {
                        key: None,
                        peers,
                        providers: provs.iter().map(|(x, a)| self.kad(*x, a)).collect(),
                    },
                };
                self.engine.register_response(qid, self.peers[*p as usize], msg);
                vec![0]
            }
            Event::Fail(p) if *p < n => {
                self.engine.register_response_failure(qid, self.peers[*p as usize]);
                vec![0]
            }
            Event::SendOk(p) if *p < n => {
                self.engine.register_send_success(qid, self.peers[*p as usize]);
                vec![0]
            }
            Event::SendFail(p) if *p < n => {
                self.engine.register_send_failure(qid, self.peers[*p as usize]);
                vec![0]
            }
            Event::BadResp(p) if *p < n => {
                // a message of a type that no lookup expects
                let msg = KademliaMessage::PutValue {
                    record: Record { key: self.w.target_key.clone(), value: vec![], publisher: None, expires: None },
                };
                self.engine.register_response(qid, self.peers[*p as usize], msg);
                vec![0]
            }
            Event::PeerAct(p) if *p < n => {
                let peer = self.peers[*p as usize];
                match self.engine.next_peer_action(&qid, &peer) {
                    None => vec![0],
                    Some(QueryAction::SendMessage { peer, query, .. }) if query == qid => vec![7, self.idx(&peer)],
                    Some(_) => vec![98],
                }
            }
            _ => vec![97],
        };
        trace.extend(&a);
        self.dump(trace);
        a
    }
}

/// Replays a stored case verbatim.
fn run_stored(w: &World, c: &[u64]) -> Option<Vec<u64>> {
    let (h, evs) = decode(c)?;
    for _attempt in 0..6 {
        let mut s = Sys::new(w, &h)?;
        let mut trace = vec![1u64];
        for e in &evs {
            s.apply(e, &mut trace);
        }
        if !s.late {
            return Some(trace);
        }
    }
    None
}

// ---------------------------------------------------------------- several queries in one engine

fn encode_multi(hs: &[Header], events: &[Vec<u64>]) -> Vec<u64> {
    let h0 = &hs[0];
    let mut c = vec![9, h0.k, h0.alpha, h0.timeout, h0.local, h0.dists.len() as u64];
    c.extend(&h0.dists);
    c.push(hs.len() as u64);
    for h in hs {
        c.extend([h.kind, h.flavour, h.qtag, h.qn, h.known, h.seeds.len() as u64]);
        c.extend(&h.seeds);
        push_entries(&mut c, &h.kprov);
    }
    c.push(events.len() as u64);
    for e in events {
        c.extend(e);
    }
    c
}

/// (query index, event, recorded choice of a `next_action` event)
type MEvent = (usize, Event, u64);

fn encode_mevent(q: usize, e: &Event, choice: u64) -> Vec<u64> {
    let v = e.encode();
    match e {
        Event::Next(now) => vec![0, *now, choice],
        _ => {
            let mut r = vec![v[0], q as u64];
            r.extend(&v[1..]);
            r
        }
    }
}

fn decode_multi(c: &[u64]) -> Option<(Vec<Header>, Vec<MEvent>)> {
    let mut r = Cursor(c, 0);
    if r.n()? != 9 {
        return None;
    }
    let (k, alpha, timeout, local) = (r.n()?, r.n()?, r.n()?, r.n()?);
    let dists = r.list()?;
    let nq = r.n()? as usize;
    if nq == 0 || nq > 8 {
        return None;
    }
    let mut hs = Vec::new();
    for _ in 0..nq {
        hs.push(Header {
            kind: r.n()?,
            flavour: r.n()?,
            k,
            alpha,
            timeout,
            local,
            qtag: r.n()?,
            qn: r.n()?,
            known: r.n()?,
            dists: dists.clone(),
            seeds: r.list()?,
            kprov: r.entries()?,
        });
    }
    let n = r.n()? as usize;
    let mut evs = Vec::new();
    for _ in 0..n {
        let tag = r.n()?;
        let e = match tag {
            0 => (0usize, Event::Next(r.n()?), r.n()?),
            1 => {
                let q = r.n()? as usize;
                (q, Event::Resp { p: r.n()?, flag: r.n()?, id: r.n()?, peers: r.list()?, provs: r.entries()? }, 0)
            }
            2 => (r.n()? as usize, Event::Fail(r.n()?), 0),
            3 => (r.n()? as usize, Event::SendOk(r.n()?), 0),
            4 => (r.n()? as usize, Event::SendFail(r.n()?), 0),
            5 => (r.n()? as usize, Event::BadResp(r.n()?), 0),
            6 => (r.n()? as usize, Event::PeerAct(r.n()?), 0),
            _ => return None,
        };
        evs.push(e);
    }
    if r.1 != c.len() {
        return None;
    }
    Some((hs, evs))
}

/// Replays a stored multi-query case. HashMap iteration order differs from run to run, so the
/// recorded choice of every `next_action` event is replaced by the choice made in THIS run;
/// the patched case is what is handed to the model.
fn run_stored_multi(w: &World, c: &[u64]) -> Option<(Vec<u64>, Vec<u64>)> {
    let (hs, evs) = decode_multi(c)?;
    let mut s = Sys::new_multi(w, &hs)?;
    let mut trace = vec![1u64];
    let mut events = Vec::new();
    for (q, e, _) in &evs {
        let a = s.apply_q(*q, e, &mut trace);
        let choice = match e {
            Event::Next(_) if a[0] != 0 => s.acted.map(|i| i as u64 + 1).unwrap_or(99),
            _ => 0,
        };
        events.push(encode_mevent(*q, e, choice));
    }
    Some((encode_multi(&hs, &events), trace))
}

/// Several lookups in one engine, driven by one network.
fn drive_multi(w: &World, hs: &[Header], net: &Net, choose: &mut dyn FnMut(u64) -> u64, max_steps: usize) -> Option<(Vec<u64>, Vec<u64>)> {
    let mut s = Sys::new_multi(w, hs)?;
    let n = hs[0].dists.len() as u64;
    let nq = hs.len();
    let mut events: Vec<Vec<u64>> = Vec::new();
    let mut trace = vec![1u64];
    let mut inflight: Vec<(usize, u64)> = Vec::new();
    let mut live = vec![true; nq];
    let resolve = |p: u64, choose: &mut dyn FnMut(u64) -> u64| -> Event {
        match net.behaviour[p as usize] {
            0 => Event::Resp {
                p,
                flag: net.rec[p as usize].0,
                id: net.rec[p as usize].1,
                peers: net.knows[p as usize].clone(),
                provs: net.provs[p as usize].clone(),
            },
            1 => Event::Fail(p),
            2 => Event::BadResp(p),
            _ => if choose(2) == 0 { Event::Fail(p) } else { Event::BadResp(p) },
        }
    };
    let mut tail = 0;
    for _ in 0..max_steps {
        let a = s.apply_q(0, &Event::Next(0), &mut trace);
        let acted = s.acted;
        let choice = if a[0] == 0 { 0 } else { acted.map(|i| i as u64 + 1).unwrap_or(99) };
        events.push(vec![0, 0, choice]);
        if !live.iter().any(|x| *x) {
            tail += 1;
            if tail >= 2 {
                break;
            }
        }
        match (a[0], acted) {
            (1, Some(q)) => {
                inflight.push((q, a[1]));
                if choose(100) < 20 {
                    let e = Event::PeerAct(a[1]);
                    events.push(encode_mevent(q, &e, 0));
                    s.apply_q(q, &e, &mut trace);
                }
            }
            (4, _) => {}
            (0, _) => {
                if choose(100) < 15 {
                    // something addressed to the wrong query or an unknown one
                    let q = choose(nq as u64 + 1) as usize;
                    let p = choose(n);
                    if !inflight.contains(&(q, p)) {
                        let e = if choose(2) == 0 { resolve(p, choose) } else { Event::PeerAct(p) };
                        events.push(encode_mevent(q, &e, 0));
                        s.apply_q(q, &e, &mut trace);
                    }
                }
                if inflight.is_empty() {
                    break;
                }
                let i = choose(inflight.len() as u64) as usize;
                let (q, p) = inflight.remove(i);
                let e = resolve(p, choose);
                events.push(encode_mevent(q, &e, 0));
                s.apply_q(q, &e, &mut trace);
            }
            (_, Some(q)) => live[q] = false,
            _ => break,
        }
    }
    Some((encode_multi(hs, &events), trace))
}

/// What the simulated network does: contacts, behaviour and data of every peer.
#[derive(Clone)]
struct Net {
    knows: Vec<Vec<u64>>,
    /// 0 reply, 1 fail, 2 wrong message type, 3 decided by the chooser (reply or fail)
    behaviour: Vec<u64>,
    rec: Vec<(u64, u64)>,
    provs: Vec<Vec<(u64, Vec<u64>)>>,
    noise: u64,
    /// timed stream: candidate advances (in half ticks) before a `next_action` call
    advances: Vec<u64>,
    /// run against the wall clock instead of the logical clock
    wall: bool,
}

/// Drives the real engine with the network; every environment decision is `choose(arity)`.
fn drive(w: &World, h: &Header, net: &Net, choose: &mut dyn FnMut(u64) -> u64, max_steps: usize) -> Option<(Vec<u64>, Vec<u64>, bool)> {
    let mut s = Sys::new_mode(w, std::slice::from_ref(h), net.wall)?;
    let n = h.dists.len() as u64;
    let mut events: Vec<Vec<u64>> = Vec::new();
    let mut trace = vec![1u64];
    let mut inflight: Vec<u64> = Vec::new();
    let mut now = 0u64;
    let mut after_terminal = 0;
    let mut terminal = false;
    let mut do_event = |s: &mut Sys, e: Event, trace: &mut Vec<u64>| -> Vec<u64> {
        events.push(e.encode());
        s.apply(&e, trace)
    };
    let resolve = |p: u64, choose: &mut dyn FnMut(u64) -> u64| -> Event {
        let b = match net.behaviour[p as usize] {
            3 => choose(2),
            b => b,
        };
        match b {
            0 => Event::Resp {
                p,
                flag: net.rec[p as usize].0,
                id: net.rec[p as usize].1,
                peers: net.knows[p as usize].clone(),
                provs: net.provs[p as usize].clone(),
            },
            1 => Event::Fail(p),
            _ => Event::BadResp(p),
        }
    };
    let mut steps = 0;
    while steps < max_steps {
        steps += 1;
        if !net.advances.is_empty() {
            now += net.advances[choose(net.advances.len() as u64) as usize];
        }
        let a = do_event(&mut s, Event::Next(now), &mut trace);
        if terminal {
            after_terminal += 1;
            if after_terminal >= 2 {
                break;
            }
            // late events for a query that is gone
            if let Some(p) = inflight.pop() {
                if net.noise > 0 {
                    do_event(&mut s, Event::PeerAct(p), &mut trace);
                }
                let e = resolve(p, choose);
                do_event(&mut s, e, &mut trace);
            }
            continue;
        }
        match a[0] {
            1 => {
                inflight.push(a[1]);
                if net.noise > 0 && choose(100) < 30 {
                    let e = if choose(2) == 0 { Event::SendOk(a[1]) } else { Event::SendFail(a[1]) };
                    do_event(&mut s, e, &mut trace);
                }
                if net.noise > 0 && choose(100) < 25 {
                    // the connection is up: fetch the message for the scheduled peer
                    do_event(&mut s, Event::PeerAct(a[1]), &mut trace);
                }
            }
            4 => {}
            0 => {
                if net.noise > 0 && choose(100) < 20 {
                    let p = choose(n);
                    do_event(&mut s, Event::PeerAct(p), &mut trace);
                }
                if net.noise > 0 && choose(100) < net.noise {
                    // a response or failure nobody asked for (or a duplicate)
                    let p = choose(n);
                    if !inflight.contains(&p) {
                        let e = if choose(2) == 0 { resolve(p, choose) } else { Event::Fail(p) };
                        do_event(&mut s, e, &mut trace);
                    }
                }
                if inflight.is_empty() {
                    break; // nothing in flight and no action: stuck (judged by the oracle)
                }
                let i = choose(inflight.len() as u64) as usize;
                let p = inflight.remove(i);
                let e = resolve(p, choose);
                do_event(&mut s, e, &mut trace);
            }
            _ => terminal = true,
        }
    }
    let late = s.late;
    drop(do_event);
    Some((h.encode(&events), trace, late))
}

/// Closed loop in logical time: per tick the engine is polled until it has nothing to do, the
/// network delivers what is due (answers, failures; silent peers never deliver), the clock
/// advances and every request older than `tx` ticks is failed by the (emulated) executor. Answers
/// of peers that were already failed are still delivered (late). Nothing is assumed about the
/// peers; the lookup must be over after (tx+1)*n ticks.
fn drive_timed(w: &World, h: &Header, net: &Net, tx: u64, choose: &mut dyn FnMut(u64) -> u64) -> Option<(Vec<u64>, Vec<u64>, bool)> {
    let mut s = Sys::new(w, h)?;
    let n = h.dists.len() as u64;
    let mut events: Vec<Vec<u64>> = Vec::new();
    let mut trace = vec![1u64];
    // (peer, sent at, due at, behaviour, already failed by the executor)
    let mut inflight: Vec<(u64, u64, u64, u64, bool)> = Vec::new();
    let mut now = 0u64;
    let mut terminal = false;
    let bound = (tx + 1) * n + 2;
    let mut do_event = |s: &mut Sys, e: Event, trace: &mut Vec<u64>| -> Vec<u64> {
        events.push(e.encode());
        s.apply(&e, trace)
    };
    let resolve = |p: u64, b: u64| -> Event {
        match b {
            0 => Event::Resp {
                p,
                flag: net.rec[p as usize].0,
                id: net.rec[p as usize].1,
                peers: net.knows[p as usize].clone(),
                provs: net.provs[p as usize].clone(),
            },
            1 => Event::Fail(p),
            _ => Event::BadResp(p),
        }
    };
    'ticks: while now <= bound {
        // poll
        for _ in 0..(4 * n + 8) {
            let a = do_event(&mut s, Event::Next(now), &mut trace);
            match a[0] {
                1 => {
                    let b = match choose(10) {
                        0..=4 => 0,
                        5 => 1,
                        6 => 2,
                        _ => 3, // silent
                    };
                    inflight.push((a[1], now, now + choose(tx + 3), b, false));
                }
                4 => {}
                0 => break,
                _ => {
                    terminal = true;
                    break 'ticks;
                }
            }
        }
        // the network delivers what is due
        let mut k = 0;
        while k < inflight.len() {
            let (p, _, due, b, _) = inflight[k];
            if b != 3 && due <= now {
                inflight.remove(k);
                do_event(&mut s, resolve(p, b), &mut trace);
            } else {
                k += 1;
            }
        }
        now += 1;
        // the executor fails what has been outstanding for more than tx ticks
        for x in inflight.iter_mut() {
            if !x.4 && now - x.1 > tx {
                x.4 = true;
                do_event(&mut s, Event::Fail(x.0), &mut trace);
            }
        }
        inflight.retain(|x| !(x.4 && x.3 == 3));
    }
    if terminal {
        // late deliveries and one more poll of the finished query
        for (p, _, _, b, _) in inflight.iter().filter(|x| x.3 != 3).take(2) {
            do_event(&mut s, resolve(*p, *b), &mut trace);
        }
        do_event(&mut s, Event::Next(now), &mut trace);
    } else {
        trace.push(96); // not finished within (tx+1)*n ticks: makes the trace invalid
    }
    let late = s.late;
    drop(do_event);
    Some((h.encode(&events), trace, late))
}

fn random_header(rng: &mut Rng, timed: bool) -> Header {
    let kind = if timed { 0 } else { rng.pick(&[0u64, 0, 1, 2]) };
    let n = rng.range(1, 8);
    let mut pool: Vec<u64> = (0..POOL as u64).collect();
    let mut dists = Vec::new();
    for _ in 0..n {
        let i = rng.below(pool.len() as u64) as usize;
        dists.push(pool.swap_remove(i));
    }
    let local = rng.below(n);
    let mut seeds: Vec<u64> = (0..n).filter(|p| *p != local && rng.chance(45)).collect();
    if seeds.is_empty() && n > 1 && rng.chance(90) {
        seeds.push((local + 1) % n);
    }
    // seed order is the caller's order
    for i in (1..seeds.len()).rev() {
        let j = rng.below(i as u64 + 1) as usize;
        seeds.swap(i, j);
    }
    let nk = if kind == 2 { rng.below(3) } else { 0 };
    let kprov = (0..nk).map(|_| (rng.below(n), random_addrs(rng))).collect();
    Header {
        kind,
        flavour: if kind == 0 && !timed { rng.pick(&[0u64, 0, 1, 2]) } else { 0 },
        k: rng.pick(&[1u64, 1, 2, 3, 20]),
        alpha: if rng.chance(3) { 0 } else { rng.pick(&[1u64, 2, 2, 3]) },
        timeout: if timed { 5 } else { NO_TIMEOUT },
        local,
        qtag: rng.below(3),
        qn: rng.range(1, 4),
        known: rng.below(2),
        dists,
        seeds,
        kprov,
    }
}

fn random_addrs(rng: &mut Rng) -> Vec<u64> {
    (0..rng.below(4)).map(|_| rng.below(NADDR as u64)).collect()
}

fn random_net(rng: &mut Rng, h: &Header, exhaustive: bool) -> Net {
    let n = h.dists.len() as u64;
    let maxk = if exhaustive { 2 } else { 4 };
    let knows = (0..n).map(|_| (0..rng.below(maxk + 1)).map(|_| rng.below(n)).collect()).collect();
    let behaviour = (0..n)
        .map(|_| if exhaustive { 3 } else { rng.pick(&[0u64, 0, 0, 0, 0, 0, 0, 1, 1, 2]) })
        .collect();
    let rec = (0..n)
        .map(|_| match rng.below(10) {
            0..=4 => (0, 0),
            5..=8 => (1, rng.range(1, 200)),
            _ => (2, rng.range(1, 200)),
        })
        .collect();
    let provs = (0..n)
        .map(|_| {
            if h.kind == 2 {
                (0..rng.below(3)).map(|_| (rng.below(n), random_addrs(rng))).collect()
            } else {
                vec![]
            }
        })
        .collect();
    Net { knows, behaviour, rec, provs, noise: if exhaustive { 0 } else { rng.pick(&[0u64, 10, 30]) }, advances: vec![], wall: false }
}

fn emit_run(out: &mut Outputs, r: Option<(Vec<u64>, Vec<u64>, bool)>) {
    if let Some((c, t, _)) = r {
        out.emit(&c, &t);
    }
}

/// All schedules (which outstanding request is resolved next, and whether it is answered or
/// fails) of one network, by re-running with an odometer over the environment's choices.
fn exhaustive(w: &World, h: &Header, net: &Net, out: &mut Outputs, budget: &mut u64) -> bool {
    let mut script: Vec<(u64, u64)> = Vec::new(); // (choice, arity)
    loop {
        if *budget == 0 {
            return false;
        }
        let mut pos = 0usize;
        let mut sc = script.clone();
        let mut choose = |arity: u64| -> u64 {
            let arity = arity.max(1);
            if pos < sc.len() {
                sc[pos].1 = arity;
                let c = sc[pos].0.min(arity - 1);
                pos += 1;
                c
            } else {
                sc.push((0, arity));
                pos += 1;
                0
            }
        };
        let r = catch_unwind(AssertUnwindSafe(|| drive(w, h, net, &mut choose, 64)));
        let used = pos;
        match r {
            Ok(r) => emit_run(out, r),
            Err(_) => out.emit(&h.encode(&[]), &[PANIC_MARK]),
        }
        *budget -= 1;
        sc.truncate(used);
        // next script in lexicographic order
        while let Some((c, a)) = sc.pop() {
            if c + 1 < a {
                sc.push((c + 1, a));
                break;
            }
        }
        if sc.is_empty() {
            return true;
        }
        script = sc;
    }
}

pub fn main(args: &Args) {
    let seed = args.u64("seed", 1);
    let ncases = args.u64("cases", 100);
    let thorough = args.str("tier") == Some("thorough");
    let mut out = Outputs::open(args);
    let mut rng = Rng::new(seed);
    let w = World::new();
    std::thread::sleep(Duration::from_millis(3));

    let mut stored: Vec<Vec<u64>> = Vec::new();
    if let Some(r) = args.str("replay") {
        stored = read_cases(Path::new(r));
    } else if let Some(d) = args.str("corpus") {
        stored = read_cases(Path::new(d));
    }
    for c in stored.iter() {
        if c.first() == Some(&10) {
            match catch_unwind(AssertUnwindSafe(|| engine::run_stored(&w, c))) {
                Ok(Some((c2, t))) => out.emit(&c2, &t),
                Ok(None) => out.emit(c, &[0]),
                Err(_) => out.emit(c, &[PANIC_MARK]),
            }
            continue;
        }
        if c.first() == Some(&9) {
            match catch_unwind(AssertUnwindSafe(|| run_stored_multi(&w, c))) {
                Ok(Some((c2, t))) => out.emit(&c2, &t),
                Ok(None) => out.emit(c, &[0]),
                Err(_) => out.emit(c, &[PANIC_MARK]),
            }
            continue;
        }
        let t = catch_unwind(AssertUnwindSafe(|| run_stored(&w, c))).unwrap_or(Some(vec![PANIC_MARK])).unwrap_or(vec![0]);
        out.emit(c, &t);
    }
    if args.str("replay").is_some() {
        return;
    }

    // stream 4: the whole engine, all query types and entry points (harness/src/c15_engine.rs)
    if engine::targets_coincide(&w) {
        engine::run(&w, &mut rng.fork(), &mut out, args.u64("engine", ncases / 3));
    } else {
        out.emit(&[10, 0, 0, 0, 0, 0, 0], &[0, 95]);
    }

    // stream 1: random networks, random schedules, noise
    for _ in 0..ncases {
        let mut r = rng.fork();
        let h = random_header(&mut r, false);
        let net = random_net(&mut r, &h, false);
        let mut choose = |a: u64| r.below(a.max(1));
        match catch_unwind(AssertUnwindSafe(|| drive(&w, &h, &net, &mut choose, 200))) {
            Ok(r) => emit_run(&mut out, r),
            Err(_) => out.emit(&h.encode(&[]), &[PANIC_MARK]),
        }
    }

    // stream 1b: two to four concurrent lookups (same target key) in one engine
    let nmulti = args.u64("multi", ncases / 3);
    for _ in 0..nmulti {
        let mut r = rng.fork();
        let h0 = random_header(&mut r, false);
        let nq = r.range(2, 4);
        let hs: Vec<Header> = (0..nq)
            .map(|_| {
                let mut h = random_header(&mut r, false);
                h.k = h0.k;
                h.alpha = h0.alpha;
                h.timeout = h0.timeout;
                h.local = h0.local;
                h.dists = h0.dists.clone();
                let n = h.dists.len() as u64;
                h.seeds = (0..n).filter(|p| *p != h.local && r.chance(50)).collect();
                h.kprov = if h.kind == 2 { (0..r.below(3)).map(|_| (r.below(n), random_addrs(&mut r))).collect() } else { vec![] };
                if h.kind == 0 {
                    h.flavour = r.range(1, 2);
                }
                h
            })
            .collect();
        let mut hk = h0.clone();
        hk.kind = 2; // make the shared network carry provider entries
        let mut net = random_net(&mut r, &hk, false);
        net.noise = 0;
        let mut choose = |a: u64| r.below(a.max(1));
        match catch_unwind(AssertUnwindSafe(|| drive_multi(&w, &hs, &net, &mut choose, 300))) {
            Ok(Some((c, t))) => out.emit(&c, &t),
            Ok(None) => {}
            Err(_) => out.emit(&encode_multi(&hs, &[]), &[PANIC_MARK]),
        }
    }

    // stream 2: small networks, ALL schedules (reply orders x failure subsets)
    let mut budget: u64 = args.u64("exhaustive", if thorough { ncases * 10 } else { ncases * 6 });
    let per_net: u64 = if thorough { 6000 } else { 1500 };
    let mut complete = 0u64;
    let mut nets = 0u64;
    while budget > 0 {
        let mut r = rng.fork();
        let mut h = random_header(&mut r, false);
        let n = r.range(3, 5);
        h.dists.truncate(n as usize);
        while (h.dists.len() as u64) < n {
            let d = (0..POOL as u64).find(|d| !h.dists.contains(d)).unwrap();
            h.dists.push(d);
        }
        h.local = 0;
        h.seeds = (1..n).filter(|_| r.chance(60)).collect();
        if h.seeds.is_empty() {
            h.seeds.push(1);
        }
        h.kprov.retain(|(p, _)| *p < n);
        h.alpha = r.pick(&[1u64, 2, 3]);
        h.k = r.pick(&[1u64, 2, 20]);
        let net = random_net(&mut r, &h, true);
        let mut b = per_net.min(budget);
        let before = b;
        if exhaustive(&w, &h, &net, &mut out, &mut b) {
            complete += 1;
        }
        nets += 1;
        budget -= before - b;
    }
    eprintln!("c15: exhaustive stream: {nets} networks, {complete} enumerated completely");

    // stream 3a: the peer timeout on the logical clock (hook verif_age_pending): deterministic
    let nlogical = args.u64("logical", ncases / 5);
    let mut logical_ok = 0;
    for _ in 0..nlogical {
        let mut r = rng.fork();
        let mut h = random_header(&mut r, true);
        h.flavour = r.pick(&[0u64, 0, 1, 2]);
        h.timeout = r.pick(&[1u64, 2, 5]);
        h.alpha = r.pick(&[1u64, 2, 2, 3]);
        if h.seeds.len() < 3 && r.chance(70) {
            let n = h.dists.len() as u64;
            h.seeds = (0..n).filter(|p| *p != h.local).collect();
        }
        let mut net = random_net(&mut r, &h, false);
        net.advances = vec![0, 0, 0, 1, 1, 2, 3, 6];
        for attempt in 0..4u64 {
            let mut rr = Rng(r.0 ^ attempt);
            let mut choose = |a: u64| rr.below(a.max(1));
            match catch_unwind(AssertUnwindSafe(|| drive(&w, &h, &net, &mut choose, 60))) {
                Ok(Some((c, t, false))) => {
                    logical_ok += 1;
                    out.emit(&c, &t);
                    break;
                }
                Ok(Some((_, _, true))) => continue,
                Ok(None) => break,
                Err(_) => {
                    out.emit(&h.encode(&[]), &[PANIC_MARK]);
                    break;
                }
            }
        }
    }
    eprintln!("c15: logical-clock stream: {logical_ok} of {nlogical} cases");

    // stream 3b: closed loop with request timeouts and silent peers (every kind of lookup)
    let nclosed = args.u64("closed", ncases / 5);
    let mut closed_ok = 0;
    for _ in 0..nclosed {
        let mut r = rng.fork();
        let timed = r.chance(60);
        let mut h = random_header(&mut r, timed);
        if timed {
            h.flavour = r.pick(&[0u64, 1, 2]);
            h.timeout = r.pick(&[1u64, 2, 5]);
        }
        if h.alpha == 0 {
            h.alpha = 1;
        }
        let mut net = random_net(&mut r, &h, false);
        net.noise = 0;
        let tx = r.pick(&[1u64, 3, 7]);
        for attempt in 0..4u64 {
            let mut rr = Rng(r.0 ^ attempt);
            let mut choose = |a: u64| rr.below(a.max(1));
            match catch_unwind(AssertUnwindSafe(|| drive_timed(&w, &h, &net, tx, &mut choose))) {
                Ok(Some((c, t, false))) => {
                    closed_ok += 1;
                    out.emit(&c, &t);
                    break;
                }
                Ok(Some((_, _, true))) => continue,
                Ok(None) => break,
                Err(_) => {
                    out.emit(&h.encode(&[]), &[PANIC_MARK]);
                    break;
                }
            }
        }
    }
    eprintln!("c15: timed closed-loop stream: {closed_ok} of {nclosed} cases");

    // stream 3c: the peer timeout against the wall clock (FIND_NODE only)
    let ntimed = args.u64("timed", if thorough { 48 } else { 8 });
    let jobs: Vec<(Header, Net, Rng)> = (0..ntimed)
        .map(|_| {
            let mut r = rng.fork();
            let mut h = random_header(&mut r, true);
            h.alpha = r.pick(&[1u64, 2, 2, 3]);
            if h.seeds.len() < 3 {
                let n = h.dists.len() as u64;
                h.seeds = (0..n).filter(|p| *p != h.local).collect();
            }
            let mut net = random_net(&mut r, &h, false);
            net.noise = 0;
            net.advances = vec![0, 0, 0, 2, 6];
            net.wall = true;
            (h, net, r)
        })
        .collect();
    let mut results: Vec<Option<(Vec<u64>, Vec<u64>)>> = Vec::new();
    for chunk in jobs.chunks(8) {
        let rs: Vec<Option<(Vec<u64>, Vec<u64>)>> = std::thread::scope(|sc| {
            let hs: Vec<_> = chunk
                .iter()
                .map(|(h, net, r)| {
                    let w = &w;
                    sc.spawn(move || {
                        for attempt in 0..6u64 {
                            let mut r = Rng(r.0 ^ attempt);
                            let mut choose = |a: u64| r.below(a.max(1));
                            match catch_unwind(AssertUnwindSafe(|| drive(w, h, net, &mut choose, 24))) {
                                Ok(Some((c, t, false))) => return Some((c, t)),
                                Ok(Some((_, _, true))) => continue, // missed a deadline: not evidence, retry
                                Ok(None) => return None,
                                Err(_) => return Some((h.encode(&[]), vec![PANIC_MARK])),
                            }
                        }
                        None
                    })
                })
                .collect();
            hs.into_iter().map(|h| h.join().unwrap_or(None)).collect()
        });
        results.extend(rs);
    }
    let mut timed_ok = 0;
    for r in results.into_iter().flatten() {
        timed_ok += 1;
        out.emit(&r.0, &r.1);
    }
    eprintln!("c15: wall-clock stream: {timed_ok} of {ntimed} cases met all deadlines");
}
