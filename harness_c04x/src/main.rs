//! C04 extra streams (substream types that need extra cargo features of litep2p): see harness/src/c04w.rs and
//! tools/c04_extra_streams.sh. The sources are those of the main harness; `extra` switches the kinds 50.. on.
#[path = "../../harness/src/c04.rs"]
mod c04;
#[path = "../../harness/src/c04w.rs"]
mod c04w;
#[path = "../../harness/src/c04x.rs"]
mod c04x;
#[path = "../../harness/src/c04y.rs"]
mod c04y;
#[path = "../../harness/src/util.rs"]
mod util;

fn main() {
    let argv: Vec<String> = std::env::args().collect();
    let args = util::Args::parse(&argv[1..]);
    if std::env::var_os("VERIF_SHOW_PANICS").is_none() {
        util::silence_panics();
    }
    c04::main(&args);
}
