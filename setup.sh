#!/bin/bash
# Builds everything the checks need, offline, from files on disk: Coq development (full .vo
# build), extracted OCaml drivers, Rust harness against /repo's working tree.
set -e
cd "$(dirname "$0")"
export CARGO_NET_OFFLINE=true
python3 tools/gen_consts.py > /dev/null || true
( cd coq && coq_makefile -f _CoqProject -o Makefile && timeout 3000 make -j16 > ../work_setup_coq.log 2>&1 ) || { tail -30 work_setup_coq.log; echo "coq build failed"; }
rm -f work_setup_coq.log
for p in $(python3 -c "import sys; sys.path.insert(0,'tools'); import props; print(' '.join(sorted(set(c['coq_dir'] for c in props.PROPS.values()))))"); do
  ./ocaml/build_model.sh "$p" > /dev/null || echo "driver build failed for $p"
done
[ -f harness/Cargo.lock ] || cp /repo/Cargo.lock harness/Cargo.lock
( cd harness && timeout 3000 cargo build --offline 2>&1 | tail -3 )
# feature crate (quic+webrtc) of the C01 extra stream: built here so that the first quick check does not pay for it
( timeout 3000 tools/c01_extra_streams.sh 1 1 > /dev/null 2>&1 ) || echo "c01 extra stream crate: build deferred to the check"
echo "setup done"
