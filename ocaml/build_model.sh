#!/bin/bash
# usage: build_model.sh C17   — extract coq/C17/Extract.v and build ocaml/build/C17/driver
set -e
P=$1
p=$(echo "$P" | tr 'A-Z' 'a-z')
V="$(cd "$(dirname "$0")/.." && pwd)"
B=$V/ocaml/build/$P
mkdir -p "$B"
cd "$B"
QS=$(grep -E '^-Q' $V/coq/_CoqProject | awk -v d=$V/coq '{print "-Q " d "/" $2 " " $3}' | tr '\n' ' ')
if [ ! -f driver ] || [ -n "$(find $V/coq $V/ocaml/driver.ml -newer driver \( -name '*.vo' -o -name 'driver.ml' \) 2>/dev/null | head -1)" ]; then
  timeout 600 coqc $QS -o "$B/Extract.vo" $V/coq/$P/Extract.v > extract.log 2>&1 || { cat extract.log; exit 1; }
  cp ${p}_model.ml model.ml
  # monolithic extraction renames a requested function when a dependency has the same base name
  # (e.g. V.Mgr.Glue.run_case under V.C05.Glue.run_case): the driver must see the requested one,
  # which is the last definition of that name
  for f in run_case prop_ok known_class; do
    last=$(grep -oE "^(let|and) (rec )?${f}[0-9]* " model.ml | awk '{print $NF}' | tail -1)
    if [ -n "$last" ] && [ "$last" != "$f" ]; then echo "let $f = $last" >> model.ml; fi
  done
  rm -f model.mli ${p}_model.mli
  cp $V/ocaml/driver.ml driver.ml
  timeout 600 ocamlfind ocamlopt -O3 -w -a model.ml driver.ml -o driver 2>build.log || timeout 600 ocamlfind ocamlopt -w -a model.ml driver.ml -o driver 2>build.log || { cat build.log; exit 1; }
fi
echo "$B/driver"
