(* Generic driver for the extracted models. Linked against a module Model exposing
     run_case : n list -> n list      prop_ok : n list -> n list -> bool
   where n is the extracted Coq type N. Lines are space-separated non-negative decimal integers
   (OCaml native ints, < 2^62).
     driver run  < cases > model_traces
     driver ok cases traces > verdicts   (one per line: 1 = property holds on the trace,
                                          0 = it fails, k<id> = it fails inside known class <id>) *)
open Model

let rec pos_of_int (i : int) : positive =
  if i = 1 then XH
  else if i land 1 = 0 then XO (pos_of_int (i lsr 1))
  else XI (pos_of_int (i lsr 1))

let n_of_int (i : int) : n = if i = 0 then N0 else Npos (pos_of_int i)

let rec int_of_pos (p : positive) : int =
  match p with XH -> 1 | XO q -> 2 * int_of_pos q | XI q -> 2 * int_of_pos q + 1

let int_of_n (x : n) : int = match x with N0 -> 0 | Npos p -> int_of_pos p

let parse_line (s : string) : n list =
  String.split_on_char ' ' s
  |> List.filter (fun t -> t <> "")
  |> List.map (fun t -> n_of_int (int_of_string t))

let print_line (oc : out_channel) (l : n list) : unit =
  let b = Buffer.create 256 in
  List.iteri (fun i x -> if i > 0 then Buffer.add_char b ' ';
               Buffer.add_string b (string_of_int (int_of_n x))) l;
  Buffer.add_char b '\n';
  output_string oc (Buffer.contents b)

let () =
  match Array.to_list Sys.argv with
  | [_; "run"] ->
      (try while true do
         let l = input_line stdin in
         print_line stdout (run_case (parse_line l))
       done with End_of_file -> ())
  | [_; "ok"; cases; traces] ->
      let ic = open_in cases and it = open_in traces in
      (try while true do
         let c = input_line ic in
         let t = input_line it in
         let c = parse_line c and t = parse_line t in
         print_endline
           (if prop_ok c t then "1"
            else match int_of_n (known_class c t) with
                 | 0 -> "0"
                 | k -> "k" ^ string_of_int k)
       done with End_of_file -> ())
  | _ -> prerr_endline "usage: driver run | driver ok <cases> <traces>"; exit 2
