(* C16 — "within bounded time".

   Bound.v bounds the NUMBER of events a fair schedule can contain.  Here the obligations of the
   environment carry the time at which they were created: a queued dial (per peer), a pending
   substream (per substream id), an executor future (per id).  A schedule is `timed D` when the clock
   never passes D beyond the birth of an obligation that is still outstanding — every dial is answered
   (ConnectionEstablished / DialFailure), every substream request is answered (Opened / OpenFailure),
   every future completes within D of its creation (for the futures that is the executor's own guarantee,
   D = WRITE_TIMEOUT + READ_TIMEOUT: C16_executor_bounded) — and time passes only while the loop waits
   in select! with the engine drained.  Then the k-th event of a fair schedule happens no later than
   D * k after its start: with the budget of Bound.v every operation has reported by D * (budget + 1). *)
From Coq Require Import List Arith NArith Bool Lia.
From V.C16 Require Import Model Proofs Obl Bound.
Import ListNotations.
Open Scope N_scope.

(* an obligation of the environment: (0, peer) queued dial, (1, substream id), (2, future id) *)
Definition okey := (N * N)%type.

Definition nonempty {A} (l : list A) : bool := match l with [] => false | _ => true end.

Definition okeys (s : st) : list okey :=
  map (fun x : N * list pact => (0, fst x)) (filter (fun x : N * list pact => nonempty (snd x)) (pdial s)) ++
  flat_map (fun x : N * list (N * pact) => map (fun y : N * pact => (1, fst y)) (snd x)) (peers s) ++
  map (fun f => (2, f_id f)) (futs s).

Definition okey_eqb (a b : okey) : bool := (fst a =? fst b) && (snd a =? snd b).
Fixpoint born_of (k : okey) (born : list (okey * N)) : option N :=
  match born with
  | [] => None
  | (k', t) :: r => if okey_eqb k' k then Some t else born_of k r
  end.

(* the obligations after a step: those that existed keep their birth, the new ones are born now *)
Definition restamp (t : N) (born : list (okey * N)) (ks : list okey) : list (okey * N) :=
  map (fun k => (k, match born_of k born with Some t0 => t0 | None => t end)) ks.

Fixpoint timed (D : N) (g : gcfg) (s : st) (born : list (okey * N)) (es : list ev) : Prop :=
  match es with
  | [] => True
  | e :: t =>
      let s' := fst (fst (step g s e)) in
      if is_tick e
      then quiescent s = true /\ (forall k t0, In (k, t0) born -> now s' <= t0 + D) /\ timed D g s' born t
      else timed D g s' (restamp (now s) born (okeys s')) t
  end.

(* ---- facts ---- *)

Lemma born_of_in : forall k born t, born_of k born = Some t -> exists k', In (k', t) born.
Proof.
  intros k born. induction born as [| [k' t'] r IH]; intros t H; [discriminate |]. cbn [born_of] in H.
  destruct (okey_eqb k' k).
  - inversion H. subst. exists k'. left. reflexivity.
  - destruct (IH t H) as [k0 H0]. exists k0. right. exact H0.
Qed.

Lemma restamp_bound : forall t born ks B,
  t <= B -> (forall k t0, In (k, t0) born -> t0 <= B) ->
  forall k t0, In (k, t0) (restamp t born ks) -> t0 <= B.
Proof.
  intros t born ks B Ht Hb k t0 Hin. unfold restamp in Hin. apply in_map_iff in Hin.
  destruct Hin as (k1 & E & _). inversion E as [[Ek Et]]. clear E. subst k1.
  destruct (born_of k born) as [t1 |] eqn:E1; [| exact Ht].
  destruct (born_of_in _ _ _ E1) as [k' H']. eapply Hb. exact H'.
Qed.

Lemma restamp_keys : forall t born ks, map fst (restamp t born ks) = ks.
Proof. intros. unfold restamp. rewrite map_map. cbn [fst]. apply map_id. Qed.

Lemma flat_map_nil : forall A B (f : A -> list B) l, flat_map f l = [] -> forall x, In x l -> f x = [].
Proof.
  intros A B f l. induction l as [| h t IH]; intros H x Hx; [destruct Hx |]. cbn [flat_map] in H.
  apply app_eq_nil in H. destruct H as [H1 H2]. destruct Hx as [<- | Hx]; [exact H1 | apply IH; assumption].
Qed.

Lemma okeys_nil : forall s, okeys s = [] ->
  (forall p a acts, aget p (pdial s) <> Some (a :: acts)) /\
  (forall p acts sid a, aget p (peers s) = Some acts -> aget sid acts <> Some a) /\
  futs s = [].
Proof.
  intros s H. unfold okeys in H. apply app_eq_nil in H. destruct H as [H1 H]. apply app_eq_nil in H. destruct H as [H2 H3].
  split; [| split].
  - intros p a acts A. apply aget_In in A. apply map_eq_nil in H1.
    assert (F : In (p, a :: acts) (filter (fun x : N * list pact => nonempty (snd x)) (pdial s))).
    { apply filter_In. split; [exact A | reflexivity]. }
    rewrite H1 in F. destruct F.
  - intros p acts sid a A Hs. apply aget_In in A.
    pose proof (flat_map_nil _ _ _ _ H2 (p, acts) A) as E. cbn [snd] in E. apply map_eq_nil in E. subst acts. discriminate Hs.
  - apply map_eq_nil in H3. exact H3.
Qed.

Lemma okeys_nil_idle : forall s, okeys s = [] -> idle s.
Proof.
  intros s H. destruct (okeys_nil s H) as (H1 & H2 & H3). intros k q p [O | [O | O]].
  - destruct O as (acts & a & A & Hin & _). destruct acts as [| a0 r]; [destruct Hin |]. exact (H1 _ _ _ A).
  - destruct O as (acts & sid & a & A & As & _). exact (H2 _ _ _ _ A As).
  - destruct O as (f & Hin & _). rewrite H3 in Hin. destruct Hin.
Qed.

(* nothing can happen to a node without queries and without obligations *)
Lemma finished_stuck : forall s e, eng s = [] -> okeys s = [] -> ~ productive s e.
Proof.
  intros s e He Hk Hp. destruct (okeys_nil s Hk) as (H1 & H2 & H3).
  destruct e; cbn [productive] in Hp; try contradiction.
  - unfold serve in Hp. rewrite He in Hp. discriminate Hp.
  - destruct Hp as (_ & _ & a & acts & A). exact (H1 _ _ _ A).
  - destruct Hp as (acts & a & A & As). exact (H2 _ _ _ _ A As).
  - destruct Hp as (p & acts & a & _ & A & As). exact (H2 _ _ _ _ A As).
  - destruct Hp as (a & acts & A). exact (H1 _ _ _ A).
  - destruct Hp as (f & A & _). rewrite H3 in A. discriminate A.
Qed.

(* ---- no handler touches the clock ---- *)
Lemma upd_q_now : forall s q f, now (upd_q s q f) = now s. Proof. reflexivity. Qed.
Lemma eng_fail_now : forall s q p, now (eng_fail s q p) = now s. Proof. reflexivity. Qed.
Lemma svc_open_now : forall s p, now (fst (svc_open s p)) = now s.
Proof. intros. unfold svc_open. destruct (aget p (conn s)) as [[|] |]; reflexivity. Qed.
Lemma track_sub_now : forall s p sid a, now (track_sub s p sid a) = now s. Proof. reflexivity. Qed.
Lemma push_dial_now : forall s p a, now (push_dial s p a) = now s. Proof. reflexivity. Qed.

Lemma open_or_dial_now : forall s p a, now (fst (open_or_dial s p a)) = now s.
Proof.
  intros s p a. unfold open_or_dial. pose proof (svc_open_now s p) as H1.
  destruct (svc_open s p) as [s1 [sid |]]; cbn [fst] in *; [exact H1 |].
  destruct (svc_dial s1 p); cbn [fst]; try exact H1.
  pose proof (svc_open_now s1 p) as H2. destruct (svc_open s1 p) as [s2 [sid |]]; cbn [fst] in *; exact (eq_trans H2 H1).
Qed.

Lemma fold_now : forall A (f : st -> A -> st) l,
  (forall s x, now (f s x) = now s) -> forall s, now (fold_left f l s) = now s.
Proof.
  intros A f l Hf. induction l as [| h t IH]; intro s; [reflexivity |]. cbn [fold_left]. rewrite IH. apply Hf.
Qed.

Lemma disconnect_peer_now : forall s p qo, now (disconnect_peer s p qo) = now s.
Proof.
  intros s p qo. unfold disconnect_peer.
  set (s1 := match qo with Some q => eng_fail s q p | None => s end).
  assert (H1 : now s1 = now s) by (subst s1; destruct qo; reflexivity).
  destruct (aget p (peers s1)); [| exact H1]. rewrite fold_now; [exact H1 |].
  intros s0 x. destruct (opt_is qo (a_q (snd x))); reflexivity.
Qed.

Lemma start_track_now : forall s pv q l qr, now (start_track s pv q l qr) = now s.
Proof.
  intros. unfold start_track. rewrite fold_now; [reflexivity |].
  intros s0 x. pose proof (open_or_dial_now s0 x (mkAct (if pv then AProv else APut) q)) as H.
  destruct (open_or_dial s0 x (mkAct (if pv then AProv else APut) q)) as [s2 ok]. cbn [fst] in H.
  destruct ok; [exact H | exact H].
Qed.

Lemma serve_now : forall s q, now (fst (fst (serve s q))) = now s.
Proof.
  intros s q. unfold serve. destruct (aget q (eng s)) as [[lk qr c ls | qr ps | pv pd n need] |]; try reflexivity.
  - destruct (V.C15.Model.next_action c ls (now s)) as [ls' a]. destruct a; try reflexivity.
    + pose proof (open_or_dial_now (set_q s q (QLookup lk qr c ls')) p (mkAct AFind q)) as H.
      destruct (open_or_dial (set_q s q (QLookup lk qr c ls')) p (mkAct AFind q)) as [s2 ok]. cbn [fst] in *.
      destruct ok; exact H.
    + destruct lk; try reflexivity; cbn [fst]; rewrite start_track_now; reflexivity.
  - cbn [fst]. rewrite start_track_now. reflexivity.
  - destruct pd; reflexivity.
Qed.

Lemma on_connection_established_now : forall s p, now (on_connection_established s p) = now s.
Proof.
  intros s p. unfold on_connection_established. destruct (aget p (peers s)); [reflexivity |].
  destruct (aget p (pdial s)); [| reflexivity]. rewrite fold_now; [reflexivity |].
  intros s0 a. pose proof (svc_open_now s0 p) as H. destruct (svc_open s0 p) as [s2 [sid |]]; exact H.
Qed.

Lemma on_outbound_substream_now : forall s p sid, now (on_outbound_substream s p sid) = now s.
Proof.
  intros s p sid. unfold on_outbound_substream. destruct (aget p (peers (w_psub s (adel sid (psub s))))) as [acts |]; [| reflexivity].
  destruct (aget sid acts) as [a |]; [| reflexivity]. destruct (a_kind a); try reflexivity.
  destruct (peer_wanted _ (a_q a) p); reflexivity.
Qed.

Lemma on_substream_open_failure_now : forall s sid, now (on_substream_open_failure s sid) = now s.
Proof.
  intros s sid. unfold on_substream_open_failure. destruct (aget sid (psub s)) as [p |]; [| reflexivity].
  destruct (aget p (peers (w_psub s (adel sid (psub s))))) as [acts |]; [| reflexivity].
  rewrite disconnect_peer_now. reflexivity.
Qed.

Lemma on_dial_failure_now : forall s p, now (on_dial_failure s p) = now s.
Proof.
  intros s p. unfold on_dial_failure. destruct (aget p (pdial s)); [| reflexivity].
  rewrite fold_now; [reflexivity | reflexivity].
Qed.

Lemma on_inbound_substream_now : forall s p id, now (on_inbound_substream s p id) = now s.
Proof. intros s p id. unfold on_inbound_substream. destruct (aget p (peers s)); reflexivity. Qed.

Lemma on_future_now : forall g s id r, now (fst (on_future g s id r)) = now s.
Proof.
  intros g s id r. unfold on_future. destruct (find_fut id (futs s)) as [f |]; [| reflexivity].
  destruct (res_ok (f_kind f) r); [| reflexivity].
  destruct r; cbn [fst].
  - destruct (f_q f); reflexivity.
  - destruct (f_q f); reflexivity.
  - rewrite disconnect_peer_now. reflexivity.
  - unfold on_message. destruct (f_q f); destruct (trunc_msg g m) as [ps | | hk rc ps | v | hk pv ps |];
      try destruct hk; try destruct v; reflexivity.
  - rewrite disconnect_peer_now. reflexivity.
Qed.

Lemma tick_state : forall g s d, fst (fst (step g s (ETick d))) = w_now s (now s + d).
Proof. reflexivity. Qed.

Lemma is_tick_inv : forall e, is_tick e = true -> exists d, e = ETick d.
Proof. intros e H. destruct e; try discriminate H. eauto. Qed.

Section Bounded.
Variables (D : N) (g : gcfg) (m : list (N * N)) (T0 : N).
Hypothesis Ha : 1 <= g_alpha g.

(* between events: all births are at most T0 + D n; the clock is there too, or one D further while
   something is outstanding, or the node has finished *)
Definition R (s : st) (born : list (okey * N)) (n : nat) : Prop :=
  (forall k t0, In (k, t0) born -> t0 <= T0 + D * N.of_nat n) /\
  map fst born = okeys s /\
  (now s <= T0 + D * N.of_nat n \/
   (born <> [] /\ now s <= T0 + D * N.of_nat (S n)) \/
   (eng s = [] /\ okeys s = [])).

Lemma bounded_gen : forall a e b es0 born n,
  let s := fst (run g (st0 m) es0) in
  R s born n -> is_tick e = false ->
  fair_run g s (a ++ e :: b) -> timed D g s born (a ++ e :: b) ->
  now (fst (run g s a)) <= T0 + D * N.of_nat (n + length (work a) + 1).
Proof.
  intros a. induction a as [| x a' IH]; intros e b es0 born n s HR He Hf Ht.
  - cbn [app run fst work filter length] in *. destruct Hf as (_ & Hp & _).
    destruct Hp as [Hp | Hp]; [congruence |].
    destruct HR as (_ & _ & [H | [[_ H] | [H1 H2]]]).
    + rewrite Nat.add_0_r, Nat.add_1_r, Nat2N.inj_succ. lia.
    + rewrite Nat.add_0_r, Nat.add_1_r. exact H.
    + exfalso. exact (finished_stuck s e H1 H2 Hp).
  - cbn [app] in Hf, Ht. rewrite run_cons. cbn [fst].
    destruct Hf as (Hi & Hp & Hf'). cbn [timed] in Ht.
    assert (Es : fst (fst (step g s x)) = fst (run g (st0 m) (es0 ++ [x]))).
    { rewrite run_app. cbn [fst]. fold s. rewrite run_cons. reflexivity. }
    destruct (is_tick x) eqn:Ex.
    + (* time passes *)
      destruct Ht as (Hq & Hb & Ht'). destruct (is_tick_inv x Ex) as [d ->].
      assert (W : work (ETick d :: a') = work a') by reflexivity. rewrite W.
      rewrite tick_state in Hb.
      rewrite Es in Hf', Ht' |- *. apply (IH e b (es0 ++ [ETick d]) born n); try assumption.
      rewrite <- Es. rewrite tick_state. destruct HR as (B1 & K & Hc).
      split; [exact B1 |]. split; [exact K |].
      destruct born as [| [k0 t0] r].
      * (* nothing outstanding and the engine drained: the node has finished *)
        right. right. cbn [map] in K. symmetry in K.
        assert (Hidle : idle s) by (apply okeys_nil_idle; exact K).
        split; [| exact K]. change (eng (w_now s (now s + d))) with (eng s).
        apply (idle_all_done g m es0 Ha); assumption.
      * right. left. split; [discriminate |].
        specialize (Hb k0 t0 (or_introl eq_refl)). cbn [now w_now] in *.
        specialize (B1 k0 t0 (or_introl eq_refl)). rewrite Nat2N.inj_succ. lia.
    + (* a productive event *)
      destruct Hp as [Hp | Hp]; [congruence |].
      assert (W : work (x :: a') = x :: work a') by (unfold work; cbn [filter]; rewrite Ex; reflexivity).
      rewrite W. cbn [length].
      assert (Hnow : now s <= T0 + D * N.of_nat (S n)).
      { destruct HR as (_ & _ & [H | [[_ H] | [H1 H2]]]).
        - rewrite Nat2N.inj_succ. lia.
        - exact H.
        - exfalso. exact (finished_stuck s x H1 H2 Hp). }
      assert (Hsame : now (fst (fst (step g s x))) = now s).
      { clear - Hp. destruct x; cbn [productive] in Hp; try contradiction; cbn [step fst].
        - apply serve_now.
        - destruct (aget p (conn s)); cbn [fst]; [reflexivity | rewrite on_connection_established_now; reflexivity].
        - apply on_outbound_substream_now.
        - apply on_substream_open_failure_now.
        - apply on_dial_failure_now.
        - pose proof (on_future_now g s id r) as F. destruct (on_future g s id r). exact F. }
      replace (n + S (length (work a')) + 1)%nat with (S n + length (work a') + 1)%nat by lia.
      rewrite Es in Hf', Ht |- *. apply (IH e b (es0 ++ [x]) (restamp (now s) born (okeys (fst (run g (st0 m) (es0 ++ [x]))))) (S n)); try assumption.
      rewrite <- Es. destruct HR as (B1 & _ & _).
      split; [| split].
      * apply restamp_bound; [exact Hnow |]. intros k t0 Hin. specialize (B1 k t0 Hin). rewrite Nat2N.inj_succ. lia.
      * apply restamp_keys.
      * left. rewrite Hsame. exact Hnow.
Qed.
End Bounded.

(* the k-th event of a fair, timed schedule without new work happens at most D * k after the start *)
Lemma bounded_time : forall D g m es0 a e b,
  1 <= g_alpha g -> is_tick e = false ->
  let s0 := fst (run g (st0 m) es0) in
  fair_run g s0 (a ++ e :: b) ->
  timed D g s0 (restamp (now s0) [] (okeys s0)) (a ++ e :: b) ->
  now (fst (run g s0 a)) <= now s0 + D * N.of_nat (S (length (work a))).
Proof.
  intros D g m es0 a e b Ha He s0 Hf Ht.
  pose proof (bounded_gen D g m (now s0) Ha a e b es0 (restamp (now s0) [] (okeys s0)) 0) as H.
  cbn zeta in H. fold s0 in H. replace (0 + length (work a) + 1)%nat with (S (length (work a))) in H by lia.
  apply H; try assumption.
  split; [| split].
  - apply restamp_bound; [cbn; lia | intros k t0 []].
  - apply restamp_keys.
  - left. cbn. lia.
Qed.

(* with the budget of Bound.v: every event of the schedule — in particular every terminal event it
   emits — happens within D * budget of its start *)
Lemma bounded_time_budget : forall D U g m es0 a e b,
  1 <= g_alpha g -> fresh_ids [] (es0 ++ a ++ e :: b) -> cmds_ok g es0 ->
  evs_in_U U es0 -> evs_in_U U (a ++ e :: b) -> is_tick e = false ->
  let s0 := fst (run g (st0 m) es0) in
  fair_run g s0 (a ++ e :: b) ->
  timed D g s0 (restamp (now s0) [] (okeys s0)) (a ++ e :: b) ->
  now (fst (run g s0 a)) <= now s0 + D * N.of_nat (budget (length U) g es0).
Proof.
  intros D U g m es0 a e b Ha Hfr Hc Hu0 Hu1 He s0 Hf Ht.
  pose proof (bounded_time D g m es0 a e b Ha He Hf Ht) as H1. cbn zeta in H1. fold s0 in H1.
  destruct (fair_terminates U g m es0 (a ++ e :: b) 0 Ha Hfr Hc Hu0 Hu1 Hf) as [H2 _].
  assert (W : (S (length (work a)) <= length (work (a ++ e :: b)))%nat).
  { unfold work. rewrite filter_app, app_length. cbn [filter]. rewrite He. cbn [negb length]. lia. }
  assert (L : N.of_nat (S (length (work a))) <= N.of_nat (budget (length U) g es0)) by lia.
  apply (N.mul_le_mono_l _ _ D) in L. lia.
Qed.
