(* C16 — at most one obligation per (kind, query, peer), and the strengthened quorum theorem. *)
From Coq Require Import List NArith Bool Lia ZifyBool ZifyNat ZifyN.
From V.C15 Require Proofs.
From V.C16 Require Import Model Proofs.
Import ListNotations.
Open Scope N_scope.

Arguments N.add : simpl never.
Arguments N.sub : simpl never.
Arguments N.eqb : simpl never.
Arguments N.ltb : simpl never.
Arguments N.leb : simpl never.
Arguments N.of_nat : simpl never.
Arguments aset : simpl never.
Arguments adel : simpl never.
Arguments aget : simpl never.

(* ------------------------------------------------------------------ counting in association lists *)

Lemma flen_adel : forall A (f : N * A -> bool) k l,
  (length (filter f (adel k l)) <= length (filter f l))%nat.
Proof.
  intros A f k l. unfold adel. induction l as [| x t IH]; [apply le_n |].
  cbn [filter]. destruct (negb (fst x =? k)); cbn [filter]; destruct (f x); cbn [length]; lia.
Qed.

Lemma flen_adel_hit : forall A (f : N * A -> bool) k v l,
  aget k l = Some v -> f (k, v) = true ->
  (S (length (filter f (adel k l))) <= length (filter f l))%nat.
Proof.
  intros A f k v l. unfold adel, aget. induction l as [| [k0 v0] t IH]; [discriminate |].
  cbn [fst filter]. destruct (N.eqb_spec k0 k) as [E | E]; cbn [negb].
  - intros H Hf. inversion H. subst. rewrite Hf. cbn [length].
    pose proof (flen_adel A f k t) as L. unfold adel in L. lia.
  - intros H Hf. specialize (IH H Hf). cbn [filter]. destruct (f (k0, v0)); cbn [length]; lia.
Qed.

Lemma flen_app : forall A (f : A -> bool) a b,
  length (filter f (a ++ b)) = (length (filter f a) + length (filter f b))%nat.
Proof. intros. rewrite filter_app, app_length. reflexivity. Qed.

Lemma flen_aset : forall A (f : N * A -> bool) k v l,
  (length (filter f (aset k v l)) <= length (filter f l) + (if f (k, v) then 1 else 0))%nat.
Proof.
  intros A f k v l. unfold aset. rewrite flen_app. pose proof (flen_adel A f k l) as L.
  cbn [filter]. destruct (f (k, v)); cbn [length]; lia.
Qed.

(* ------------------------------------------------------------------ counts under the primitive map updates *)

Definition hit (k : bool) (q p0 p : N) (a : pact) : nat :=
  if (p0 =? p) && act_is k q a then 1%nat else 0%nat.

Lemma cnt_same_glue : forall s s' k q p, same_glue s s' -> cnt s' k q p = cnt s k q p.
Proof.
  intros s s' k q p (A1 & A2 & A3 & A4 & _). unfold cnt, cnt_dial, cnt_sub, cnt_fut. rewrite A1, A3, A4. reflexivity.
Qed.

Lemma cnt_track_sub : forall s p sid a k q p0,
  (cnt (track_sub s p sid a) k q p0 <= cnt s k q p0 + hit k q p0 p a)%nat.
Proof.
  intros s p sid a k q p0. unfold cnt, cnt_dial, cnt_sub, cnt_fut, track_sub, add_paction, hit. proj.
  destruct (N.eqb_spec p0 p) as [E | E]; cbn [andb].
  - subst p0. rewrite ?N.eqb_refl. cbn [andb]. rewrite aget_aset_same. unfold pacts. proj.
    pose proof (flen_aset pact (fun x : N * pact => act_is k q (snd x)) sid a
                  (match aget p (peers s) with Some l => l | None => [] end)) as L. cbn [snd] in L.
    destruct (aget p (peers s)); cbn [filter length] in *; destruct (act_is k q a); lia.
  - rewrite aget_aset_other by exact E. lia.
Qed.

Lemma cnt_push_dial : forall s p a k q p0,
  (cnt (push_dial s p a) k q p0 <= cnt s k q p0 + hit k q p0 p a)%nat.
Proof.
  intros s p a k q p0. unfold cnt, cnt_dial, cnt_sub, cnt_fut, push_dial, hit. proj.
  destruct (N.eqb_spec p0 p) as [E | E]; cbn [andb].
  - subst p0. rewrite ?N.eqb_refl. cbn [andb]. rewrite aget_aset_same. rewrite flen_app. cbn [filter].
    destruct (aget p (pdial s)); cbn [filter length]; destruct (act_is k q a); cbn [length]; lia.
  - rewrite aget_aset_other by exact E. lia.
Qed.

Lemma cnt_add_fut : forall s f k q p,
  cnt (add_fut s f) k q p = (cnt s k q p + (if fut_for k q p f then 1 else 0))%nat.
Proof.
  intros s f k q p. unfold cnt, cnt_dial, cnt_sub, cnt_fut, add_fut. proj. rewrite flen_app. cbn [filter].
  destruct (fut_for k q p f); cbn [length]; lia.
Qed.

Lemma cnt_svc_open : forall s p k q p0, cnt (fst (svc_open s p)) k q p0 = cnt s k q p0.
Proof. intros s p k q p0. unfold svc_open. destruct (aget p (conn s)) as [[|] |]; reflexivity. Qed.

Lemma cnt_open_or_dial : forall s p a k q p0,
  (cnt (fst (open_or_dial s p a)) k q p0 <= cnt s k q p0 + hit k q p0 p a)%nat.
Proof.
  intros s p a k q p0. unfold open_or_dial.
  pose proof (cnt_svc_open s p k q p0) as E1. destruct (svc_open s p) as [s1 r]. cbn [fst] in E1.
  destruct r as [sid |]; cbn [fst].
  - pose proof (cnt_track_sub s1 p sid a k q p0). lia.
  - destruct (svc_dial s1 p); cbn [fst].
    + pose proof (cnt_push_dial s1 p a k q p0). lia.
    + pose proof (cnt_svc_open s1 p k q p0) as E2. destruct (svc_open s1 p) as [s2 r2]. cbn [fst] in E2.
      destruct r2 as [sid |]; cbn [fst]; [pose proof (cnt_track_sub s2 p sid a k q p0) |]; lia.
    + lia.
Qed.

Definition cnt_le (s s' : st) : Prop := forall k q p, (cnt s' k q p <= cnt s k q p)%nat.

Lemma cnt_le_refl : forall s, cnt_le s s.
Proof. intros s k q p. apply le_n. Qed.
Lemma cnt_le_trans : forall a b c, cnt_le a b -> cnt_le b c -> cnt_le a c.
Proof. intros a b c H1 H2 k q p. specialize (H1 k q p). specialize (H2 k q p). lia. Qed.
Lemma cnt_le_glue : forall s s', same_glue s s' -> cnt_le s s'.
Proof. intros s s' G k q p. rewrite (cnt_same_glue s s' k q p G). apply le_n. Qed.

Lemma cnt_le_fold : forall A (f : st -> A -> st) l,
  (forall s a, cnt_le s (f s a)) -> forall s, cnt_le s (fold_left f l s).
Proof.
  intros A f l H. induction l as [| a t IH]; intro s; cbn [fold_left]; [apply cnt_le_refl |].
  eapply cnt_le_trans; [apply H | apply IH].
Qed.

Lemma cnt_le_eng_fail : forall s q p, cnt_le s (eng_fail s q p).
Proof. intros. apply cnt_le_glue. apply eng_fail_glue. Qed.

Lemma cnt_le_upd : forall s q f, cnt_le s (upd_q s q f).
Proof. intros. apply cnt_le_glue. apply upd_q_glue. Qed.

(* removing a whole entry of pending_dials / peers *)
Lemma cnt_del_dial : forall s p k q p0,
  cnt (w_pdial s (adel p (pdial s))) k q p0 =
  (if p0 =? p then cnt_sub s k q p0 + cnt_fut s k q p0 else cnt s k q p0)%nat.
Proof.
  intros s p k q p0. unfold cnt, cnt_dial, cnt_sub, cnt_fut. proj. destruct (N.eqb_spec p0 p) as [E | E].
  - subst p0. rewrite aget_adel_same. reflexivity.
  - rewrite aget_adel_other by exact E. reflexivity.
Qed.

Lemma cnt_del_peer : forall s p, cnt_le s (w_peers s (adel p (peers s))).
Proof.
  intros s p k q p0. unfold cnt, cnt_dial, cnt_sub, cnt_fut. proj. destruct (N.eq_dec p0 p) as [E | E].
  - subst p0. rewrite aget_adel_same. lia.
  - rewrite aget_adel_other by exact E. lia.
Qed.

Lemma cnt_le_disconnect : forall s p qo, cnt_le s (disconnect_peer s p qo).
Proof.
  intros s p qo. unfold disconnect_peer.
  set (s1 := match qo with Some q => eng_fail s q p | None => s end).
  assert (L1 : cnt_le s s1) by (subst s1; destruct qo; [apply cnt_le_eng_fail | apply cnt_le_refl]).
  destruct (aget p (peers s1)); [| exact L1].
  eapply cnt_le_trans; [exact L1 |]. eapply cnt_le_trans; [apply cnt_del_peer |]. apply cnt_le_fold.
  intros s0 x. destruct (opt_is qo (a_q (snd x))); [apply cnt_le_refl | apply cnt_le_eng_fail].
Qed.

Lemma cnt_le_dial_failure : forall s p, cnt_le s (on_dial_failure s p).
Proof.
  intros s p. unfold on_dial_failure. destruct (aget p (pdial s)); [| apply cnt_le_refl].
  eapply cnt_le_trans; [| apply cnt_le_fold; intros s0 a; apply cnt_le_eng_fail].
  intros k q p0. rewrite cnt_del_dial. unfold cnt. destruct (p0 =? p); lia.
Qed.

Lemma cnt_le_inbound : forall s p id, cnt_le s (on_inbound_substream s p id).
Proof.
  intros s p id k q p0. unfold on_inbound_substream. rewrite cnt_add_fut.
  assert (F : fut_for k q p0 (mkFut id p None FInRead) = false) by (unfold fut_for, fut_is; cbn; reflexivity).
  rewrite F. destruct (aget p (peers s)) eqn:E; [lia |].
  unfold cnt, cnt_dial, cnt_sub, cnt_fut. proj. destruct (N.eq_dec p0 p) as [E2 | E2].
  - subst p0. rewrite aget_aset_same, E. cbn. lia.
  - rewrite aget_aset_other by exact E2. lia.
Qed.

(* taking one action out of peers[p] *)
Lemma cnt_take_action : forall s p acts sid a k q p0,
  aget p (peers s) = Some acts -> aget sid acts = Some a ->
  (cnt (w_peers s (aset p (adel sid acts) (peers s))) k q p0 + hit k q p0 p a <= cnt s k q p0)%nat.
Proof.
  intros s p acts sid a k q p0 Hp Ha. unfold cnt, cnt_dial, cnt_sub, cnt_fut, hit. proj.
  destruct (N.eqb_spec p0 p) as [E | E]; cbn [andb].
  - subst p0. rewrite ?N.eqb_refl. cbn [andb]. rewrite aget_aset_same, Hp. destruct (act_is k q a) eqn:Ek.
    + pose proof (flen_adel_hit pact (fun x : N * pact => act_is k q (snd x)) sid a acts Ha Ek). lia.
    + pose proof (flen_adel pact (fun x : N * pact => act_is k q (snd x)) sid acts). lia.
  - rewrite aget_aset_other by exact E. lia.
Qed.

Lemma cnt_le_psub : forall s x, cnt_le s (w_psub s x).
Proof. intros s x k q p. apply le_n. Qed.

Lemma fut_for_act : forall k q p0 sid p a fk,
  fut_is (find_act a) (mkFut sid p (Some (a_q a)) fk) = true ->
  (forall k', fut_is k' (mkFut sid p (Some (a_q a)) fk) = true -> k' = find_act a) ->
  (if fut_for k q p0 (mkFut sid p (Some (a_q a)) fk) then 1 else 0)%nat = hit k q p0 p a.
Proof.
  intros k q p0 sid p a fk H1 H2. unfold fut_for, hit, act_is. cbn [f_q f_peer opt_is].
  destruct (fut_is k (mkFut sid p (Some (a_q a)) fk)) eqn:Ek.
  - rewrite (H2 k Ek). rewrite Bool.eqb_reflx. cbn [andb]. rewrite (N.eqb_sym p p0).
    destruct (a_q a =? q); destruct (p0 =? p); reflexivity.
  - assert (Bool.eqb (find_act a) k = false).
    { destruct (Bool.eqb (find_act a) k) eqn:E; [| reflexivity]. apply Bool.eqb_prop in E. subst k. congruence. }
    rewrite H. cbn [andb]. destruct (p0 =? p); reflexivity.
Qed.

Lemma cnt_le_outbound : forall s p sid, cnt_le s (on_outbound_substream s p sid).
Proof.
  intros s p sid. unfold on_outbound_substream. set (s1 := w_psub s (adel sid (psub s))).
  destruct (aget p (peers s1)) as [acts |] eqn:Ep; [| apply cnt_le_psub].
  destruct (aget sid acts) as [a |] eqn:Ea; [| apply cnt_le_psub].
  intros k q p0. pose proof (cnt_take_action s1 p acts sid a k q p0 Ep Ea) as T.
  change (cnt s1 k q p0) with (cnt s k q p0) in T.
  set (s2 := w_peers s1 (aset p (adel sid acts) (peers s1))) in *.
  assert (F : forall fk, fut_is (find_act a) (mkFut sid p (Some (a_q a)) fk) = true ->
              (forall k', fut_is k' (mkFut sid p (Some (a_q a)) fk) = true -> k' = find_act a) ->
              (cnt (add_fut s2 (mkFut sid p (Some (a_q a)) fk)) k q p0 <= cnt s k q p0)%nat).
  { intros fk H1 H2. rewrite cnt_add_fut, (fut_for_act k q p0 sid p a fk H1 H2). lia. }
  destruct a as [[| |] qa]; cbn [a_kind a_q] in *.
  - destruct (peer_wanted s2 qa p); [| lia]. apply F; [reflexivity |].
    intros k' H. unfold fut_is in H. cbn in H. subst k'. reflexivity.
  - apply F; [reflexivity |]. intros k' H. unfold fut_is in H. cbn in H. destruct k'; [discriminate | reflexivity].
  - apply F; [reflexivity |]. intros k' H. unfold fut_is in H. cbn in H. destruct k'; [discriminate | reflexivity].
Qed.

Lemma cnt_le_open_failure : forall s sid, cnt_le s (on_substream_open_failure s sid).
Proof.
  intros s sid. unfold on_substream_open_failure. destruct (aget sid (psub s)) as [p |]; [| apply cnt_le_refl].
  set (s1 := w_psub s (adel sid (psub s))).
  destruct (aget p (peers s1)) as [acts |] eqn:Ep; [| apply cnt_le_psub].
  eapply cnt_le_trans; [| apply cnt_le_disconnect].
  intros k q p0. change (peers s1) with (peers s) in *. unfold cnt, cnt_dial, cnt_sub, cnt_fut. subst s1. proj.
  destruct (N.eq_dec p0 p) as [E | E].
  - subst p0. rewrite aget_aset_same, Ep.
    pose proof (flen_adel pact (fun x : N * pact => act_is k q (snd x)) sid acts). lia.
  - rewrite aget_aset_other by exact E. lia.
Qed.

(* on_connection_established: the queued actions move from pending_dials to pending_actions *)
Lemma cnt_est_fold : forall p acts s k q p0,
  (cnt (fold_left (est_step p) acts s) k q p0 <=
   cnt s k q p0 + (if p0 =? p then length (filter (act_is k q) acts) else 0))%nat.
Proof.
  intros p acts. induction acts as [| a t IH]; intros s k q p0; cbn [fold_left filter].
  - destruct (p0 =? p); cbn [length]; lia.
  - specialize (IH (est_step p s a) k q p0).
    assert (St : (cnt (est_step p s a) k q p0 <= cnt s k q p0 + hit k q p0 p a)%nat).
    { unfold est_step. pose proof (cnt_svc_open s p k q p0) as E1. destruct (svc_open s p) as [s2 r]. cbn [fst] in E1.
      destruct r as [sid |].
      - pose proof (cnt_track_sub s2 p sid a k q p0). lia.
      - pose proof (cnt_le_eng_fail s2 (a_q a) p k q p0). lia. }
    unfold hit in St. destruct (p0 =? p); cbn [andb] in St; [| lia].
    destruct (act_is k q a); cbn [length]; lia.
Qed.

Lemma cnt_le_established : forall s p, cnt_le s (on_connection_established s p).
Proof.
  intros s p. unfold on_connection_established.
  destruct (aget p (peers s)) eqn:Ep; [apply cnt_le_refl |].
  destruct (aget p (pdial s)) as [acts |] eqn:Ed; [| apply cnt_le_refl].
  intros k q p0. fold (est_step p).
  pose proof (cnt_est_fold p acts (w_peers (w_pdial s (adel p (pdial s))) (aset p [] (peers s))) k q p0) as F.
  assert (B : cnt (w_peers (w_pdial s (adel p (pdial s))) (aset p [] (peers s))) k q p0 =
              (if p0 =? p then cnt_fut s k q p0 else cnt s k q p0)).
  { unfold cnt, cnt_dial, cnt_sub, cnt_fut. proj. destruct (N.eqb_spec p0 p) as [E | E].
    - subst p0. rewrite aget_adel_same, aget_aset_same. reflexivity.
    - rewrite aget_adel_other, aget_aset_other by exact E. reflexivity. }
  rewrite B in F. destruct (N.eqb_spec p0 p) as [E | E]; [| lia].
  subst p0.
  assert (D : (cnt_fut s k q p + length (filter (act_is k q) acts) <= cnt s k q p)%nat).
  { unfold cnt, cnt_dial. rewrite Ed. lia. }
  lia.
Qed.

(* ------------------------------------------------------------------ engine relations, generically *)

Section EngRel.
  Variable R : qstate -> qstate -> Prop.
  Hypothesis R_refl : forall x, R x x.
  Hypothesis R_trans : forall a b c, R a b -> R b c -> R a c.
  Hypothesis R_sf : forall p x, R x (q_send_fail p x).
  Hypothesis R_rf : forall p x, R x (q_resp_fail p x).

  Definition erel (s s' : st) : Prop :=
    forall q x', aget q (eng s') = Some x' -> exists x, aget q (eng s) = Some x /\ R x x'.

  Lemma erel_refl : forall s, erel s s.
  Proof. intros s q x H. exists x. split; [exact H | apply R_refl]. Qed.

  Lemma erel_trans : forall a b c, erel a b -> erel b c -> erel a c.
  Proof.
    intros a b c H1 H2 q x H. destruct (H2 q x H) as (y & Hy & R1). destruct (H1 q y Hy) as (z & Hz & R2).
    exists z. split; [exact Hz | eapply R_trans; eassumption].
  Qed.

  Lemma erel_eng : forall s s', eng s' = eng s -> erel s s'.
  Proof. intros s s' E q x H. rewrite E in H. exists x. split; [exact H | apply R_refl]. Qed.

  Lemma erel_upd : forall s q f, (forall x, R x (f x)) -> erel s (upd_q s q f).
  Proof.
    intros s q f Hf q' x'. rewrite upd_q_get. destruct (q' =? q).
    - destruct (aget q' (eng s)) as [x |]; cbn [option_map]; [| discriminate]. intro H. inversion H. subst x'.
      exists x. split; [reflexivity | apply Hf].
    - intro H. exists x'. split; [exact H | apply R_refl].
  Qed.

  Lemma erel_fail : forall s q p, erel s (eng_fail s q p).
  Proof.
    intros. unfold eng_fail, eng_resp_fail, eng_send_fail.
    eapply erel_trans; apply erel_upd; [apply R_sf | apply R_rf].
  Qed.

  Lemma erel_fold : forall A (f : st -> A -> st) l,
    (forall s a, erel s (f s a)) -> forall s, erel s (fold_left f l s).
  Proof.
    intros A f l H. induction l as [| a t IH]; intro s; cbn [fold_left]; [apply erel_refl |].
    eapply erel_trans; [apply H | apply IH].
  Qed.

  Lemma erel_disconnect : forall s p qo, erel s (disconnect_peer s p qo).
  Proof.
    intros s p qo. unfold disconnect_peer.
    set (s1 := match qo with Some q => eng_fail s q p | None => s end).
    assert (L1 : erel s s1) by (subst s1; destruct qo; [apply erel_fail | apply erel_refl]).
    destruct (aget p (peers s1)); [| exact L1].
    eapply erel_trans; [exact L1 |]. eapply erel_trans; [| apply erel_fold].
    - apply erel_eng. reflexivity.
    - intros s0 x. destruct (opt_is qo (a_q (snd x))); [apply erel_refl | apply erel_fail].
  Qed.

  Lemma erel_established : forall s p, erel s (on_connection_established s p).
  Proof.
    intros s p. unfold on_connection_established.
    destruct (aget p (peers s)); [apply erel_refl |]. destruct (aget p (pdial s)); [| apply erel_refl].
    eapply erel_trans; [| apply erel_fold].
    - apply erel_eng. reflexivity.
    - intros s0 a. pose proof (svc_open_eng s0 p) as E. destruct (svc_open s0 p) as [s2 r]. cbn [fst] in E.
      destruct r; [apply erel_eng; unfold track_sub, add_paction; proj; exact E |].
      eapply erel_trans; [apply erel_eng; exact E | apply erel_fail].
  Qed.

  Lemma erel_outbound : forall s p sid, erel s (on_outbound_substream s p sid).
  Proof.
    intros s p sid. apply erel_eng. unfold on_outbound_substream.
    destruct (aget p (peers (w_psub s (adel sid (psub s))))) as [acts |]; [| reflexivity].
    destruct (aget sid acts) as [a |]; [| reflexivity].
    destruct (a_kind a); [destruct (peer_wanted _ _ _) | |]; reflexivity.
  Qed.

  Lemma erel_open_failure : forall s sid, erel s (on_substream_open_failure s sid).
  Proof.
    intros s sid. unfold on_substream_open_failure. destruct (aget sid (psub s)) as [p |]; [| apply erel_refl].
    destruct (aget p (peers (w_psub s (adel sid (psub s))))) as [acts |]; [| apply erel_eng; reflexivity].
    eapply erel_trans; [| apply erel_disconnect]. apply erel_eng. reflexivity.
  Qed.

  Lemma erel_dial_failure : forall s p, erel s (on_dial_failure s p).
  Proof.
    intros s p. unfold on_dial_failure. destruct (aget p (pdial s)); [| apply erel_refl].
    eapply erel_trans; [| apply erel_fold].
    - apply erel_eng. reflexivity.
    - intros s0 a. apply erel_fail.
  Qed.

  Lemma erel_inbound : forall s p id, erel s (on_inbound_substream s p id).
  Proof.
    intros s p id. apply erel_eng. unfold on_inbound_substream. destruct (aget p (peers s)); reflexivity.
  Qed.

  Lemma erel_set_q : forall s q x x', aget q (eng s) = Some x -> R x x' -> erel s (set_q s q x').
  Proof.
    intros s q x x' A Hr q' y. rewrite set_q_get. destruct (N.eqb_spec q' q) as [E | E].
    - subst q'. rewrite A. cbn [option_map]. intro H. inversion H. subst y. exists x. tauto.
    - intro H. exists y. split; [exact H | apply R_refl].
  Qed.

  Lemma erel_del_q : forall s q, erel s (del_q s q).
  Proof.
    intros s q q' y. unfold del_q. proj. intro H. apply aget_adel_some in H. exists y. split; [apply H | apply R_refl].
  Qed.

  Lemma erel_trk_fold : forall pv q l s, erel s (fold_left (trk_step pv q) l s).
  Proof.
    intros pv q l. apply erel_fold. intros s0 p. unfold trk_step.
    pose proof (open_or_dial_eng s0 p (mkAct (if pv then AProv else APut) q)) as E.
    destruct (open_or_dial s0 p (mkAct (if pv then AProv else APut) q)) as [s2 ok]. cbn [fst] in E.
    destruct ok; [apply erel_eng; exact E |].
    eapply erel_trans; [apply erel_eng; exact E | apply erel_upd; apply R_sf].
  Qed.
End EngRel.

(* ------------------------------------------------------------------ what stays true of a lookup *)

Record LI1 (c : L.cfg) (ls : L.state) : Prop := mkLI1 {
  l1_inv : LP.Inv c ls;
  l1_rs : LP.ssorted (L.resps ls);
  l1_rd : forall x, In x (L.resps ls) -> fst x = L.c_dist c (snd x) /\ In (snd x) (L.queried ls)
}.

Lemma LI1_init : forall c seeds, ~ In (L.c_local c) seeds -> LI1 c (L.init c seeds).
Proof.
  intros c seeds H. constructor.
  - apply LP.init_inv. exact H.
  - exact I.
  - intros x [].
Qed.

Lemma LI1_failure : forall c ls p, LI1 c ls -> LI1 c (L.on_failure c ls p).
Proof.
  intros c ls p [H1 H2 H3]. destruct (L.effective ls p) eqn:E.
  - destruct (LP.on_failure_eff c ls p E) as (A1 & A2 & A3 & A4 & A5 & A6 & _). constructor.
    + apply (LP.step_inv c ls (L.EFail p) H1).
    + rewrite A6. exact H2.
    + intros x Hx. rewrite A6 in Hx. destruct (H3 x Hx) as [B1 B2]. split; [exact B1 |].
      rewrite A2. apply LP.set_add_In. right. exact B2.
  - rewrite LP.on_failure_noeff by exact E. constructor; assumption.
Qed.

Lemma LI1_response : forall c ls p r, LI1 c ls -> LI1 c (L.on_response c ls p r).
Proof.
  intros c ls p r [H1 H2 H3]. destruct (L.effective ls p) eqn:E.
  - destruct (LP.on_response_eff c ls p r E) as (A1 & A2 & A3 & A4 & A5 & A6 & _). constructor.
    + apply (LP.step_inv c ls (L.EResp p r) H1).
    + rewrite A6. destruct (L.c_kind c); [apply LP.resp_insert_sorted | |]; exact H2.
    + intros x Hx. rewrite A6 in Hx. rewrite A2.
      assert (Old : In x (L.resps ls) -> fst x = L.c_dist c (snd x) /\ In (snd x) (L.set_add p (L.queried ls))).
      { intro K. destruct (H3 x K) as [B1 B2]. split; [exact B1 | apply LP.set_add_In; right; exact B2]. }
      destruct (L.c_kind c); [| apply Old; exact Hx | apply Old; exact Hx].
      apply LP.resp_insert_In in Hx. destruct Hx as [Hx | Hx]; [| apply Old; exact Hx].
      subst x. cbn [fst snd]. split; [reflexivity | apply LP.set_add_In; left; reflexivity].
  - rewrite LP.on_response_noeff by exact E. constructor; assumption.
Qed.

Lemma LI1_next : forall c ls t, LI1 c ls -> LI1 c (fst (L.next_action c ls t)).
Proof.
  intros c ls t [H1 H2 H3]. pose proof (LP.next_action_shape c ls t) as Sh.
  assert (Hi : LP.Inv c (fst (L.next_action c ls t))) by (apply (LP.step_inv c ls (L.ENext t) H1)).
  assert (Same : L.resps (fst (L.next_action c ls t)) = L.resps ls /\
                 L.queried (fst (L.next_action c ls t)) = L.queried ls).
  { inversion Sh; subst.
    - match goal with H : LP.same7 _ _ |- _ => destruct H as (_ & _ & Q & Rr & _) end. tauto.
    - tauto.
    - tauto.
    - match goal with H : LP.same7 _ _ |- _ => destruct H as (_ & _ & Q & Rr & _) end. tauto. }
  destruct Same as [S1 S2]. constructor; [exact Hi | rewrite S1; exact H2 |].
  intros x Hx. rewrite S1 in Hx. rewrite S2. apply H3. exact Hx.
Qed.

(* failures only *)
Inductive fails (c : L.cfg) : L.state -> L.state -> Prop :=
| fails_refl : forall ls, fails c ls ls
| fails_step : forall ls ls' p, fails c ls ls' -> fails c ls (L.on_failure c ls' p).

Lemma fails_trans : forall c a b d, fails c a b -> fails c b d -> fails c a d.
Proof. intros c a b d H1 H2. induction H2; [exact H1 | apply fails_step; apply IHfails; exact H1]. Qed.

Lemma failure_sets : forall c ls p,
  L.resps (L.on_failure c ls p) = L.resps ls /\
  (forall p', In p' (map fst (L.pend ls)) \/ In p' (L.queried ls) ->
              In p' (map fst (L.pend (L.on_failure c ls p))) \/ In p' (L.queried (L.on_failure c ls p))).
Proof.
  intros c ls p. destruct (L.effective ls p) eqn:E.
  - destruct (LP.on_failure_eff c ls p E) as (A1 & A2 & A3 & A4 & A5 & A6 & _). split; [exact A6 |].
    intros p' H. rewrite A1, A2. destruct (N.eq_dec p' p) as [Ep | Ep].
    + right. apply LP.set_add_In. left. exact Ep.
    + destruct H as [H | H]; [left; apply LP.premove_fst; tauto | right; apply LP.set_add_In; right; exact H].
  - rewrite LP.on_failure_noeff by exact E. tauto.
Qed.

Lemma fails_facts : forall c ls ls', fails c ls ls' ->
  (LI1 c ls -> LI1 c ls') /\ L.resps ls' = L.resps ls /\
  (forall p', In p' (map fst (L.pend ls)) \/ In p' (L.queried ls) ->
              In p' (map fst (L.pend ls')) \/ In p' (L.queried ls')).
Proof.
  intros c ls ls' H. induction H as [| ls ls' p H IH]; [tauto |].
  destruct IH as (I1 & I2 & I3). destruct (failure_sets c ls' p) as [F1 F2].
  split; [intro K; apply LI1_failure; apply I1; exact K |]. split; [congruence |].
  intros p' K. apply F2. apply I3. exact K.
Qed.

Definition qrel3 (x x' : qstate) : Prop :=
  match x, x' with
  | QLookup lk qr c ls, QLookup lk' qr' c' ls' => lk' = lk /\ qr' = qr /\ c' = c /\ fails c ls ls'
  | QToPeers qr ps, QToPeers qr' ps' => qr' = qr /\ ps' = ps
  | QTrack pv pd n need, QTrack pv' pd' n' need' =>
      pv' = pv /\ need' = need /\ (forall p, In p pd' -> In p pd)
  | _, _ => False
  end.

Lemma qrel3_refl : forall x, qrel3 x x.
Proof. intros [lk qr c ls | qr ps | pv pd n need]; cbn; auto. repeat split; auto. apply fails_refl. Qed.

Lemma qrel3_trans : forall a b c, qrel3 a b -> qrel3 b c -> qrel3 a c.
Proof.
  intros [lk qr c0 ls | qr ps | pv pd n need] [lk1 qr1 c1 ls1 | qr1 ps1 | pv1 pd1 n1 need1]
         [lk2 qr2 c2 ls2 | qr2 ps2 | pv2 pd2 n2 need2]; cbn; try tauto.
  - intros (A & B & C & D) (E & F & G & H). subst. repeat split; auto. eapply fails_trans; eassumption.
  - intros [A B] [C D]. split; congruence.
  - intros (A & B & C) (E & F & G). repeat split; try congruence. auto.
Qed.

Lemma qrel3_sf : forall p x, qrel3 x (q_send_fail p x).
Proof.
  intros p [lk qr c ls | qr ps | pv pd n need]; cbn; auto.
  - repeat split; auto. apply fails_refl.
  - repeat split; auto. intros p0 H. apply nremove_In in H. apply H.
Qed.

Lemma qrel3_rf : forall p x, qrel3 x (q_resp_fail p x).
Proof.
  intros p [lk qr c ls | qr ps | pv pd n need]; cbn; auto.
  repeat split; auto. apply fails_step. apply fails_refl.
Qed.

Definition erel3 := erel qrel3.

Lemma qrel3_so : forall p x, qrel3 x (q_send_ok p x).
Proof.
  intros p [lk qr c ls | qr ps | pv pd n need]; cbn [q_send_ok]; try apply qrel3_refl.
  destruct (nmem p pd); [| apply qrel3_refl]. cbn. repeat split; auto.
  intros p0 H. apply nremove_In in H. apply H.
Qed.

(* ------------------------------------------------------------------ futures of queries are request futures *)

Definition fut_okP (f : fut) : Prop := f_q f = None \/ fut_is true f = true \/ fut_is false f = true.
Definition futs_ok (s : st) : Prop := forall f, In f (futs s) -> fut_okP f.
Definition futs_same (s s' : st) : Prop := futs s' = futs s.

Lemma futs_same_trans : forall a b c, futs_same a b -> futs_same b c -> futs_same a c.
Proof. unfold futs_same. intros. congruence. Qed.

Lemma futs_same_glue : forall s s', same_glue s s' -> futs_same s s'.
Proof. intros s s' (_ & _ & _ & A & _). exact A. Qed.

Lemma futs_same_fold : forall A (f : st -> A -> st) l,
  (forall s a, futs_same s (f s a)) -> forall s, futs_same s (fold_left f l s).
Proof.
  intros A f l H. induction l as [| a t IH]; intro s; cbn [fold_left]; [reflexivity |].
  eapply futs_same_trans; [apply H | apply IH].
Qed.

Lemma futs_open : forall s p, futs (fst (svc_open s p)) = futs s.
Proof. intros s p. unfold svc_open. destruct (aget p (conn s)) as [[|] |]; reflexivity. Qed.

Lemma futs_open_or_dial : forall s p a, futs (fst (open_or_dial s p a)) = futs s.
Proof.
  intros s p a. unfold open_or_dial. pose proof (futs_open s p) as E1.
  destruct (svc_open s p) as [s1 r]. cbn [fst] in E1. destruct r as [sid |]; [exact E1 |].
  destruct (svc_dial s1 p); [exact E1 | | exact E1].
  pose proof (futs_open s1 p) as E2. destruct (svc_open s1 p) as [s2 r2]. cbn [fst] in E2.
  destruct r2; cbn [fst]; unfold track_sub, add_paction; proj; congruence.
Qed.

Lemma futs_disconnect : forall s p qo, futs_same s (disconnect_peer s p qo).
Proof.
  intros s p qo. unfold disconnect_peer.
  set (s1 := match qo with Some q => eng_fail s q p | None => s end).
  assert (L1 : futs_same s s1) by (subst s1; destruct qo; [apply futs_same_glue; apply eng_fail_glue | reflexivity]).
  destruct (aget p (peers s1)); [| exact L1].
  eapply futs_same_trans; [exact L1 |]. eapply futs_same_trans; [| apply futs_same_fold].
  - reflexivity.
  - intros s0 x. destruct (opt_is qo (a_q (snd x))); [reflexivity | apply futs_same_glue; apply eng_fail_glue].
Qed.

Lemma futs_established : forall s p, futs_same s (on_connection_established s p).
Proof.
  intros s p. unfold on_connection_established.
  destruct (aget p (peers s)); [reflexivity |]. destruct (aget p (pdial s)); [| reflexivity].
  eapply futs_same_trans; [| apply futs_same_fold].
  - reflexivity.
  - intros s0 a. pose proof (futs_open s0 p) as E. destruct (svc_open s0 p) as [s2 r]. cbn [fst] in E.
    destruct r; [unfold futs_same, track_sub, add_paction; proj; exact E |].
    eapply futs_same_trans; [exact E | apply futs_same_glue; apply eng_fail_glue].
Qed.

Lemma futs_dial_failure : forall s p, futs_same s (on_dial_failure s p).
Proof.
  intros s p. unfold on_dial_failure. destruct (aget p (pdial s)); [| reflexivity].
  eapply futs_same_trans; [| apply futs_same_fold; intros s0 a; apply futs_same_glue; apply eng_fail_glue]. reflexivity.
Qed.

Lemma futs_open_failure : forall s sid, futs_same s (on_substream_open_failure s sid).
Proof.
  intros s sid. unfold on_substream_open_failure. destruct (aget sid (psub s)) as [p |]; [| reflexivity].
  destruct (aget p (peers (w_psub s (adel sid (psub s))))) as [acts |]; [| reflexivity].
  eapply futs_same_trans; [| apply futs_disconnect]. reflexivity.
Qed.

Lemma futs_trk_fold : forall pv q l s, futs_same s (fold_left (trk_step pv q) l s).
Proof.
  intros pv q l. apply futs_same_fold. intros s0 p. unfold trk_step.
  pose proof (futs_open_or_dial s0 p (mkAct (if pv then AProv else APut) q)) as E.
  destruct (open_or_dial s0 p (mkAct (if pv then AProv else APut) q)) as [s2 ok]. cbn [fst] in E.
  destruct ok; [exact E |]. eapply futs_same_trans; [exact E | apply futs_same_glue; apply upd_q_glue].
Qed.

Lemma futs_ok_same : forall s s', futs_same s s' -> futs_ok s -> futs_ok s'.
Proof. intros s s' E H f. rewrite E. apply H. Qed.

Lemma futs_ok_add : forall s f, fut_okP f -> futs_ok s -> futs_ok (add_fut s f).
Proof.
  intros s f Hf H f0. unfold add_fut. proj. intro K. apply in_app_or in K.
  destruct K as [K | [K | []]]; [apply H; exact K | subst f0; exact Hf].
Qed.

Lemma del_fut_sub : forall id l x, In x (del_fut id l) -> In x l.
Proof.
  intros id l x. induction l as [| h t IH]; [intros [] |]. cbn [del_fut].
  destruct (f_id h =? id); [intro H; right; exact H |]. intros [H | H]; [left; exact H | right; apply IH; exact H].
Qed.

Lemma futs_ok_outbound : forall s p sid, futs_ok s -> futs_ok (on_outbound_substream s p sid).
Proof.
  intros s p sid H. unfold on_outbound_substream. set (s1 := w_psub s (adel sid (psub s))).
  destruct (aget p (peers s1)) as [acts |]; [| exact H]. destruct (aget sid acts) as [a |]; [| exact H].
  destruct (a_kind a); [destruct (peer_wanted _ _ _); [| exact H] | |];
    (apply futs_ok_add; [right; unfold fut_is; cbn; tauto | exact H]).
Qed.

Lemma futs_ok_on_message : forall g s id p qo m, futs_ok s -> futs_ok (fst (on_message g s id p qo m)).
Proof.
  intros g s id p qo m H. unfold on_message. destruct qo as [q |].
  - destruct m; cbn [fst]; (eapply futs_ok_same; [apply futs_same_glue; apply upd_q_glue | exact H]).
  - destruct m as [ps | | [|] r ps | [|] | [|] pv ps |]; cbn [fst]; first [exact H | apply futs_ok_add; [left; reflexivity | exact H]].
Qed.

Lemma futs_ok_on_future : forall g s id r, futs_ok s -> futs_ok (fst (on_future g s id r)).
Proof.
  intros g s id r H. unfold on_future. destruct (find_fut id (futs s)) as [f |]; [| exact H].
  destruct (res_ok (f_kind f) r); [| exact H].
  assert (H1 : futs_ok (w_futs s (del_fut id (futs s)))).
  { intros f0 K. proj_in K. apply H. eapply del_fut_sub. exact K. }
  assert (SO : futs_ok (match f_q f with Some q => eng_send_ok (w_futs s (del_fut id (futs s))) q (f_peer f)
                                        | None => w_futs s (del_fut id (futs s)) end)).
  { destruct (f_q f); [| exact H1]. eapply futs_ok_same; [apply futs_same_glue; apply upd_q_glue | exact H1]. }
  destruct r as [| | | m |]; cbn [fst].
  - exact SO.
  - exact SO.
  - eapply futs_ok_same; [apply futs_disconnect | exact H1].
  - apply futs_ok_on_message. exact SO.
  - eapply futs_ok_same; [apply futs_disconnect | exact H1].
Qed.

(* ------------------------------------------------------------------ the invariant *)

Definition visited (ls : L.state) (p : N) : Prop := In p (map fst (L.pend ls)) \/ In p (L.queried ls).

Record OInv (s : st) (seen : list N) : Prop := mkOI {
  oi_one : forall k q p, (cnt s k q p <= 1)%nat;
  oi_seen : forall k q p, (1 <= cnt s k q p)%nat -> In q seen;
  oi_live : forall q, live q s = true -> In q seen;
  oi_futs : futs_ok s;
  oi_lk : forall q lk qr c ls, aget q (eng s) = Some (QLookup lk qr c ls) ->
            LI1 c ls /\
            (forall p, (1 <= cnt s true q p)%nat -> visited ls p /\ ~ In p (map snd (L.resps ls))) /\
            (forall p, cnt s false q p = 0%nat);
  oi_tp : forall q qr ps, aget q (eng s) = Some (QToPeers qr ps) ->
            NoDup ps /\ forall k p, cnt s k q p = 0%nat;
  oi_tr : forall q pv pd n need, aget q (eng s) = Some (QTrack pv pd n need) ->
            forall p, In p pd -> cnt s true q p = 0%nat
}.

Lemma OInv_rel : forall s s' seen,
  OInv s seen -> cnt_le s s' -> erel3 s s' -> (forall q, live q s' = true -> live q s = true) ->
  futs_ok s' -> OInv s' seen.
Proof.
  intros s s' seen [H1 H2 H3 H4 H5 H6 H7] Hc Hr Hl Hf. constructor.
  - intros k q p. specialize (Hc k q p). specialize (H1 k q p). lia.
  - intros k q p K. apply (H2 k q p). specialize (Hc k q p). lia.
  - intros q K. apply H3. apply Hl. exact K.
  - exact Hf.
  - intros q lk qr c ls A. destruct (Hr q _ A) as (x & B & C).
    destruct x as [lk0 qr0 c0 ls0 | |]; cbn in C; try contradiction. destruct C as (E1 & E2 & E3 & F). subst.
    destruct (H5 q _ _ _ _ B) as (K1 & K2 & K3). destruct (fails_facts _ _ _ F) as (F1 & F2 & F3).
    split; [apply F1; exact K1 |]. split.
    + intros p K. assert (K' : (1 <= cnt s true q p)%nat) by (specialize (Hc true q p); lia).
      destruct (K2 p K') as [V1 V2]. split; [apply F3; exact V1 | rewrite F2; exact V2].
    + intro p. specialize (Hc false q p). specialize (K3 p). lia.
  - intros q qr ps A. destruct (Hr q _ A) as (x & B & C).
    destruct x as [| qr0 ps0 |]; cbn in C; try contradiction. destruct C as [E1 E2]. subst.
    destruct (H6 q _ _ B) as [K1 K2]. split; [exact K1 |]. intros k p. specialize (Hc k q p). specialize (K2 k p). lia.
  - intros q pv pd n need A p Hp. destruct (Hr q _ A) as (x & B & C).
    destruct x as [| | pv0 pd0 n0 need0]; cbn in C; try contradiction. destruct C as (E1 & E2 & E3). subst.
    specialize (H7 q _ _ _ _ B p (E3 p Hp)). specialize (Hc true q p). lia.
Qed.

Lemma cnt_del_fut : forall s id f k q p,
  find_fut id (futs s) = Some f ->
  (cnt (w_futs s (del_fut id (futs s))) k q p + (if fut_for k q p f then 1 else 0))%nat = cnt s k q p.
Proof.
  intros s id f k q p. unfold cnt, cnt_dial, cnt_sub, cnt_fut. proj. generalize (futs s). intro l.
  induction l as [| h t IH]; [discriminate |]. cbn [find_fut del_fut].
  destruct (f_id h =? id).
  - intro H. inversion H. subst h. cbn [filter]. destruct (fut_for k q p f); cbn [length]; lia.
  - intro H. specialize (IH H). cbn [filter]. destruct (fut_for k q p h); cbn [length]; lia.
Qed.

Lemma response_sets : forall c ls p r,
  (forall p', visited ls p' -> visited (L.on_response c ls p r) p') /\
  (forall x, In x (L.resps (L.on_response c ls p r)) -> snd x = p \/ In x (L.resps ls)).
Proof.
  intros c ls p r. destruct (L.effective ls p) eqn:E.
  - destruct (LP.on_response_eff c ls p r E) as (A1 & A2 & A3 & A4 & A5 & A6 & _). split.
    + intros p' H. unfold visited. rewrite A1, A2. destruct (N.eq_dec p' p) as [Ep | Ep].
      * right. apply LP.set_add_In. left. exact Ep.
      * destruct H as [H | H]; [left; apply LP.premove_fst; tauto | right; apply LP.set_add_In; right; exact H].
    + intros x Hx. rewrite A6 in Hx. destruct (L.c_kind c); [| right; exact Hx | right; exact Hx].
      apply LP.resp_insert_In in Hx. destruct Hx as [Hx | Hx]; [left; subst x; reflexivity | right; exact Hx].
  - rewrite LP.on_response_noeff by exact E. split; [tauto | intros x Hx; right; exact Hx].
Qed.

(* register_response for (q, p) when the request future of (q, p) has just been consumed *)
Lemma OInv_response : forall s seen q p m,
  OInv s seen ->
  (forall lk qr c ls, aget q (eng s) = Some (QLookup lk qr c ls) -> cnt s true q p = 0%nat) ->
  OInv (upd_q s q (q_response p m)) seen.
Proof.
  intros s seen q p m HI Hz. pose proof HI as [H1 H2 H3 H4 H5 H6 H7].
  assert (Ce : forall k q0 p0, cnt (upd_q s q (q_response p m)) k q0 p0 = cnt s k q0 p0).
  { intros. apply cnt_same_glue. apply upd_q_glue. }
  constructor.
  - intros k q0 p0. rewrite Ce. apply H1.
  - intros k q0 p0. rewrite Ce. apply H2.
  - intros q0. rewrite live_upd. apply H3.
  - eapply futs_ok_same; [apply futs_same_glue; apply upd_q_glue | exact H4].
  - intros q0 lk qr c ls. rewrite upd_q_get. destruct (N.eqb_spec q0 q) as [E | E].
    + subst q0. destruct (aget q (eng s)) as [x |] eqn:Ex; cbn [option_map]; [| discriminate].
      intro A. inversion A as [A']. clear A.
      destruct x as [lk0 qr0 c0 ls0 | |]; cbn [q_response] in A'; try discriminate.
      destruct (H5 q _ _ _ _ Ex) as (K1 & K2 & K3). specialize (Hz _ _ _ _ eq_refl).
      assert (Fail : QLookup lk0 qr0 c0 (L.on_failure c0 ls0 p) = QLookup lk qr c ls ->
                LI1 c ls /\ (forall p0, (1 <= cnt (upd_q s q (q_response p m)) true q p0)%nat ->
                                        visited ls p0 /\ ~ In p0 (map snd (L.resps ls))) /\
                (forall p0, cnt (upd_q s q (q_response p m)) false q p0 = 0%nat)).
      { intro Q. inversion Q. subst. destruct (failure_sets c ls0 p) as [F1 F2].
        split; [apply LI1_failure; exact K1 |]. split.
        - intros p0. rewrite Ce. intro K. destruct (K2 p0 K) as [V1 V2]. split; [apply F2; exact V1 | rewrite F1; exact V2].
        - intro p0. rewrite Ce. apply K3. }
      assert (Resp : forall rep, QLookup lk0 qr0 c0 (L.on_response c0 ls0 p rep) = QLookup lk qr c ls ->
                LI1 c ls /\ (forall p0, (1 <= cnt (upd_q s q (q_response p m)) true q p0)%nat ->
                                        visited ls p0 /\ ~ In p0 (map snd (L.resps ls))) /\
                (forall p0, cnt (upd_q s q (q_response p m)) false q p0 = 0%nat)).
      { intros rep Q. inversion Q. subst. destruct (response_sets c ls0 p rep) as [F1 F2].
        split; [apply LI1_response; exact K1 |]. split.
        - intros p0. rewrite Ce. intro K. destruct (K2 p0 K) as [V1 V2]. split; [apply F1; exact V1 |].
          intro Hin. apply in_map_iff in Hin. destruct Hin as (x & Hx1 & Hx2).
          destruct (F2 x Hx2) as [Hp | Hold].
          + assert (E0 : p0 = p) by congruence. rewrite E0 in K. lia.
          + apply V2. apply in_map_iff. exists x. tauto.
        - intro p0. rewrite Ce. apply K3. }
      destruct lk0, m; first [apply Fail; exact A' | eapply Resp; exact A'].
    + intro A. destruct (H5 q0 _ _ _ _ A) as (K1 & K2 & K3). split; [exact K1 |]. split.
      * intros p0. rewrite Ce. apply K2.
      * intros p0. rewrite Ce. apply K3.
  - intros q0 qr ps. rewrite upd_q_get. destruct (N.eqb_spec q0 q) as [E | E].
    + subst q0. destruct (aget q (eng s)) as [x |] eqn:Ex; cbn [option_map]; [| discriminate].
      intro A. inversion A as [A']. destruct x as [lk0 qr0 c0 ls0 | |]; cbn [q_response] in A';
        [destruct lk0, m; discriminate | | discriminate].
      inversion A'. subst. destruct (H6 q _ _ Ex) as [K1 K2]. split; [exact K1 |]. intros k p0. rewrite Ce. apply K2.
    + intro A. destruct (H6 q0 _ _ A) as [K1 K2]. split; [exact K1 |]. intros k p0. rewrite Ce. apply K2.
  - intros q0 pv pd n need. rewrite upd_q_get. destruct (N.eqb_spec q0 q) as [E | E].
    + subst q0. destruct (aget q (eng s)) as [x |] eqn:Ex; cbn [option_map]; [| discriminate].
      intro A. inversion A as [A']. destruct x as [lk0 qr0 c0 ls0 | |]; cbn [q_response] in A';
        [destruct lk0, m; discriminate | discriminate |].
      inversion A'. subst. intros p0 Hp. rewrite Ce. eapply H7; eassumption.
    + intros A p0 Hp. rewrite Ce. eapply H7; eassumption.
Qed.

Lemma fut_for_none : forall k q p0 id p fk, fut_for k q p0 (mkFut id p None fk) = false.
Proof. intros. unfold fut_for. cbn [f_q opt_is]. rewrite andb_false_r. reflexivity. Qed.

Lemma OInv_on_future : forall g s seen id r, OInv s seen -> OInv (fst (on_future g s id r)) seen.
Proof.
  intros g s seen id r HI. pose proof (futs_ok_on_future g s id r (oi_futs _ _ HI)) as FO. revert FO.
  unfold on_future. destruct (find_fut id (futs s)) as [f |] eqn:Ef; [| intros _; exact HI].
  destruct (res_ok (f_kind f) r) eqn:Eok; [| intros _; exact HI]. intro FO.
  set (s1 := w_futs s (del_fut id (futs s))) in *.
  assert (C1 : cnt_le s s1).
  { intros k q p. pose proof (cnt_del_fut s id f k q p Ef). fold s1 in H. lia. }
  assert (F1 : futs_ok s1).
  { intros f0 K. subst s1. proj_in K. apply (oi_futs _ _ HI). eapply del_fut_sub. exact K. }
  assert (I1 : OInv s1 seen).
  { apply (OInv_rel s s1 seen HI C1); [apply erel_eng; [apply qrel3_refl | reflexivity] | auto | exact F1]. }
  set (s2 := match f_q f with Some q => eng_send_ok s1 q (f_peer f) | None => s1 end) in *.
  assert (I2 : OInv s2 seen).
  { subst s2. destruct (f_q f) as [q |]; [| exact I1]. unfold eng_send_ok.
    apply (OInv_rel s1 _ seen I1); [apply cnt_le_upd | apply erel_upd; [apply qrel3_refl | apply qrel3_so] | |].
    - intros q0 K. rewrite live_upd in K. exact K.
    - eapply futs_ok_same; [apply futs_same_glue; apply upd_q_glue | exact F1]. }
  assert (Disc : OInv (disconnect_peer s1 (f_peer f) (f_q f)) seen).
  { apply (OInv_rel s1 _ seen I1); [apply cnt_le_disconnect | | |].
    - apply erel_disconnect; [apply qrel3_refl | apply qrel3_trans | apply qrel3_sf | apply qrel3_rf].
    - intros q0 K. rewrite live_disconnect in K. exact K.
    - eapply futs_ok_same; [apply futs_disconnect | exact F1]. }
  destruct r as [| | | m |]; cbn [fst] in *; try exact I2; try exact Disc.
  (* ReadSuccess *)
  unfold on_message in *. destruct (f_q f) as [q0 |] eqn:Eq.
  - assert (Rf : OInv (eng_resp_fail s2 q0 (f_peer f)) seen).
    { unfold eng_resp_fail. apply (OInv_rel s2 _ seen I2); [apply cnt_le_upd | apply erel_upd; [apply qrel3_refl | apply qrel3_rf] | |].
      - intros q1 K. rewrite live_upd in K. exact K.
      - eapply futs_ok_same; [apply futs_same_glue; apply upd_q_glue | apply (oi_futs _ _ I2)]. }
    assert (Rs : forall m0, OInv (eng_response s2 q0 (f_peer f) m0) seen).
    { intro m0. unfold eng_response. apply OInv_response; [exact I2 |].
      intros lk qr c ls A. subst s2. unfold eng_send_ok in *. rewrite upd_q_get, N.eqb_refl in A.
      change (eng s1) with (eng s) in A.
      destruct (aget q0 (eng s)) as [x |] eqn:Ex; cbn [option_map] in A; [| discriminate].
      assert (x = QLookup lk qr c ls).
      { destruct x as [lk1 qr1 c1 ls1 | |]; cbn [q_send_ok] in A; [congruence | discriminate |].
        destruct (nmem (f_peer f) pending); discriminate. }
      subst x. destruct (oi_lk _ _ HI q0 _ _ _ _ Ex) as (_ & _ & K3).
      rewrite (cnt_same_glue s1 (upd_q s1 q0 (q_send_ok (f_peer f))) true q0 (f_peer f) (upd_q_glue _ _ _)).
      destruct (find_fut_In _ _ _ Ef) as [Fin _].
      pose proof (cnt_del_fut s id f true q0 (f_peer f) Ef) as D1. fold s1 in D1.
      pose proof (cnt_del_fut s id f false q0 (f_peer f) Ef) as D0. fold s1 in D0.
      pose proof (oi_one _ _ HI true q0 (f_peer f)) as O1. specialize (K3 (f_peer f)).
      unfold fut_for in D1, D0. rewrite Eq in D1, D0. cbn [opt_is] in D1, D0. rewrite !N.eqb_refl in D1, D0.
      destruct (oi_futs _ _ HI f Fin) as [Kn | [Kt | Kf]]; [congruence | rewrite Kt in D1; cbn in D1; lia |].
      rewrite Kf in D0. cbn in D0. lia. }
    destruct (trunc_msg g m); cbn [fst]; first [apply Rs | exact Rf].
  - assert (Add : forall fk, OInv (add_fut s2 (mkFut id (f_peer f) None fk)) seen).
    { intro fk. apply (OInv_rel s2 _ seen I2).
      - intros k q p. rewrite cnt_add_fut, fut_for_none. lia.
      - apply erel_eng; [apply qrel3_refl | reflexivity].
      - auto.
      - apply futs_ok_add; [left; reflexivity | apply (oi_futs _ _ I2)]. }
    destruct (trunc_msg g m) as [ps | | [|] rr ps | [|] | [|] pv ps |]; cbn [fst]; first [apply Add | exact I2].
Qed.

(* ------------------------------------------------------------------ serving a query *)

Lemma next_found : forall c ls now l,
  snd (L.next_action c ls now) = L.AFound l -> l = map snd (L.resps ls).
Proof.
  intros c ls now l. unfold L.next_action. destruct (L.done ls); [discriminate |]. destruct (L.c_kind c).
  - unfold L.next_find. destruct (L.is_done ls).
    + destruct (L.resps ls) eqn:E; unfold L.finish; cbn [snd]; intro H; [discriminate | inversion H; reflexivity].
    + cbn [L.pr L.set_pr]. destruct (L.count_fresh (L.c_timeout c) now (L.pend ls) =? L.c_alpha c); [discriminate |].
      cbn [L.resps L.set_pr]. destruct (N.of_nat (length (L.resps ls)) <? L.c_k c).
      { intro H. exfalso. eapply LP.schedule_not_found. exact H. }
      cbn [L.cands L.set_pr]. destruct (L.cands ls) as [| [cd cp] ct].
      * unfold L.finish. cbn [snd L.resps]. intro H. inversion H. reflexivity.
      * destruct (L.last_opt (L.resps ls)) as [[wd wp] |].
        -- destruct (L.c_dist c cp <? wd).
           ++ intro H. exfalso. eapply LP.schedule_not_found. exact H.
           ++ unfold L.finish. cbn [snd L.resps]. intro H. inversion H. reflexivity.
        -- unfold L.finish. cbn [snd L.resps]. intro H. inversion H. reflexivity.
  - unfold L.next_record. destruct (L.recq ls) as [| [p r] t]; [| discriminate].
    destruct (L.is_done ls); [destruct (L.c_known c + L.found ls =? 0); unfold L.finish; discriminate |].
    destruct (L.c_needed c <=? L.c_known c + L.found ls); [unfold L.finish; discriminate |].
    destruct (N.of_nat (length (L.pend ls)) =? L.c_alpha c); [discriminate |].
    intro H. exfalso. eapply LP.schedule_not_found. exact H.
  - unfold L.next_providers. destruct (L.is_done ls); [destruct (L.c_kprov c ++ L.provs ls); unfold L.finish; discriminate |].
    destruct (N.of_nat (length (L.pend ls)) =? L.c_alpha c); [discriminate |].
    intro H. exfalso. eapply LP.schedule_not_found. exact H.
Qed.

Lemma resps_nodup : forall c ls, LI1 c ls -> NoDup (map snd (L.resps ls)).
Proof.
  intros c ls [_ Hs Hd]. revert Hs Hd. generalize (L.resps ls). intro rs.
  induction rs as [| a t IH]; intros Hs Hd; cbn [map]; [constructor |].
  cbn [LP.ssorted] in Hs. destruct Hs as [H1 H2]. constructor.
  - intro K. apply in_map_iff in K. destruct K as (y & E & Hy). specialize (H1 y Hy).
    destruct (Hd a (or_introl eq_refl)) as [Da _]. destruct (Hd y (or_intror Hy)) as [Dy _]. rewrite Da, Dy, E in H1. lia.
  - apply IH; [exact H2 | intros x Hx; apply Hd; right; exact Hx].
Qed.

Lemma next_send_full : forall c ls t ls' p,
  L.next_action c ls t = (ls', L.ASend p) ->
  (exists d, L.cands ls = (d, p) :: L.cands ls') /\
  L.pend ls' = L.premove p (L.pend ls) ++ [(p, t)] /\ L.queried ls' = L.queried ls /\
  L.resps ls' = L.resps ls.
Proof.
  intros c ls t ls' p E. pose proof (LP.next_action_shape c ls t) as Sh. rewrite E in Sh. cbn [fst snd] in Sh.
  inversion Sh; subst; try discriminate.
  match goal with H1 : L.cands ls = (?d, _) :: _ |- _ => split; [exists d; exact H1 |] end. tauto.
Qed.

Lemma hit_find : forall k q0 p0 p q,
  hit k q0 p0 p (mkAct AFind q) = if (p0 =? p) && k && (q =? q0) then 1%nat else 0%nat.
Proof.
  intros. unfold hit, act_is, find_act. cbn [a_kind a_q]. destruct k; cbn [Bool.eqb andb]; [| rewrite andb_false_r; reflexivity].
  rewrite andb_true_r. reflexivity.
Qed.

Lemma OInv_send : forall s seen q lk qr c ls ls' p s2,
  OInv s seen -> aget q (eng s) = Some (QLookup lk qr c ls) ->
  L.next_action c ls (now s) = (ls', L.ASend p) ->
  eng s2 = eng (set_q s q (QLookup lk qr c ls')) -> futs s2 = futs s ->
  (forall k q0 p0, (cnt s2 k q0 p0 <= cnt s k q0 p0 + hit k q0 p0 p (mkAct AFind q))%nat) ->
  OInv s2 seen.
Proof.
  intros s seen q lk qr c ls ls' p s2 HI Eq En Ee Ef Hc. pose proof HI as [H1 H2 H3 H4 H5 H6 H7].
  destruct (H5 q _ _ _ _ Eq) as (K1 & K2 & K3).
  destruct (next_send_full _ _ _ _ _ En) as ((d & Ec) & Ep & Eqd & Er).
  assert (Hnv : ~ visited ls p).
  { destruct (LP.i_cfresh _ _ _ _ (l1_inv _ _ K1) (d, p)) as (A & B & _); [rewrite Ec; left; reflexivity |].
    cbn [snd] in *. intros [V | V]; tauto. }
  assert (Z : cnt s true q p = 0%nat).
  { destruct (cnt s true q p) eqn:E0; [reflexivity |]. exfalso. apply Hnv. apply (K2 p). lia. }
  assert (L2 : forall q0, live q0 s2 = live q0 s).
  { intro q0. unfold live. rewrite Ee. apply live_set_q. }
  assert (G2 : forall q0 x, q0 <> q -> aget q0 (eng s2) = Some x -> aget q0 (eng s) = Some x).
  { intros q0 x Hn. rewrite Ee, set_q_get. destruct (N.eqb_spec q0 q); [contradiction | auto]. }
  assert (Hc' : forall k q0 p0, q0 <> q -> (cnt s2 k q0 p0 <= cnt s k q0 p0)%nat).
  { intros k q0 p0 Hn. specialize (Hc k q0 p0). rewrite hit_find in Hc.
    destruct (N.eqb_spec q q0); [congruence |]. rewrite andb_false_r in Hc. lia. }
  constructor.
  - intros k q0 p0. specialize (Hc k q0 p0). rewrite hit_find in Hc. specialize (H1 k q0 p0).
    destruct (N.eqb_spec p0 p) as [E1 | E1]; cbn [andb] in Hc; [| lia].
    destruct k; cbn [andb] in Hc; [| lia]. destruct (N.eqb_spec q q0) as [E2 | E2]; [| lia]. subst. lia.
  - intros k q0 p0 K. specialize (Hc k q0 p0). rewrite hit_find in Hc.
    destruct ((p0 =? p) && k && (q =? q0)) eqn:Eh; [| apply (H2 k q0 p0); lia].
    apply andb_prop in Eh. destruct Eh as [_ Eh]. apply N.eqb_eq in Eh. subst q0. apply H3. unfold live. rewrite Eq. reflexivity.
  - intros q0 K. apply H3. rewrite <- L2. exact K.
  - intros f. rewrite Ef. apply H4.
  - intros q0 lk0 qr0 c0 ls0 A. destruct (N.eq_dec q0 q) as [E | E].
    + subst q0. rewrite Ee, set_q_get, N.eqb_refl, Eq in A. cbn [option_map] in A. inversion A. subst lk0 qr0 c0 ls0.
      split; [replace ls' with (fst (L.next_action c ls (now s))) by (rewrite En; reflexivity); apply LI1_next; exact K1 |]. split.
      * intros p0 K. specialize (Hc true q p0). rewrite hit_find in Hc.
        destruct (N.eq_dec p0 p) as [E1 | E1].
        -- subst p0. split.
           ++ left. rewrite Ep, map_app. apply in_or_app. right. left. reflexivity.
           ++ rewrite Er. intro Hin. apply in_map_iff in Hin. destruct Hin as (x & Hx1 & Hx2).
              destruct (l1_rd _ _ K1 x Hx2) as [_ Hq]. apply Hnv. right. rewrite <- Hx1. exact Hq.
        -- destruct (N.eqb_spec p0 p); [contradiction |]. cbn [andb] in Hc.
           destruct (K2 p0) as [V1 V2]; [lia |]. split; [| rewrite Er; exact V2].
           destruct V1 as [V1 | V1]; [left | right; rewrite Eqd; exact V1].
           rewrite Ep, map_app. apply in_or_app. left. apply LP.premove_fst. tauto.
      * intro p0. specialize (Hc false q p0). rewrite hit_find in Hc. cbn [andb] in Hc. rewrite andb_false_r in Hc.
        cbn [andb] in Hc. specialize (K3 p0). lia.
    + destruct (H5 q0 _ _ _ _ (G2 _ _ E A)) as (J1 & J2 & J3). split; [exact J1 |]. split.
      * intros p0 K. apply J2. specialize (Hc' true q0 p0 E). lia.
      * intro p0. specialize (Hc' false q0 p0 E). specialize (J3 p0). lia.
  - intros q0 qr0 ps A. destruct (N.eq_dec q0 q) as [E | E].
    + subst q0. rewrite Ee, set_q_get, N.eqb_refl, Eq in A. discriminate A.
    + destruct (H6 q0 _ _ (G2 _ _ E A)) as [J1 J2]. split; [exact J1 |].
      intros k p0. specialize (Hc' k q0 p0 E). specialize (J2 k p0). lia.
  - intros q0 pv pd n need A p0 Hp. destruct (N.eq_dec q0 q) as [E | E].
    + subst q0. rewrite Ee, set_q_get, N.eqb_refl, Eq in A. discriminate A.
    + specialize (H7 q0 _ _ _ _ (G2 _ _ E A) p0 Hp). specialize (Hc' true q0 p0 E). lia.
Qed.

(* the send phase adds at most one SendPutValue / SendAddProvider obligation per occurrence of a target *)
Lemma hit_put : forall k q0 p0 p pv q,
  hit k q0 p0 p (mkAct (if pv : bool then AProv else APut) q) =
  if (p0 =? p) && negb k && (q =? q0) then 1%nat else 0%nat.
Proof.
  intros. unfold hit, act_is, find_act. destruct pv; cbn [a_kind a_q]; destruct k; cbn [Bool.eqb andb negb];
    rewrite ?andb_false_r, ?andb_true_r; reflexivity.
Qed.

Lemma cnt_trk_fold : forall pv q l s k q0 p0,
  (cnt (fold_left (trk_step pv q) l s) k q0 p0 <=
   cnt s k q0 p0 + (if negb k && (q =? q0) then count_occ N.eq_dec l p0 else 0))%nat.
Proof.
  intros pv q l. induction l as [| p t IH]; intros s k q0 p0; cbn [fold_left count_occ].
  - destruct (negb k && (q =? q0)); lia.
  - specialize (IH (trk_step pv q s p) k q0 p0).
    assert (St : (cnt (trk_step pv q s p) k q0 p0 <= cnt s k q0 p0 + hit k q0 p0 p (mkAct (if pv then AProv else APut) q))%nat).
    { unfold trk_step. pose proof (cnt_open_or_dial s p (mkAct (if pv then AProv else APut) q) k q0 p0) as O.
      destruct (open_or_dial s p (mkAct (if pv then AProv else APut) q)) as [s2 ok]. cbn [fst] in O.
      destruct ok; [exact O |]. pose proof (cnt_le_upd s2 q (q_send_fail p) k q0 p0). unfold eng_send_fail. lia. }
    rewrite hit_put in St. destruct (negb k && (q =? q0)) eqn:E1.
    + destruct (N.eq_dec p p0) as [E2 | E2].
      * subst p0. rewrite N.eqb_refl in St. apply andb_prop in E1. destruct E1 as [E1a E1b]. rewrite E1a, E1b in St. cbn in St. lia.
      * destruct (N.eqb_spec p0 p); [congruence |]. cbn [andb] in St. lia.
    + assert ((p0 =? p) && negb k && (q =? q0) = false) as F.
      { rewrite <- andb_assoc, E1. apply andb_false_r. }
      rewrite F in St. lia.
Qed.

Lemma OInv_track : forall s seen pv q l qr,
  OInv s seen -> live q s = true -> NoDup l ->
  (forall p, cnt s false q p = 0%nat) -> (forall p, In p l -> cnt s true q p = 0%nat) ->
  OInv (start_track (del_q s q) pv q l qr) seen.
Proof.
  intros s seen pv q l qr HI Lq Hnd Hz0 Hz1. pose proof HI as [H1 H2 H3 H4 H5 H6 H7].
  rewrite start_track_fold.
  set (s1 := w_eng (del_q s q) (aset q (QTrack pv (ndedup l) 0 (clamp qr (N.of_nat (length l)))) (eng (del_q s q)))).
  set (s' := fold_left (trk_step pv q) l s1).
  assert (C : forall k q0 p0, (cnt s' k q0 p0 <= cnt s k q0 p0 + (if negb k && (q =? q0) then count_occ N.eq_dec l p0 else 0))%nat).
  { intros k q0 p0. pose proof (cnt_trk_fold pv q l s1 k q0 p0) as F. exact F. }
  assert (Occ : forall p0, (count_occ N.eq_dec l p0 <= 1)%nat) by (apply NoDup_count_occ; exact Hnd).
  assert (R : erel3 s1 s').
  { apply erel_trk_fold; [apply qrel3_refl | apply qrel3_trans | apply qrel3_sf]. }
  assert (G1 : forall q0 x, q0 <> q -> aget q0 (eng s1) = Some x -> aget q0 (eng s) = Some x).
  { intros q0 x Hn. subst s1. unfold del_q. proj. rewrite aget_aset_other, aget_adel_other by exact Hn. auto. }
  assert (Gq : aget q (eng s1) = Some (QTrack pv (ndedup l) 0 (clamp qr (N.of_nat (length l))))).
  { subst s1. proj. apply aget_aset_same. }
  assert (Cn : forall k q0 p0, q0 <> q -> (cnt s' k q0 p0 <= cnt s k q0 p0)%nat).
  { intros k q0 p0 Hn. specialize (C k q0 p0). destruct (N.eqb_spec q q0); [congruence |]. rewrite andb_false_r in C. lia. }
  assert (Ct : forall q0 p0, (cnt s' true q0 p0 <= cnt s true q0 p0)%nat).
  { intros q0 p0. specialize (C true q0 p0). cbn [negb andb] in C. lia. }
  constructor.
  - intros k q0 p0. specialize (C k q0 p0). specialize (H1 k q0 p0). specialize (Occ p0).
    destruct (negb k && (q =? q0)) eqn:E; [| lia]. apply andb_prop in E. destruct E as [Ek Eq0].
    apply N.eqb_eq in Eq0. subst q0. destruct k; [discriminate |]. rewrite Hz0 in C. lia.
  - intros k q0 p0 K. specialize (C k q0 p0). destruct (negb k && (q =? q0)) eqn:E; [| apply (H2 k q0 p0); lia].
    apply andb_prop in E. destruct E as [_ Eq0]. apply N.eqb_eq in Eq0. subst q0. apply H3. exact Lq.
  - intros q0 K. subst s' s1. rewrite <- start_track_fold in K. rewrite live_start_track, live_del in K.
    destruct (N.eqb_spec q0 q) as [E | E]; [subst q0; apply H3; exact Lq |]. cbn in K. apply H3. exact K.
  - eapply futs_ok_same; [apply futs_trk_fold | exact H4].
  - intros q0 lk0 qr0 c0 ls0 A. destruct (R q0 _ A) as (x & B & Rx). destruct (N.eq_dec q0 q) as [E | E].
    + subst q0. rewrite Gq in B. inversion B. subst x. cbn in Rx. contradiction.
    + destruct x as [lk1 qr1 c1 ls1 | |]; cbn in Rx; try contradiction. destruct Rx as (E1 & E2 & E3 & F). subst.
      destruct (H5 q0 _ _ _ _ (G1 _ _ E B)) as (J1 & J2 & J3). destruct (fails_facts _ _ _ F) as (F1 & F2 & F3).
      split; [apply F1; exact J1 |]. split.
      * intros p0 K. destruct (J2 p0) as [V1 V2]; [specialize (Ct q0 p0); lia |].
        split; [apply F3; exact V1 | rewrite F2; exact V2].
      * intro p0. specialize (Cn false q0 p0 E). specialize (J3 p0). lia.
  - intros q0 qr0 ps A. destruct (R q0 _ A) as (x & B & Rx). destruct (N.eq_dec q0 q) as [E | E].
    + subst q0. rewrite Gq in B. inversion B. subst x. cbn in Rx. contradiction.
    + destruct x as [| qr1 ps1 |]; cbn in Rx; try contradiction. destruct Rx as [E1 E2]. subst.
      destruct (H6 q0 _ _ (G1 _ _ E B)) as [J1 J2]. split; [exact J1 |].
      intros k p0. specialize (Cn k q0 p0 E). specialize (J2 k p0). lia.
  - intros q0 pv0 pd n need A p0 Hp. destruct (R q0 _ A) as (x & B & Rx).
    destruct x as [| | pv1 pd1 n1 need1]; cbn in Rx; try contradiction. destruct Rx as (E1 & E2 & E3). subst.
    specialize (Ct q0 p0). destruct (N.eq_dec q0 q) as [E | E].
    + subst q0. rewrite Gq in B. inversion B. subst. specialize (E3 p0 Hp). apply (proj1 (ndedup_In _ _)) in E3.
      specialize (Hz1 p0 E3). lia.
    + specialize (H7 q0 _ _ _ _ (G1 _ _ E B) p0 (E3 p0 Hp)). lia.
Qed.

Lemma OInv_del : forall s seen q, OInv s seen -> OInv (del_q s q) seen.
Proof.
  intros s seen q HI. apply (OInv_rel s (del_q s q) seen HI).
  - apply cnt_le_glue. unfold same_glue, del_q. proj. repeat split.
  - apply erel_del_q. apply qrel3_refl.
  - intros q0 K. rewrite live_del in K. apply andb_prop in K. apply K.
  - apply (oi_futs _ _ HI).
Qed.

Lemma OInv_serve : forall s seen q, OInv s seen -> OInv (fst (fst (serve s q))) seen.
Proof.
  intros s seen q HI. unfold serve.
  destruct (aget q (eng s)) as [[lk qr c ls | qr ps | pv pd n need] |] eqn:Eq; cbn [fst]; [| | | exact HI].
  - assert (Lq : live q s = true) by (unfold live; rewrite Eq; reflexivity).
    destruct (oi_lk _ _ HI q _ _ _ _ Eq) as (K1 & K2 & K3).
    destruct (L.next_action c ls (now s)) as [ls' a] eqn:En. destruct a as [| p | | l | p r | | l]; cbn [fst].
    + exact HI.
    + pose proof (open_or_dial_eng (set_q s q (QLookup lk qr c ls')) p (mkAct AFind q)) as E1.
      pose proof (futs_open_or_dial (set_q s q (QLookup lk qr c ls')) p (mkAct AFind q)) as E2.
      pose proof (cnt_open_or_dial (set_q s q (QLookup lk qr c ls')) p (mkAct AFind q)) as E3.
      destruct (open_or_dial (set_q s q (QLookup lk qr c ls')) p (mkAct AFind q)) as [s2 ok]. cbn [fst] in *.
      assert (I2 : OInv s2 seen).
      { eapply (OInv_send s seen q lk qr c ls ls' p s2 HI Eq En E1 E2). intros k q0 p0. apply E3. }
      destruct ok; [exact I2 |].
      apply (OInv_rel s2 _ seen I2); [apply cnt_le_eng_fail | | |].
      * apply erel_fail; [apply qrel3_refl | apply qrel3_trans | apply qrel3_sf | apply qrel3_rf].
      * intros q0 K. rewrite live_eng_fail in K. exact K.
      * eapply futs_ok_same; [apply futs_same_glue; apply eng_fail_glue | apply (oi_futs _ _ I2)].
    + apply OInv_del. exact HI.
    + assert (El : l = map snd (L.resps ls)) by (apply (next_found c ls (now s)); rewrite En; reflexivity).
      assert (Trk : forall pv, OInv (start_track (del_q s q) pv q l qr) seen).
      { intro pv. apply OInv_track; [exact HI | exact Lq | subst l; eapply resps_nodup; exact K1 | exact K3 |].
        intros p Hp. destruct (cnt s true q p) eqn:E0; [reflexivity |]. exfalso.
        destruct (K2 p) as [_ V]; [lia |]. apply V. subst l. exact Hp. }
      destruct lk; first [apply OInv_del; exact HI | apply Trk].
    + (* partial result: only the record queue changes *)
      destruct (next_partial_shape _ _ _ _ _ _ En) as [Hd Hp].
      assert (Hq : L.queried ls' = L.queried ls /\ L.resps ls' = L.resps ls).
      { pose proof (LP.next_action_shape c ls (now s)) as Sh. rewrite En in Sh. cbn [fst snd] in Sh.
        inversion Sh; subst; try discriminate; tauto. }
      destruct Hq as [Hq Hr]. pose proof HI as [H1 H2 H3 H4 H5 H6 H7].
      assert (Ce : forall k q0 p0, cnt (set_q s q (QLookup lk qr c ls')) k q0 p0 = cnt s k q0 p0) by reflexivity.
      constructor; try assumption.
      * intros q0 K. rewrite live_set_q in K. apply H3. exact K.
      * intros q0 lk0 qr0 c0 ls0. rewrite set_q_get. destruct (N.eqb_spec q0 q) as [E | E].
        -- subst q0. rewrite Eq. cbn [option_map]. intro A. inversion A. subst.
           split; [replace ls0 with (fst (L.next_action c0 ls (now s))) by (rewrite En; reflexivity); apply LI1_next; exact K1 |].
           split; [| exact K3]. intros p0 K. destruct (K2 p0 K) as [V1 V2]. unfold visited. rewrite Hp, Hq, Hr. tauto.
        -- apply H5.
      * intros q0 qr0 ps. rewrite set_q_get. destruct (N.eqb_spec q0 q) as [E | E]; [subst q0; rewrite Eq; discriminate | apply H6].
      * intros q0 pv pd n need. rewrite set_q_get. destruct (N.eqb_spec q0 q) as [E | E]; [subst q0; rewrite Eq; discriminate | apply H7].
    + apply OInv_del. exact HI.
    + apply OInv_del. exact HI.
  - assert (Lq : live q s = true) by (unfold live; rewrite Eq; reflexivity).
    destruct (oi_tp _ _ HI q _ _ Eq) as [K1 K2].
    apply OInv_track; [exact HI | exact Lq | exact K1 | intro p; apply K2 | intros p _; apply K2].
  - destruct pd; cbn [fst]; [apply OInv_del; exact HI | exact HI].
Qed.

(* ------------------------------------------------------------------ every step, every history *)

Lemma OInv_st0 : forall m, OInv (st0 m) [].
Proof.
  intro m. assert (Z : forall k q p, cnt (st0 m) k q p = 0%nat) by reflexivity. constructor.
  - intros k q p. rewrite Z. lia.
  - intros k q p H. rewrite Z in H. lia.
  - intros q H. discriminate H.
  - intros f [].
  - intros q lk qr c ls H. discriminate H.
  - intros q qr ps H. discriminate H.
  - intros q pv pd n need H. discriminate H.
Qed.

Lemma OInv_seen_mono : forall s seen q, OInv s seen -> OInv s (q :: seen).
Proof.
  intros s seen q [H1 H2 H3 H4 H5 H6 H7]. constructor; try assumption.
  - intros k q0 p K. right. eapply H2. exact K.
  - intros q0 K. right. apply H3. exact K.
Qed.

Lemma OInv_new : forall s seen q x0,
  OInv s seen -> ~ In q seen ->
  match x0 with
  | QLookup _ _ c ls => LI1 c ls
  | QToPeers _ ps => NoDup ps
  | QTrack _ _ _ _ => False
  end ->
  OInv (w_eng s (aset q x0 (eng s))) (q :: seen).
Proof.
  intros s seen q x0 [H1 H2 H3 H4 H5 H6 H7] Hn Hx.
  assert (Z : forall k p, cnt s k q p = 0%nat).
  { intros k p. destruct (cnt s k q p) eqn:E; [reflexivity |]. exfalso. apply Hn. apply (H2 k q p). lia. }
  assert (Ce : forall k q0 p0, cnt (w_eng s (aset q x0 (eng s))) k q0 p0 = cnt s k q0 p0) by reflexivity.
  constructor.
  - intros k q0 p. rewrite Ce. apply H1.
  - intros k q0 p K. right. apply (H2 k q0 p). rewrite Ce in K. exact K.
  - intros q0 K. rewrite live_aset in K. destruct (N.eqb_spec q0 q) as [E | E]; [left; congruence | right; apply H3; exact K].
  - exact H4.
  - intros q0 lk qr c ls. proj. destruct (N.eq_dec q0 q) as [E | E].
    + subst q0. rewrite aget_aset_same. intro A. inversion A. subst x0. split; [exact Hx |]. split.
      * intros p K. rewrite Ce, Z in K. lia.
      * intro p. rewrite Ce. apply Z.
    + rewrite aget_aset_other by exact E. intro A. destruct (H5 q0 _ _ _ _ A) as (J1 & J2 & J3). tauto.
  - intros q0 qr ps. proj. destruct (N.eq_dec q0 q) as [E | E].
    + subst q0. rewrite aget_aset_same. intro A. inversion A. subst x0. split; [exact Hx |]. intros k p. rewrite Ce. apply Z.
    + rewrite aget_aset_other by exact E. apply H6.
  - intros q0 pv pd n need. proj. destruct (N.eq_dec q0 q) as [E | E].
    + subst q0. rewrite aget_aset_same. intro A. inversion A. subst x0. contradiction.
    + rewrite aget_aset_other by exact E. apply H7.
Qed.

Lemma cnt_le_conv : forall s s', (forall k q p, cnt s' k q p = cnt s k q p) -> cnt_le s s'.
Proof. intros s s' H k q p. rewrite H. apply le_n. Qed.

Lemma OInv_step : forall g s seen e,
  OInv s seen -> cmd_ok g e -> (forall q0, started_by e = Some q0 -> ~ In q0 seen) ->
  OInv (fst (fst (step g s e))) (match started_by e with Some q0 => q0 :: seen | None => seen end).
Proof.
  intros g s seen e HI Hok Hfr.
  assert (Rel : forall s', cnt_le s s' -> erel3 s s' -> live_same s s' -> futs_same s s' -> OInv s' seen).
  { intros s' C R L F. apply (OInv_rel s s' seen HI C R); [intros q K; rewrite <- (L q); exact K |].
    eapply futs_ok_same; [exact F | apply (oi_futs _ _ HI)]. }
  assert (Q3 : (forall x, qrel3 x x) /\ (forall a b c, qrel3 a b -> qrel3 b c -> qrel3 a c) /\
               (forall p x, qrel3 x (q_send_fail p x)) /\ (forall p x, qrel3 x (q_resp_fail p x))).
  { split; [apply qrel3_refl |]. split; [apply qrel3_trans |]. split; [apply qrel3_sf | apply qrel3_rf]. }
  destruct Q3 as (Q1 & Q2 & Q3 & Q4).
  destruct e; cbn [step started_by fst] in *.
  - (* command *)
    specialize (Hfr q eq_refl). unfold on_cmd.
    assert (St : forall lk qr kd nd kn kp, OInv (start_lookup g s q lk qr (lcfg g kd nd kn kp dists) seeds) (q :: seen)).
    { intros. unfold start_lookup. apply OInv_new; [exact HI | exact Hfr |]. apply LI1_init. cbn [lcfg L.c_local]. exact Hok. }
    destruct c as [| qr | qr | qr local | kp0 | qr]; cbn [fst]; try apply St.
    destruct qr; destruct local; cbn [fst]; first [apply St | apply OInv_seen_mono; exact HI].
  - specialize (Hfr q eq_refl). apply OInv_new; [exact HI | exact Hfr | exact Hok].
  - exact HI.
  - apply OInv_serve. exact HI.
  - destruct (aget p (conn s)); cbn [fst]; [exact HI |].
    apply Rel.
    + eapply cnt_le_trans; [| apply cnt_le_established]. apply cnt_le_conv; reflexivity.
    + eapply erel_trans; [exact Q2 | | apply erel_established; assumption]. apply erel_eng; [exact Q1 | reflexivity].
    + eapply live_same_trans; [| apply live_established]. apply live_same_eng. reflexivity.
    + eapply futs_same_trans; [| apply futs_established]. reflexivity.
  - destruct (aget p (conn s)); cbn [fst]; [| exact HI].
    apply Rel.
    + eapply cnt_le_trans; [| apply cnt_le_disconnect]. apply cnt_le_conv; reflexivity.
    + eapply erel_trans; [exact Q2 | | apply erel_disconnect; assumption]. apply erel_eng; [exact Q1 | reflexivity].
    + eapply live_same_trans; [| apply live_disconnect]. apply live_same_eng. reflexivity.
    + eapply futs_same_trans; [| apply futs_disconnect]. reflexivity.
  - destruct (aget p (conn s)); cbn [fst]; [| exact HI].
    apply Rel; [apply cnt_le_conv; reflexivity | apply erel_eng; [exact Q1 | reflexivity] | apply live_same_eng; reflexivity | reflexivity].
  - apply Rel; [apply cnt_le_conv; reflexivity | apply erel_eng; [exact Q1 | reflexivity] | apply live_same_eng; reflexivity | reflexivity].
  - apply (OInv_rel s _ seen HI); [apply cnt_le_outbound | apply erel_outbound; exact Q1 | |].
    + intros q K. rewrite live_outbound in K. exact K.
    + apply futs_ok_outbound. apply (oi_futs _ _ HI).
  - apply Rel; [apply cnt_le_open_failure | apply erel_open_failure; assumption | apply live_open_failure | apply futs_open_failure].
  - apply Rel; [apply cnt_le_dial_failure | apply erel_dial_failure; assumption | apply live_dial_failure | apply futs_dial_failure].
  - apply (OInv_rel s _ seen HI); [apply cnt_le_inbound | apply erel_inbound; exact Q1 | |].
    + intros q K. rewrite live_inbound in K. exact K.
    + unfold on_inbound_substream. apply futs_ok_add; [left; reflexivity |].
      destruct (aget p (peers s)); apply (oi_futs _ _ HI).
  - pose proof (OInv_on_future g s seen id r HI) as F. destruct (on_future g s id r) as [s' o]. exact F.
  - apply Rel; [apply cnt_le_conv; reflexivity | apply erel_eng; [exact Q1 | reflexivity] | apply live_same_eng; reflexivity | reflexivity].
Qed.

Fixpoint cmds_ok (g : gcfg) (es : list ev) : Prop :=
  match es with [] => True | e :: t => cmd_ok g e /\ cmds_ok g t end.

Lemma run_OInv : forall g es s seen,
  OInv s seen -> fresh_ids seen es -> cmds_ok g es -> exists seen', OInv (fst (run g s es)) seen'.
Proof.
  intros g es. induction es as [| e t IH]; intros s seen HI Hf Hc; [exists seen; exact HI |].
  rewrite run_cons. cbn [fst]. destruct Hc as [Hc1 Hc2].
  assert (Hfr : forall q0, started_by e = Some q0 -> ~ In q0 seen).
  { intros q0 E. cbn [fresh_ids] in Hf. rewrite E in Hf. apply Hf. }
  eapply IH; [apply (OInv_step g s seen e HI Hc1 Hfr) | | exact Hc2].
  cbn [fresh_ids] in Hf. destruct (started_by e); [apply Hf | exact Hf].
Qed.

Lemma at_most_one : forall g m es k q p,
  fresh_ids [] es -> cmds_ok g es -> (cnt (fst (run g (st0 m) es)) k q p <= 1)%nat.
Proof.
  intros g m es k q p Hf Hc. destruct (run_OInv g es (st0 m) [] (OInv_st0 m) Hf Hc) as [seen' HI].
  apply (oi_one _ _ HI).
Qed.

Lemma owes_cnt : forall s k q p, owes s k q p -> (1 <= cnt s k q p)%nat.
Proof.
  intros s k q p [O | [O | O]]; unfold cnt.
  - destruct O as (acts & a & H1 & H2 & H3 & H4). unfold cnt_dial. rewrite H1.
    assert (In a (filter (act_is k q) acts)).
    { apply filter_In. split; [exact H2 |]. unfold act_is. rewrite H3, H4, Bool.eqb_reflx, N.eqb_refl. reflexivity. }
    destruct (filter (act_is k q) acts); [destruct H | cbn [length]; lia].
  - destruct O as (acts & sid & a & H1 & H2 & H3 & H4). unfold cnt_sub. rewrite H1.
    assert (In (sid, a) (filter (fun x : N * pact => act_is k q (snd x)) acts)).
    { apply filter_In. split; [apply aget_In; exact H2 |]. unfold act_is. cbn [snd]. rewrite H3, H4, Bool.eqb_reflx, N.eqb_refl. reflexivity. }
    destruct (filter (fun x : N * pact => act_is k q (snd x)) acts); [destruct H | cbn [length]; lia].
  - destruct O as (f & H1 & H2 & H3 & H4). unfold cnt_fut.
    assert (In f (filter (fut_for k q p) (futs s))).
    { apply filter_In. split; [exact H1 |]. unfold fut_for. rewrite H2, H3, H4. cbn [opt_is]. rewrite !N.eqb_refl. reflexivity. }
    destruct (filter (fut_for k q p) (futs s)); [destruct H | cbn [length]; lia].
Qed.

(* exactly one: a peer a live query waits for has one obligation of that query, not more *)
Lemma exactly_one : forall g m es q x p,
  1 <= g_alpha g -> fresh_ids [] es -> cmds_ok g es ->
  let s := fst (run g (st0 m) es) in
  aget q (eng s) = Some x -> In p (waiting x) -> cnt s (negb (is_track x)) q p = 1%nat.
Proof.
  intros g m es q x p Ha Hf Hc s A B.
  pose proof (owes_cnt s _ q p (no_wait_for_nothing g m es q x p Ha A B)) as L1.
  pose proof (at_most_one g m es (negb (is_track x)) q p Hf Hc) as L2. fold s in L2. lia.
Qed.

(* ------------------------------------------------------------------ quorum honesty, send phase only *)

(* when n_succeeded is incremented for (q, p) the completed future was created for a SendPutValue /
   SendAddProvider action: a request future of the lookup phase for a target cannot exist *)
Lemma sent_put : forall s seen id r q p x x',
  OInv s seen -> In (q, p) (sent_by s (EFut id r)) ->
  aget q (eng s) = Some x -> okstep p x x' ->
  In (q, p) (put_sent_by s (EFut id r)).
Proof.
  intros s seen id r q p x x' HI Hin A (pv & pd & n & need & pd' & E1 & E2 & Hp & _). subst x.
  unfold sent_by in Hin. unfold put_sent_by.
  destruct (find_fut id (futs s)) as [f |] eqn:Ef; [| destruct Hin].
  destruct (res_ok (f_kind f) r && sent_res r) eqn:Eok; [| destruct Hin]. cbn [andb].
  destruct (f_q f) as [q0 |] eqn:Eq; [| destruct Hin]. destruct Hin as [Hin | []]. inversion Hin. subst q0.
  destruct (find_fut_In _ _ _ Ef) as [Fin _].
  pose proof (oi_tr _ _ HI q _ _ _ _ A (f_peer f)) as Z. rewrite H1 in Z. specialize (Z Hp).
  destruct (oi_futs _ _ HI f Fin) as [Kn | [Kt | Kf]]; [congruence | | rewrite Kf; left; reflexivity].
  exfalso. assert (In f (filter (fut_for true q p) (futs s))).
  { apply filter_In. split; [exact Fin |]. unfold fut_for. rewrite Kt, Eq, H1. cbn [opt_is]. rewrite !N.eqb_refl. reflexivity. }
  unfold cnt, cnt_fut in Z. destruct (filter (fut_for true q p) (futs s)); [destruct H | cbn [length] in Z; lia].
Qed.

Lemma put_sent_other : forall s e, (forall id r, e <> EFut id r) -> put_sent_by s e = sent_by s e.
Proof. intros s e H. destruct e; try reflexivity. exfalso. eapply H. reflexivity. Qed.

Lemma HInv_step_put : forall g es outs G seen s e,
  HInv es outs G seen s -> OInv s seen ->
  (forall q0, started_by e = Some q0 -> ~ In q0 seen) ->
  HInv (es ++ [e]) (outs ++ snd (fst (step g s e))) (G ++ put_sent_by s e)
       (match started_by e with Some q0 => q0 :: seen | None => seen end)
       (fst (fst (step g s e))).
Proof.
  intros g es outs G seen s e HI OI Hfr.
  destruct e; try (rewrite put_sent_other by (intros; discriminate); apply HInv_step; assumption).
  cbn [step started_by].
  pose proof (on_future_rel g s id r) as R. pose proof (live_on_future g s id r) as L.
  pose proof (on_future_nosuccess g s id r) as T.
  destruct (on_future g s id r) as [s' o]. cbn [fst snd] in *.
  apply (HInv_step_rel es outs G seen s (EFut id r) o (put_sent_by s (EFut id r)) s' HI); try assumption; [reflexivity |].
  intros q x' A. destruct (R q x' A) as (x & B & [C | (p & Hp & C)]).
  - exists x. split; [exact B | left; exact C].
  - exists x. split; [exact B |]. right. exists p. split; [| exact C]. eapply sent_put; eassumption.
Qed.

Lemma run_HInv_put : forall g es pre outs G seen s,
  HInv pre outs G seen s -> OInv s seen -> fresh_ids seen es -> cmds_ok g es ->
  exists seen', HInv (pre ++ es) (outs ++ snd (run g s es)) (G ++ put_sends g s es) seen' (fst (run g s es)).
Proof.
  intros g es. induction es as [| e t IH]; intros pre outs G seen s HI OI Hf Hc.
  - exists seen. cbn [run put_sends fst snd]. rewrite !app_nil_r. exact HI.
  - destruct Hc as [Hc1 Hc2].
    assert (Hfr : forall q0, started_by e = Some q0 -> ~ In q0 seen).
    { intros q0 E. cbn [fresh_ids] in Hf. rewrite E in Hf. apply Hf. }
    pose proof (HInv_step_put g pre outs G seen s e HI OI Hfr) as H1.
    pose proof (OInv_step g s seen e OI Hc1 Hfr) as O1.
    assert (Hf1 : fresh_ids (match started_by e with Some q0 => q0 :: seen | None => seen end) t).
    { cbn [fresh_ids] in Hf. destruct (started_by e); [apply Hf | exact Hf]. }
    destruct (IH _ _ _ _ _ H1 O1 Hf1 Hc2) as [seen' H2]. exists seen'.
    rewrite run_cons. cbn [fst snd put_sends].
    rewrite <- !app_assoc in H2. cbn [app] in H2. exact H2.
Qed.

Lemma quorum_honest_put : forall g m es q,
  fresh_ids [] es -> cmds_ok g es ->
  let outs := snd (run g (st0 m) es) in
  In (OPutSuccess q) outs \/ In (OProvSuccess q) outs ->
  exists targets qr S,
    find_quorum q es = Some qr /\ In (OTrack q targets) outs /\ NoDup S /\
    clamp qr (N.of_nat (length targets)) <= N.of_nat (length S) /\
    (forall p, In p S -> In (q, p) (put_sends g (st0 m) es) /\ In p targets).
Proof.
  intros g m es q Hf Hc outs Sx.
  destruct (run_HInv_put g es [] [] [] [] (st0 m) (HInv_st0 m) (OInv_st0 m) Hf Hc) as [seen' HI]. cbn [app] in HI.
  apply (hi_ok _ _ _ _ _ HI). exact Sx.
Qed.
