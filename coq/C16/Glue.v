(* C16 — wire format, model runner and the trace oracle prop_ok. Definitions only.

   case  = k local nmgr (peer v)*  nknown peer*  cap  mode  [mode 1: nkeys (peer b0..b31)*]  nevents event*
           (mode 1 = composed model: the routing table and the store are computed, the events may be the
            user-level events 14-17 below and the trace has the composed group format)
           (cap = 0: the shipped event channel, never full in a case; cap > 0: an event channel of cap slots,
            the user receives with event 13 and the trace has the bounded group format)
           (known: peers put into the routing table before the first event; the routing table is
            not modelled, its answers are the seeds / peer lists written into the events)
   event = 0 q ctag qtag qn local ndists d* nseeds s*     user command; ctag 0 find_node, 1 put_record,
                                                          2 start_providing, 3 get_record, 4 get_providers,
                                                          5 provider refresh (started by the store, id from the counter);
                                                          quorum qtag 0 All, 1 One, 2 N(qn)
         | 1 q qtag qn npeers p*                          put_record_to_peers (peers the routing table knows)
         | 2                                              command without a query
         | 3 q                                            the drain loop served query q (HashMap order: recorded)
         | 4 p alive | 5 p | 6 p | 7 p v                  connection established / closed / task dies / manager belief
         | 8 p sid | 9 sid | 10 p | 11 p id               substream opened / open failure / dial failure / inbound
         | 12 id wb rb tmo [msg]                          what the substream of executor future id does: the write side
                                                          wb 0 accepts the frame, 1 fails, 2 blocks for ever; the read
                                                          side rb 0 delivers msg, 1 ends, 2 stays silent; the RESULT of
                                                          the future is computed by the executor model (Exec.v) from the
                                                          kind of the future; tmo 1: the environment let 16 s pass with
                                                          this future in flight (the oracle demands that it is gone)
         | 14 q uctag qtag qn rk len expc t0..t31        (mode 1) command with its 256-bit target key; uctag 0 find_node,
                                                          1 put_record (value length len, expiry expc: 0 none, n + 1 =
                                                          n ticks from now), 2 start_providing, 3 get_record, 4 get_providers
         | 15 q qtag qn rk len pub expc upd ngiven p*     (mode 1) put_record_to_peers with the GIVEN peers; publisher
                                                          code pub, update_local_store upd
         | 16 rk len pub expc | 17 p addr                 (mode 1) store_record, add_known_peer
         | 19 id rtag ...                                 (mode 1) the read future of inbound substream id delivers a
                                                          request: rtag 0 FIND_NODE rk target, 1 PUT_VALUE rk len pub ttl,
                                                          2 GET_VALUE rk target, 3 GET_PROVIDERS rk target,
                                                          4 ADD_PROVIDER rk nprov (peer naddr decodes)* target
         | 20 rk t0..t31 | 21 q rk wait t0..t31 | 22 d    (mode 1) stop_providing; `wait` ticks pass and a completed refresh
                                                          future of key rk is taken; d ticks pass (one tick = 10 s; the
                                                          store's clock, its refresh futures, record and provider expiry)
         mode bits: 0 composed, 1 zero peer timeout, 2 RoutingTableUpdateMode::Manual,
                    3 IncomingRecordValidationMode::Manual
   msg   = 0 npeers p* | 1 | 2 haskey recflag recid npeers p* | 3 valid
         | 4 haskey nprov (peer naddr addr* )* npeers p* | 5
   trace = 1 group*     one group per event of `select!` (the event, then the drain that follows)
           (2 ... on a bounded event channel, 3 ... in composed mode: the group is followed by the
            non-empty k-buckets, the records of the store (key, value code, length, expiry relative to the
            clock), the provider records per key in stored order (peer, addresses, expiry), local_providers
            with the stored quorum, the number of refresh futures, and the replies written to inbound
            substreams (record attached, closer peers, providers), see dump_w / flush_c)
   group = ok nouts out* dump
   out   = 0 q n p* | 1 q | 2 q | 3 q | 4 q n (peer naddr addr* )* | 5 q | 6 q p r | 7 n p* | 8 | 9 | 10 q n p*
   dump  = ndials (p nacts (kind q)* )*  npeers (p nacts (sid kind q)* )*  nsubs (sid p)*  nfuts
           nqueries (q tag body)*      all maps sorted by key
   body  = cands pend queried resps found recq provs   (tags 0 1 4 5 7; count-prefixed lists)
         | (nothing)                                   (tag 2)
         | pending nsucc need                          (tags 3 6) *)
From Coq Require Import List NArith Bool.
From V.gen Require Consts.
From V.common Require Import Wire.
From V.C16 Require Import Model Compose Exec HandleModel.
Import ListNotations.
Open Scope N_scope.

(* the shipped executor timeouts *)
Definition TMO : tmo := mkT V.gen.Consts.KAD_WRITE_TIMEOUT_SECS V.gen.Consts.KAD_READ_TIMEOUT_SECS.

(* the completion of an executor future as the environment plays it: what the substream does *)
Record futb := mkFB { fb_id : N; fb_w : wbeh; fb_r : rbeh; fb_tmo : bool }.

(* the QueryResult the executor reports: the kind of the future is read from the state *)
Definition result_of (s : st) (b : futb) : fres :=
  match find_fut (fb_id b) (futs s) with
  | Some f => fst (exec TMO (f_kind f) (fb_w b) (fb_r b))
  | None => RSendOk
  end.

Inductive gev := GB (b : bev) | GFut (f : futb).
Inductive guev := GU (u : uev) | GUFut (f : futb).

Definition res_b (s : st) (x : gev) : bev :=
  match x with GB b => b | GFut f => BEv (EFut (fb_id f) (result_of s f)) end.
Definition res_u (s : st) (x : guev) : uev :=
  match x with GU u => u | GUFut f => UEv (EFut (fb_id f) (result_of s f)) end.

Record case := mkCase {
  k_g : gcfg; k_mgr : list (N * N); k_known : list N; k_cap : N; k_mode : N;
  k_keys : list (N * key);            (* compose mode: peer label -> 256-bit key; [] = base mode *)
  k_events : list gev;
  k_uevents : list guev               (* compose mode *)
}.

(* count-prefixed list with a constant bound on the count (Wire.plist measures the remaining input
   on every call, which is quadratic on the long traces of this property) *)
Definition plist {A} (p : parser A) : parser (list A) :=
  fun l => match l with
           | [] => None
           | n :: t => if 200000 <? n then None else prep (N.to_nat n) p t
           end.

Definition p_pair : parser (N * N) := let* a := pN in let* b := pN in pret (a, b).
Definition p_entry : parser (N * list N) := let* p := pN in let* a := plist pN in pret (p, a).

Definition quorum_of (qtag qn : N) : quorum :=
  match qtag with 0 => QAll | 1 => QOne | _ => QN qn end.

Definition p_msg : parser msg :=
  let* tag := pN in
  match tag with
  | 0 => let* ps := plist pN in pret (MFindNode ps)
  | 1 => pret MPutValue
  | 2 => let* hk := pBool in let* flag := pN in let* id := pN in let* ps := plist pN in
         pret (MGetRecord hk (if flag =? 0 then None else Some (id, negb (flag =? 1))) ps)
  | 3 => let* v := pBool in pret (MAddProvider v)
  | 4 => let* hk := pBool in let* pv := plist p_entry in let* ps := plist pN in
         pret (MGetProviders hk pv ps)
  | 5 => pret MInvalid
  | _ => pfail
  end.

Definition p_ev (tag : N) : parser ev :=
  match tag with
  | 0 => let* q := pN in let* ctag := pN in let* qtag := pN in let* qn := pN in let* local := pBool in
         let* dists := plist pN in let* seeds := plist pN in
         let qr := quorum_of qtag qn in
         match ctag with
         | 0 => pret (ECmd q CFindNode dists seeds)
         | 1 => pret (ECmd q (CPutRecord qr) dists seeds)
         | 2 => pret (ECmd q (CStartProviding qr) dists seeds)
         | 3 => pret (ECmd q (CGetRecord qr local) dists seeds)
         | 4 => pret (ECmd q (CGetProviders []) dists seeds)
         | 5 => pret (ECmd q (CRefresh qr) dists seeds)
         | _ => pfail
         end
  | 1 => let* q := pN in let* qtag := pN in let* qn := pN in let* ps := plist pN in
         pret (EPutToPeers q (quorum_of qtag qn) ps)
  | 2 => pret ENop
  | 3 => let* q := pN in pret (EServe q)
  | 4 => let* p := pN in let* a := pBool in pret (EEstablished p a)
  | 5 => let* p := pN in pret (EClosed p)
  | 6 => let* p := pN in pret (EKill p)
  | 7 => let* p := pN in let* v := pN in pret (EMgr p v)
  | 8 => let* p := pN in let* sid := pN in pret (EOpened p sid)
  | 9 => let* sid := pN in pret (EOpenFail sid)
  | 10 => let* p := pN in pret (EDialFail p)
  | 11 => let* p := pN in let* id := pN in pret (EInbound p id)
  | 18 => let* d := pN in pret (ETick d)
  | _ => pfail
  end.

Definition p_futb : parser futb :=
  let* id := pN in let* wb := pN in let* rb := pN in let* tm := pBool in
  let w := match wb with 0 => WAccept 0 | 1 => WFail 0 | _ => WNever end in
  match rb with
  | 0 => let* m := p_msg in pret (mkFB id w (RMsg 0 m) tm)
  | 1 => pret (mkFB id w (RClose 0) tm)
  | _ => pret (mkFB id w RNever tm)
  end.

Definition p_event : parser gev :=
  let* tag := pN in
  match tag with
  | 12 => let* f := p_futb in pret (GFut f)
  | 13 => pret (GB BRecv)
  | _ => let* e := p_ev tag in pret (GB (BEv e))
  end.

(* a byte as 8 bits, most significant first *)
Definition byte_bits (b : N) : list bool :=
  map (fun i => N.testbit b i) [7; 6; 5; 4; 3; 2; 1; 0].
Definition p_key : parser key :=
  let* bytes := prep 32 pN in pret (flat_map byte_bits bytes).

Definition dec_exp (c : N) : option N := if c =? 0 then None else Some (c - 1).
Definition p_prov3 : parser (N * N * N) :=
  let* p := pN in let* na := pN in let* v := pN in pret (p, na, v).

Definition p_inreq : parser inreq :=
  let* tag := pN in
  match tag with
  | 0 => let* _ := pN in let* t := p_key in pret (IFindNode t)
  | 1 => let* rk := pN in let* len := pN in let* pb := pN in let* ttl := pN in pret (IPutValue rk len pb ttl)
  | 2 => let* rk := pN in let* t := p_key in pret (IGetValue rk t)
  | 3 => let* rk := pN in let* t := p_key in pret (IGetProviders rk t)
  | 4 => let* rk := pN in let* pv := plist p_prov3 in let* t := p_key in pret (IAddProvider rk pv t)
  | _ => pfail
  end.

Definition p_uev : parser guev :=
  let* tag := pN in
  match tag with
  | 12 => let* f := p_futb in pret (GUFut f)
  | 19 => let* id := pN in let* rq := p_inreq in pret (GU (UInReq id rq))
  | 20 => let* rk := pN in let* t := p_key in pret (GU (UStopProviding rk t))
  | 21 => let* q := pN in let* rk := pN in let* wt := pN in let* t := p_key in pret (GU (UFire q rk wt t))
  | 22 => let* d := pN in pret (GU (UAge d))
  | 14 => let* q := pN in let* uc := pN in let* qtag := pN in let* qn := pN in let* rk := pN in
          let* len := pN in let* ec := pN in
          let* target := p_key in
          let qr := quorum_of qtag qn in
          match uc with
          | 0 => pret (GU (UCmd q UCFind target))
          | 1 => pret (GU (UCmd q (UCPut qr rk len (dec_exp ec)) target))
          | 2 => pret (GU (UCmd q (UCProv qr rk) target))
          | 3 => pret (GU (UCmd q (UCGet qr rk) target))
          | 4 => pret (GU (UCmd q (UCGetProv rk) target))
          | _ => pfail
          end
  | 15 => let* q := pN in let* qtag := pN in let* qn := pN in let* rk := pN in
          let* len := pN in let* pb := pN in let* ec := pN in let* upd := pBool in let* ps := plist pN in
          pret (GU (UPutToPeers q (quorum_of qtag qn) rk len pb (dec_exp ec) upd ps))
  | 16 => let* rk := pN in let* len := pN in let* pb := pN in let* ec := pN in
          pret (GU (UStoreRecord rk len pb (dec_exp ec)))
  | 17 => let* p := pN in let* a := pBool in pret (GU (UAddKnownPeer p a))
  | _ => let* e := p_ev tag in pret (GU (UEv e))
  end.

Definition p_case : parser case :=
  let* k := pN in let* local := pN in
  let* m := plist p_pair in
  let* known := plist pN in
  let* cap := pN in
  let* mode := pN in
  (* mode: bit 0 = composed case, bit 1 = the peer timeout is zero (every pending peer of an earlier
     next_action call is stale) instead of unreachable, bit 2 = manual routing-table updates,
     bit 3 = manual validation of incoming records *)
  let g := mkG k V.gen.Consts.PARALLELISM_FACTOR local (if N.testbit mode 1 then 0 else BIG) in
  if negb (N.testbit mode 0) then
    let* evs := plist p_event in pret (mkCase g m known cap mode [] evs [])
  else
    let* keys := plist (let* p := pN in let* ky := p_key in pret (p, ky)) in
    let* uevs := plist p_uev in pret (mkCase g m known cap mode keys [] uevs).

Definition plain (b : bev) : ev := match b with BEv e => e | BRecv => ENop end.

Definition decode_case (l : list N) : option case := pall p_case l.

(* ---- encoders ---- *)
Definition enc_ns (l : list N) : list N := enc_list (fun a => [a]) l.
Definition enc_entries (l : list (N * list N)) : list N :=
  enc_list (fun x : N * list N => fst x :: enc_ns (sort_by (fun a => a) (snd x))) l.

Definition enc_out (o : out) : list N :=
  match o with
  | OFindNodeSuccess q ps => 0 :: q :: enc_ns ps
  | OPutSuccess q => [1; q]
  | OProvSuccess q => [2; q]
  | OGetRecSuccess q => [3; q]
  | OGetProvSuccess q l => 4 :: q :: enc_entries l
  | OFailed q => [5; q]
  | OPartial q p r => [6; q; p; r]
  | ORouting ps => 7 :: enc_ns ps
  | OIncomingRecord => [8]
  | OIncomingProvider => [9]
  | OTrack q ps => 10 :: q :: enc_ns ps
  end.

Definition kind_code (k : akind) : N := match k with AFind => 0 | APut => 1 | AProv => 2 end.
Definition kind_dec (x : N) : akind := match x with 0 => AFind | 1 => APut | _ => AProv end.

Definition sortN (l : list N) : list N := sort_by (fun a => a) l.
Definition sort_key {A} (l : list (N * A)) : list (N * A) := sort_by (fun x : N * A => fst x) l.

Definition qtag_of (x : qstate) : N :=
  match x with
  | QLookup LFind _ _ _ => 0
  | QLookup LPut _ _ _ => 1
  | QToPeers _ _ => 2
  | QTrack false _ _ _ => 3
  | QLookup LRec _ _ _ => 4
  | QLookup LProv _ _ _ => 5
  | QTrack true _ _ _ => 6
  | QLookup LGetProv _ _ _ => 7
  end.

Definition enc_q (x : N * qstate) : list N :=
  fst x :: qtag_of (snd x) ::
  match snd x with
  | QLookup _ _ _ ls =>
      enc_ns (map snd (V.C15.Model.cands ls)) ++ enc_ns (sortN (map fst (V.C15.Model.pend ls))) ++
      enc_ns (sortN (V.C15.Model.queried ls)) ++ enc_ns (map snd (V.C15.Model.resps ls)) ++
      [V.C15.Model.found ls] ++ enc_ns (map fst (V.C15.Model.recq ls)) ++ enc_ns (map fst (V.C15.Model.provs ls))
  | QToPeers _ _ => []
  | QTrack _ pd n need => enc_ns (sortN pd) ++ [n; need]
  end.

Definition dump (s : st) : list N :=
  enc_list (fun x : N * list pact =>
              fst x :: enc_list (fun a => [kind_code (a_kind a); a_q a]) (snd x))
           (sort_key (pdial s)) ++
  enc_list (fun x : N * list (N * pact) =>
              fst x :: enc_list (fun y : N * pact => [fst y; kind_code (a_kind (snd y)); a_q (snd y)])
                                (sort_key (snd x)))
           (sort_key (peers s)) ++
  enc_list (fun x : N * N => [fst x; snd x]) (sort_key (psub s)) ++
  [N.of_nat (length (futs s))] ++
  enc_list enc_q (sort_key (eng s)).

(* ---- running a case: one group per select! event ---- *)
Definition flush (s : st) (ok : bool) (outs : list out) : list N :=
  b2n (ok && quiescent s) :: enc_list enc_out outs ++ dump s.

(* `open`: a group is being accumulated *)
Fixpoint run_groups (g : gcfg) (s : st) (open : bool) (ok : bool) (outs : list out) (es : list gev)
  : list N :=
  match es with
  | [] => if open then flush s ok outs else []
  | x :: t =>
      let e := plain (res_b s x) in
      let '(s1, o, f) := step g s e in
      if is_tick e then run_groups g s1 open ok outs t
      else if is_serve e then run_groups g s1 open (ok && f) (outs ++ o) t
      else (if open then flush s ok outs else []) ++ run_groups g s1 true f o t
  end.

(* bounded channel: group = ok parked nrecv out* [dump]   (dump only when the loop is not parked) *)
Definition parked (b : bst) : bool := match b_back b with [] => false | _ => true end.
Definition flush_b (b : bst) (ok : bool) (rcv : list out) : list N :=
  b2n (ok && (parked b || quiescent (b_st b))) :: b2n (parked b) :: enc_list enc_out rcv ++
  (if parked b then [] else dump (b_st b)).

Definition bev_serve (e : bev) : bool := match e with BEv e' => is_serve e' | BRecv => false end.
Definition bev_tick (e : bev) : bool := match e with BEv e' => is_tick e' | BRecv => false end.

Fixpoint run_groups_b (g : gcfg) (cap : nat) (b : bst) (open : bool) (ok : bool) (rcv : list out)
         (es : list gev) : list N :=
  match es with
  | [] => if open then flush_b b ok rcv else []
  | x :: t =>
      let e := res_b (b_st b) x in
      let '(b1, r, f) := bstep g cap b e in
      if bev_tick e then run_groups_b g cap b1 open ok rcv t
      else if bev_serve e then run_groups_b g cap b1 open (ok && f) (rcv ++ r) t
      else (if open then flush_b b ok rcv else []) ++ run_groups_b g cap b1 true f r t
  end.

(* composed model: group = ok nouts out* dump rtdump storedump
   rtdump = nbuckets, then per bucket: index nnodes, then per node: peer addr conn;
   storedump = nkeys, then the keys, sorted *)
Definition conn_code (c : V.C14.Model.conn) : N :=
  match c with
  | V.C14.Model.NotConnected => 0 | V.C14.Model.Connected => 1
  | V.C14.Model.CanConnect => 2 | V.C14.Model.CannotConnect => 3
  end.
Fixpoint rt_rows (keys : list (N * key)) (i : nat) (t : table) : list (list N) :=
  match t with
  | [] => []
  | b :: r =>
      match b with
      | [] => rt_rows keys (S i) r
      | _ => (N.of_nat i :: enc_list (fun n : node => [peer_of keys (V.C14.Model.n_key n);
                                                       b2n (V.C14.Model.n_addr n);
                                                       conn_code (V.C14.Model.n_conn n)]) b)
             :: rt_rows keys (S i) r
      end
  end.
(* expiry relative to the clock: [2;0] none, [0; now - t] expired, [1; t - now] fresh *)
Definition enc_rel (now : N) (e : option N) : list N :=
  match e with
  | None => [2; 0]
  | Some t => if t <=? now then [0; now - t] else [1; t - now]
  end.
Definition enc_srec (now : N) (r : V.C17.Model.record) : list N :=
  [V.C17.Model.r_key r; V.C17.Model.r_val r; V.C17.Model.r_len r] ++ enc_rel now (V.C17.Model.r_exp r).
Definition enc_sprov (wc : wcfg) (now : N) (p : V.C17.Model.prov) : list N :=
  [peer_of_pid wc (V.C17.Model.p_id p); V.C17.Model.p_naddr p] ++ enc_rel now (Some (V.C17.Model.p_exp p)).
Definition dump_store (wc : wcfg) (w : world) : list N :=
  let s := w_store w in
  let now := w_clock w in
  enc_list (enc_srec now) (sort_by V.C17.Model.r_key (V.C17.Model.recs s)) ++
  enc_list (fun kp : N * list V.C17.Model.prov => fst kp :: enc_list (enc_sprov wc now) (snd kp))
           (sort_key (V.C17.Model.pkeys s)) ++
  enc_list (fun x : N * N => [fst x; snd x]) (sort_key (w_quorum w)) ++
  [N.of_nat (length (w_timers w))].

Definition dump_w (wc : wcfg) (w : world) : list N :=
  dump (w_st w) ++ enc_list (fun r : list N => r) (rt_rows (wc_keys wc) 0 (w_rt w)) ++ dump_store wc w.

Definition enc_reply (r : bool * list N * list (N * N)) : list N :=
  b2n (fst (fst r)) :: enc_ns (snd (fst r)) ++ enc_list (fun x : N * N => [fst x; snd x]) (snd r).

(* composed group = ok, nouts, the outs, dump, rtdump, storedump, nreplies, then per reply: found, the closer
   peers, the providers (the replies the node wrote to inbound substreams while handling the event of the
   group) *)
Definition flush_c (wc : wcfg) (w : world) (ok : bool) (outs : list out)
           (reps : list (bool * list N * list (N * N))) : list N :=
  b2n (ok && quiescent (w_st w)) :: enc_list enc_out outs ++ dump_w wc w ++ enc_list enc_reply reps.

Definition uev_serve (u : uev) : bool := match u with UEv e => is_serve e | _ => false end.
Definition uev_tick (u : uev) : bool := match u with UEv e => is_tick e | _ => false end.

Definition opt_list {A} (o : option A) : list A := match o with Some x => [x] | None => [] end.

(* the executor timeouts in ticks of the store's clock: the environment lets TMO_TICKS pass when it plays
   a blocking or silent substream *)
Definition TMO_TICKS : N := 2.

(* time passing inside an event of the environment (no event of `select!`, no group) *)
Definition silent_age (wc : wcfg) (w : world) (x : guev) : world :=
  match x with
  | GUFut f => if fb_tmo f then fst (fst (cstep wc w (UAge TMO_TICKS))) else w
  | GU _ => w
  end.

Fixpoint run_groups_c (wc : wcfg) (w : world) (open : bool) (ok : bool) (outs : list out)
         (reps : list (bool * list N * list (N * N))) (us : list guev) : list N :=
  match us with
  | [] => if open then flush_c wc w ok outs reps else []
  | x :: t =>
      let wa := silent_age wc w x in
      let u := res_u (w_st wa) x in
      let '(w1, o, f) := cstep wc wa u in
      if uev_tick u then run_groups_c wc w1 open ok outs reps t
      else if uev_serve u then run_groups_c wc w1 open (ok && f) (outs ++ o) reps t
      else (if open then flush_c wc w ok outs reps else []) ++
           run_groups_c wc w1 true f o (opt_list (reply_of wc wa u)) t
  end.

(* the peer labels of the case: every label with a key, but the local one *)
Definition pool_of (k : case) : list N :=
  filter (fun p => negb (p =? g_local (k_g k))) (map fst (k_keys k)).
(* the configuration the harness builds the node with, in ticks of 10 s: provider ttl 2500 s, record ttl
   3000 s, refresh interval 1000 s, records of 4 bytes and more are refused, at most 6 records *)
Definition C_PROVIDER_TTL : N := 250.
Definition C_RECORD_TTL : N := 300.
Definition C_REFRESH : N := 100.
Definition C_MAX_RECORD_SIZE : N := 4.
Definition C_MAX_RECORDS : N := 6.
Definition wcfg_of (k : case) : wcfg :=
  mkWC (k_g k) (k_keys k) (pool_of k) 20
       (V.C17.Model.mkCfg C_MAX_RECORDS C_MAX_RECORD_SIZE
                          V.gen.Consts.DEFAULT_MAX_PROVIDER_KEYS V.gen.Consts.DEFAULT_MAX_PROVIDER_ADDRESSES
                          V.gen.Consts.DEFAULT_MAX_PROVIDERS_PER_KEY C_PROVIDER_TTL)
       C_RECORD_TTL (negb (N.testbit (k_mode k) 2)) (negb (N.testbit (k_mode k) 3)) C_REFRESH 0.

(* the peers added to the routing table before the first event *)
Definition world0 (k : case) : world :=
  let wc := wcfg_of k in
  fold_left (fun w p => fst (fst (cstep wc w (UAddKnownPeer p true)))) (k_known k) (w0 wc (k_mgr k) 256).

Definition run_case1 (l : list N) : list N :=
  match decode_case l with
  | Some k =>
      if negb (match k_keys k with [] => true | _ => false end)
      then 3 :: run_groups_c (wcfg_of k) (world0 k) false true [] [] (k_uevents k)
      else if k_cap k =? 0
      then 1 :: run_groups (k_g k) (st0 (k_mgr k)) false true [] (k_events k)
      else 2 :: run_groups_b (k_g k) (N.to_nat (k_cap k)) (b0 (k_mgr k)) false true [] (k_events k)
  | None => [0]
  end.

(* ---- decoding a trace ---- *)
Definition p_out : parser out :=
  let* tag := pN in
  match tag with
  | 0 => let* q := pN in let* ps := plist pN in pret (OFindNodeSuccess q ps)
  | 1 => let* q := pN in pret (OPutSuccess q)
  | 2 => let* q := pN in pret (OProvSuccess q)
  | 3 => let* q := pN in pret (OGetRecSuccess q)
  | 4 => let* q := pN in let* l := plist p_entry in pret (OGetProvSuccess q l)
  | 5 => let* q := pN in pret (OFailed q)
  | 6 => let* q := pN in let* p := pN in let* r := pN in pret (OPartial q p r)
  | 7 => let* ps := plist pN in pret (ORouting ps)
  | 8 => pret OIncomingRecord
  | 9 => pret OIncomingProvider
  | 10 => let* q := pN in let* ps := plist pN in pret (OTrack q ps)
  | _ => pfail
  end.

(* what the oracle reads from a dump *)
Record dview := mkDV {
  d_dials : list (N * N);                       (* peer -> number of queued dial actions *)
  d_subs : list (N * (N * (N * N)));            (* substream id -> (peer, (kind, query)) *)
  d_nfuts : N
}.

Definition p_dial_entry : parser (N * N) :=
  let* p := pN in let* l := plist p_pair in pret (p, N.of_nat (length l)).
Definition p_triple : parser (N * (N * N)) :=
  let* a := pN in let* b := pN in let* c := pN in pret (a, (b, c)).
Definition p_peer_entry : parser (list (N * (N * (N * N)))) :=
  let* p := pN in let* l := plist p_triple in
  pret (map (fun x : N * (N * N) => (fst x, (p, snd x))) l).
Definition p_qbody (tag : N) : parser unit :=
  match tag with
  | 2 => pret tt
  | 3 | 6 => let* _ := plist pN in let* _ := pN in let* _ := pN in pret tt
  | _ => let* _ := plist pN in let* _ := plist pN in let* _ := plist pN in let* _ := plist pN in
         let* _ := pN in let* _ := plist pN in let* _ := plist pN in pret tt
  end.
Definition p_q : parser unit := let* _ := pN in let* tag := pN in p_qbody tag.

Definition p_dump : parser dview :=
  let* dl := plist p_dial_entry in
  let* pl := plist p_peer_entry in
  let* _ := plist p_pair in
  let* nf := pN in
  let* _ := plist p_q in
  pret (mkDV dl (concat pl) nf).

Record group := mkGroup { gr_ok : bool; gr_outs : list out; gr_dump : dview }.
Definition p_group : parser group :=
  let* ok := pBool in let* outs := plist p_out in let* d := p_dump in pret (mkGroup ok outs d).

Fixpoint p_groups (fuel : nat) : parser (list group) :=
  fun l =>
    match l with
    | [] => Some ([], [])
    | _ => match fuel with
           | O => None
           | S f => (let* gr := p_group in let* t := p_groups f in pret (gr :: t)) l
           end
    end.

Definition decode_trace (t : list N) : option (list group) :=
  match t with
  | 1 :: r => pall (p_groups (length r)) r
  | _ => None
  end.

(* ---- the oracle: the property text judged on a trace ---- *)
(* the oracle reads the events without the model's state: the completion of a future counts as "the
   data was sent" when the write side of the substream accepted the frame *)
Definition oracle_fut (f : futb) : ev :=
  EFut (fb_id f) (if written TMO (fb_w f) then RSendOk else RSendFail).
Definition oev (x : gev) : ev := match x with GB b => plain b | GFut f => oracle_fut f end.
Definition otmo (x : gev) : bool := match x with GFut f => fb_tmo f | GB _ => false end.
Definition plain_events (l : list gev) : list ev := map oev l.

(* the select! events of the case, in order (one per group) *)
Definition sel_events (es : list ev) : list ev := filter (fun e => negb (is_serve e || is_tick e)) es.

Definition started_ids (es : list ev) : list N :=
  flat_map (fun e => match started_by e with Some q => [q] | None => [] end) es.

Fixpoint find_track (q : N) (outs : list out) : option (list N) :=
  match outs with
  | [] => None
  | OTrack q' ps :: t => if q' =? q then Some ps else find_track q t
  | _ :: t => find_track q t
  end.

Definition count_terms (q : N) (outs : list out) : nat := terminals q outs.

(* walk the groups: subs = substream associations seen in earlier dumps, sent = (query, peer) pairs
   for which a PUT_VALUE / ADD_PROVIDER send completed, tracks = targets of the send phases *)
Fixpoint honest (all : list ev) (sel : list ev) (grs : list group)
         (subs : list (N * (N * (N * N)))) (sent : list (N * N)) (tracks : list out) : bool :=
  match sel, grs with
  | e :: sel', gr :: grs' =>
      let sent' :=
        match e with
        | EFut id r =>
            match aget id subs with
            | Some (p, (kd, q)) => if sent_res r && negb (kd =? 0) then (q, p) :: sent else sent
            | None => sent
            end
        | _ => sent
        end in
      let tracks' := tracks ++ gr_outs gr in
      forallb (fun o =>
                 match o with
                 | OPutSuccess q | OProvSuccess q =>
                     match find_quorum q all, find_track q (rev tracks') with
                     | Some qr, Some targets =>
                         let got := ndedup (filter (fun p => nmem p targets)
                                                   (map snd (filter (fun x : N * N => fst x =? q) sent'))) in
                         clamp qr (N.of_nat (length targets)) <=? N.of_nat (length got)
                     | _, _ => false
                     end
                 | _ => true
                 end) (gr_outs gr)
      && honest all sel' grs' (d_subs (gr_dump gr) ++ subs) sent' tracks'
  | _, _ => true
  end.

(* What the environment still owes at the end of a trace, judged from the events it delivered and
   the snapshots: a dial for p is owed from the moment an action is queued for p until a
   connection (for a peer the service was not connected to) or a dial failure is delivered;
   a substream is owed from its first appearance among the pending actions until Opened (same
   peer) / OpenFailure is delivered or the connection of its peer is closed; futures in flight
   are owed their completion. *)
Definition dial_count (d : dview) (p : N) : N :=
  match aget p (d_dials d) with Some n => n | None => 0 end.
Definition sub_peer (d : dview) (sid : N) : option N := option_map fst (aget sid (d_subs d)).

Definition dv0 : dview := mkDV [] [] 0.

(* conn: peers the service is connected to; od: peers with an unanswered dial; ans: answered
   substream ids; prev: the previous snapshot *)
Fixpoint owes (sel : list ev) (grs : list group) (conn od ans : list N) (prev : dview) : bool :=
  match sel, grs with
  | e :: sel', gr :: grs' =>
      let d := gr_dump gr in
      let fresh_conn := match e with EEstablished p _ => negb (nmem p conn) | _ => false end in
      let answered_dial (p : N) :=
        match e with
        | EEstablished p' _ => (p' =? p) && fresh_conn
        | EDialFail p' => p' =? p
        | _ => false
        end in
      let conn' :=
        match e with
        | EEstablished p _ => if fresh_conn then p :: conn else conn
        | EClosed p => nremove p conn
        | _ => conn
        end in
      let ans' :=
        match e with
        | EOpened p sid => match sub_peer prev sid with
                           | Some p' => if p' =? p then sid :: ans else ans
                           | None => ans
                           end
        | EOpenFail sid => sid :: ans
        | EClosed p => if nmem p conn
                       then map fst (filter (fun x : N * (N * (N * N)) => fst (snd x) =? p) (d_subs prev)) ++ ans
                       else ans
        | _ => ans
        end in
      let od1 := filter (fun p => negb (answered_dial p)) od in
      let od' := map fst (filter (fun x : N * N =>
                                    (if answered_dial (fst x) then 0 else dial_count prev (fst x)) <? snd x)
                                 (d_dials d)) ++ od1 in
      owes sel' grs' conn' od' ans' d
  | _, _ =>
      (* end of the trace: anything still owed? *)
      existsb (fun p => 0 <? dial_count prev p) od
      || existsb (fun x : N * (N * (N * N)) => negb (nmem (fst x) ans)) (d_subs prev)
      || negb (d_nfuts prev =? 0)
  end.

Fixpoint last_error {A} (l : list A) : option A :=
  match l with [] => None | [x] => Some x | _ :: t => last_error t end.

(* bounded traces *)
Record groupb := mkGroupB { gb_parked : bool; gb_rcv : list out; gb_dump : option dview }.
Definition p_groupb : parser groupb :=
  let* _ok := pBool in let* pk := pBool in let* rcv := plist p_out in
  if pk then pret (mkGroupB true rcv None)
  else let* d := p_dump in pret (mkGroupB false rcv (Some d)).
Fixpoint p_groupsb (fuel : nat) : parser (list groupb) :=
  fun l =>
    match l with
    | [] => Some ([], [])
    | _ => match fuel with
           | O => None
           | S f => (let* gr := p_groupb in let* t := p_groupsb f in pret (gr :: t)) l
           end
    end.
Definition decode_trace_b (t : list N) : option (list groupb) :=
  match t with
  | 2 :: r => pall (p_groupsb (length r)) r
  | _ => None
  end.

Fixpoint last_opt {A} (l : list A) : option A :=
  match l with [] => None | [x] => Some x | _ :: t => last_opt t end.

(* what the user RECEIVED is judged: at most one terminal event per operation, none for unknown ids;
   when the case ends with the loop waiting in select!, nothing pending in the glue maps and an empty
   channel (the last receive returned nothing), every started operation has reported *)
Definition prop_ok_b (k : case) (grs : list groupb) : bool :=
  let es := plain_events (k_events k) in
  let outs := flat_map gb_rcv grs in
  let ids := started_ids es in
  forallb (fun q => Nat.leb (count_terms q outs) 1) ids &&
  forallb (fun o => match term_of o with Some q => nmem q ids | None => true end) outs &&
  match last_opt grs, last_opt (k_events k) with
  | Some gr, Some (GB BRecv) =>
      match gb_dump gr, gb_rcv gr with
      | Some d, [] =>
          if (match d_dials d with [] => true | _ => false end) &&
             (match d_subs d with [] => true | _ => false end) && (d_nfuts d =? 0)
          then forallb (fun q => Nat.eqb (count_terms q outs) 1) ids else true
      | _, _ => true
      end
  | _, _ => true
  end.

(* executor timeouts: when the environment has let 16 s pass with a future in flight (more than
   WRITE_TIMEOUT, more than READ_TIMEOUT), that future has completed: fewer futures are in flight *)
Fixpoint timely (tm : list bool) (grs : list group) (prev : N) : bool :=
  match tm, grs with
  | b :: tm', gr :: grs' =>
      (if b then d_nfuts (gr_dump gr) <? prev else true) && timely tm' grs' (d_nfuts (gr_dump gr))
  | _, _ => true
  end.

Definition sel_tmo (es : list ev) (tm : list bool) : list bool :=
  map snd (filter (fun x : ev * bool => negb (is_serve (fst x) || is_tick (fst x))) (combine es tm)).

Definition prop_ok_u (es : list ev) (tm : list bool) (grs : list group) : bool :=
      let outs := flat_map gr_outs grs in
      let ids := started_ids es in
      (* one group per select! event *)
      Nat.eqb (length grs) (length (sel_events es)) &&
      (* never two terminal events for one operation, none for an unknown id *)
      forallb (fun q => Nat.leb (count_terms q outs) 1) ids &&
      forallb (fun o => match term_of o with Some q => nmem q ids | None => true end) outs &&
      (* when the environment owes nothing any more, every started operation has reported *)
      (if owes (sel_events es) grs [] [] [] dv0 then true
       else forallb (fun q => Nat.eqb (count_terms q outs) 1) ids) &&
      (* quorum honesty *)
      honest es (sel_events es) grs [] [] [] &&
      (* bounded time: no future outlives the executor timeouts *)
      timely (sel_tmo es tm) grs 0.

(* composed traces: the group carries the routing-table and store dumps after the glue dump *)
Definition p_rt_row : parser unit := let* _ := pN in let* _ := plist p_triple in pret tt.
Definition p_reply : parser unit := let* _ := pN in let* _ := plist pN in let* _ := plist p_pair in pret tt.
Definition p_five : parser unit :=
  let* _ := pN in let* _ := pN in let* _ := pN in let* _ := pN in let* _ := pN in pret tt.
Definition p_four : parser unit :=
  let* _ := pN in let* _ := pN in let* _ := pN in let* _ := pN in pret tt.
Definition p_group_c : parser group :=
  let* ok := pBool in let* outs := plist p_out in let* d := p_dump in
  let* _ := plist p_rt_row in
  let* _ := plist p_five in
  let* _ := plist (let* _ := pN in let* _ := plist p_four in pret tt) in
  let* _ := plist p_pair in let* _ := pN in
  let* _ := plist p_reply in pret (mkGroup ok outs d).
Fixpoint p_groups_c (fuel : nat) : parser (list group) :=
  fun l =>
    match l with
    | [] => Some ([], [])
    | _ => match fuel with
           | O => None
           | S f => (let* gr := p_group_c in let* t := p_groups_c f in pret (gr :: t)) l
           end
    end.
Definition decode_trace_c (t : list N) : option (list group) :=
  match t with
  | 3 :: r => pall (p_groups_c (length r)) r
  | _ => None
  end.

(* the user events as Model.v events, without the computed fields (the oracle reads ids, quorums,
   and the environment's answers only).  A refresh timer that fires starts an operation when the user
   is providing the key (start_providing not followed by stop_providing): `prov` tracks that from the
   user's commands alone *)
Fixpoint skeletons (prov : list (N * quorum)) (us : list guev) : list ev :=
  match us with
  | [] => []
  | GUFut f :: t => oracle_fut f :: skeletons prov t
  | GU u :: t =>
      match u with
      | UCmd q UCFind _ => ECmd q CFindNode [] [] :: skeletons prov t
      | UCmd q (UCPut qr _ _ _) _ => ECmd q (CPutRecord qr) [] [] :: skeletons prov t
      | UCmd q (UCProv qr rk) _ => ECmd q (CStartProviding qr) [] [] :: skeletons (aset rk qr prov) t
      | UCmd q (UCGet qr _) _ => ECmd q (CGetRecord qr false) [] [] :: skeletons prov t
      | UCmd q (UCGetProv _) _ => ECmd q (CGetProviders []) [] [] :: skeletons prov t
      | UPutToPeers q qr _ _ _ _ _ ps => EPutToPeers q qr ps :: skeletons prov t
      | UStoreRecord _ _ _ _ | UAddKnownPeer _ _ | UAge _ => ENop :: skeletons prov t
      | UStopProviding rk _ => ENop :: skeletons (adel rk prov) t
      | UFire q rk _ _ =>
          match aget rk prov with
          | Some qr => ECmd q (CRefresh qr) [] []
          | None => ENop
          end :: skeletons prov t
      | UInReq id rq => EFut id (RRead MPutValue) :: skeletons prov t
      | UEv e => e :: skeletons prov t
      end
  end.
Definition utmo (x : guev) : bool := match x with GUFut f => fb_tmo f | GU _ => false end.
Definition user_events (us : list guev) : list uev :=
  flat_map (fun x => match x with GU u => [u] | GUFut _ => [] end) us.

(* put_record_to_peers sends the record to peers the user named, and to nobody else *)
Definition named (us : list uev) (grs : list group) : bool :=
  let outs := flat_map gr_outs grs in
  forallb (fun u => match u with
                    | UPutToPeers q _ _ _ _ _ _ given =>
                        match find_track q outs with
                        | Some targets => forallb (fun p => nmem p given) targets
                        | None => true
                        end
                    | _ => true
                    end) us.

(* ================================================================================================
   Fourth stream (cases starting with HANDLE_TAG): the KademliaHandle in front of the loop.
   case  = HANDLE_TAG ccap l0..l31 nops op*      (ccap: slots of the command channel; l: key of the local peer)
   op    = 0 tr kind args   a method is called: tr 1 = the try_ variant; kind = the command it sends
                            0 add_known_peer p addr | 1 find_node seed t0..t31 | 2 put_record rk len expc qtag qn t
                            | 3 put_record_to_peers rk len pub expc qtag qn upd npeers p*
                            | 4 get_record rk qtag qn t | 5 get_providers rk t | 6 start_providing rk qtag qn t
                            | 7 stop_providing rk t | 8 store_record rk len pub expc
         | 1               the loop is polled: it takes every command in the channel, one per select! iteration
         | 2               the task of a waiting async method runs
         | 3               the user receives one event
         | 4 rk wait t     `wait` ticks pass and the refresh future of key rk is taken (id from the shared counter)
         | 5               the loop ends (its future is dropped): the command channel is closed
   trace = 4 (per op)  call: code q    0 Err, 1 Ok(()), 2 Ok(id q), 3 suspended in send().await
                       poll: ntaken storedump        wake: 0 | 1 code q
                       recv: 0 | 1 out               fire: q storedump       kill: 7
   The node has an empty routing table: every operation ends in the drain that follows its command.
   ================================================================================================ *)
Definition HANDLE_TAG : N := 1000016.

Inductive hgop := GCall (tr : bool) (b : hbody) | GPoll | GWake | GRecv | GFire (rk wait : N) (t : key) | GKill.
Record hcase := mkHC { hc_cap : N; hc_lkey : key; hc_ops : list hgop }.

Definition hq_of (qtag qn : N) : hquorum :=
  match qtag with 0 => HAll | 1 => HOne | _ => HN (N.succ_pos (qn - 1)) end.

Definition p_hbody : parser hbody :=
  let* kind := pN in
  match kind with
  | 0 => let* p := pN in let* a := pBool in pret (BAddKnownPeer p a)
  | 1 => let* _ := pN in let* t := p_key in pret (BFindNode t)
  | 2 => let* rk := pN in let* len := pN in let* ec := pN in let* qtag := pN in let* qn := pN in let* t := p_key in
         pret (BPutRecord rk len (dec_exp ec) t (hq_of qtag qn))
  | 3 => let* rk := pN in let* len := pN in let* pb := pN in let* ec := pN in let* qtag := pN in let* qn := pN in
         let* upd := pBool in let* ps := plist pN in
         pret (BPutRecordToPeers rk len pb (dec_exp ec) (hq_of qtag qn) ps upd)
  | 4 => let* rk := pN in let* qtag := pN in let* qn := pN in let* t := p_key in pret (BGetRecord rk t (hq_of qtag qn))
  | 5 => let* rk := pN in let* t := p_key in pret (BGetProviders rk t)
  | 6 => let* rk := pN in let* qtag := pN in let* qn := pN in let* t := p_key in pret (BStartProviding rk t (hq_of qtag qn))
  | 7 => let* rk := pN in let* t := p_key in pret (BStopProviding rk t)
  | 8 => let* rk := pN in let* len := pN in let* pb := pN in let* ec := pN in pret (BStoreRecord rk len pb (dec_exp ec))
  | _ => pfail
  end.

Definition p_hgop : parser hgop :=
  let* tag := pN in
  match tag with
  | 0 => let* tr := pBool in let* b := p_hbody in pret (GCall tr b)
  | 1 => pret GPoll
  | 2 => pret GWake
  | 3 => pret GRecv
  | 4 => let* rk := pN in let* wt := pN in let* t := p_key in pret (GFire rk wt t)
  | 5 => pret GKill
  | _ => pfail
  end.

Definition decode_hcase (l : list N) : option hcase :=
  match l with
  | tag :: r => if tag =? HANDLE_TAG
                then pall (let* cap := pN in let* lk := p_key in let* ops := plist p_hgop in pret (mkHC cap lk ops)) r
                else None
  | [] => None
  end.

Definition HLOCAL : N := 99.
Definition hwc (k : hcase) : wcfg :=
  mkWC (mkG 20 V.gen.Consts.PARALLELISM_FACTOR HLOCAL BIG) [(HLOCAL, hc_lkey k)] [] 20
       (V.C17.Model.mkCfg C_MAX_RECORDS C_MAX_RECORD_SIZE
                          V.gen.Consts.DEFAULT_MAX_PROVIDER_KEYS V.gen.Consts.DEFAULT_MAX_PROVIDER_ADDRESSES
                          V.gen.Consts.DEFAULT_MAX_PROVIDERS_PER_KEY C_PROVIDER_TTL)
       C_RECORD_TTL true true C_REFRESH 0.

(* the drain loop: serve the queries that have an action until none has *)
Fixpoint drain (fuel : nat) (wc : wcfg) (w : world) : world * list out :=
  match fuel with
  | O => (w, [])
  | S f =>
      match find (fun x : N * qstate => has_action (now (w_st w)) (snd x)) (eng (w_st w)) with
      | Some x =>
          let '(w1, o, _) := cstep wc w (UEv (EServe (fst x))) in
          let '(w2, o2) := drain f wc w1 in (w2, o ++ o2)
      | None => (w, [])
      end
  end.

Definition do_event (wc : wcfg) (w : world) (u : uev) : world * list out :=
  let '(w1, o, _) := cstep wc w u in
  let '(w2, o2) := drain 64 wc w1 in (w2, o ++ o2).

(* the loop runs until it waits: every command in the channel, in order *)
Fixpoint take_all (fuel : nat) (wc : wcfg) (h : hstate) (w : world) : hstate * world * list out * N :=
  match fuel with
  | O => (h, w, [], 0)
  | S f =>
      match hrecv h with
      | (h1, Some c) =>
          let '(w1, o) := do_event wc w (h2u c) in
          let '(h2, w2, o2, n) := take_all f wc h1 w1 in (h2, w2, o ++ o2, n + 1)
      | (_, None) => (h, w, [], 0)
      end
  end.

Definition enc_hres (r : hres) : list N :=
  match r with
  | RErr => [0; 0]
  | ROk None => [1; 0]
  | ROk (Some q) => [2; q]
  | RWait _ => [3; 0]
  end.

Fixpoint hrun_trace (wc : wcfg) (h : hstate) (w : world) (evq : list out) (ops : list hgop) : list N :=
  match ops with
  | [] => []
  | GCall tr b :: t =>
      if method_exists tr (body_kind b)
      then let '(h1, r) := hcall h tr b in enc_hres r ++ hrun_trace wc h1 w evq t
      else [9]
  | GPoll :: t =>
      let '(h1, w1, o, n) := take_all 64 wc h w in
      n :: dump_store wc w1 ++ hrun_trace wc h1 w1 (evq ++ filter is_event o) t
  | GWake :: t =>
      let '(h1, moved) := hwake h in
      (if moved
       then 1 :: enc_hres (ROk (match h_park h with Some c => cmd_id c | None => None end))
       else [0]) ++ hrun_trace wc h1 w evq t
  | GRecv :: t =>
      match evq with
      | [] => 0 :: hrun_trace wc h w evq t
      | o :: r => 1 :: enc_out o ++ hrun_trace wc h w r t
      end
  | GFire rk wt tg :: t =>
      (* OFire: the store branch yields RefreshProvider (the key is still provided); the id is the counter's *)
      match fire1 wc (age (w_ks w) wt) rk (lrank wc tg) with
      | Some (_, Some _) =>
          let q := h_next h in
          let h1 := mkH (q + 1) (h_chan h) (h_cap h) (h_closed h) (h_park h) in
          let '(w1, o) := do_event wc w (UFire q rk wt tg) in
          q :: dump_store wc w1 ++ hrun_trace wc h1 w1 (evq ++ filter is_event o) t
      | _ => [8]
      end
  | GKill :: t =>
      (* the receiver is gone: what was queued is never taken, a waiting sender is released with an error *)
      7 :: hrun_trace wc (mkH (h_next h) [] (h_cap h) true None) w evq t
  end.

Definition run_hcase (k : hcase) : list N :=
  let wc := hwc k in
  4 :: hrun_trace wc (h0 (N.to_nat (hc_cap k))) (w0 wc [] 256) [] (hc_ops k).

(* ---- the oracle of the handle stream, on the trace alone ---- *)
(* per op: what the trace says *)
Inductive hobs :=
| HOCall (code q : N) | HOPoll (n : N) | HOWake (moved : bool) (code q : N) | HORecv (o : option out) | HOFire (q : N)
| HOKill.

Definition p_store_dump : parser unit :=
  let* _ := plist p_five in
  let* _ := plist (let* _ := pN in let* _ := plist p_four in pret tt) in
  let* _ := plist p_pair in let* _ := pN in pret tt.

Fixpoint p_hobs (ops : list hgop) : parser (list hobs) :=
  match ops with
  | [] => pret []
  | GCall _ _ :: t => let* c := pN in let* q := pN in let* r := p_hobs t in pret (HOCall c q :: r)
  | GPoll :: t => let* n := pN in let* _ := p_store_dump in let* r := p_hobs t in pret (HOPoll n :: r)
  | GWake :: t =>
      let* m := pBool in
      if m then let* c := pN in let* q := pN in let* r := p_hobs t in pret (HOWake true c q :: r)
      else let* r := p_hobs t in pret (HOWake false 0 0 :: r)
  | GRecv :: t =>
      let* f := pBool in
      if f then let* o := p_out in let* r := p_hobs t in pret (HORecv (Some o) :: r)
      else let* r := p_hobs t in pret (HORecv None :: r)
  | GFire _ _ _ :: t => let* q := pN in let* _ := p_store_dump in let* r := p_hobs t in pret (HOFire q :: r)
  | GKill :: t => let* _ := pN in let* r := p_hobs t in pret (HOKill :: r)
  end.

(* the ids the user was given (Ok(id), at once or when the waiting method completed) and the ids of refreshes *)
Definition given_ids (l : list hobs) : list N :=
  flat_map (fun x => match x with
                     | HOCall 2 q => [q]
                     | HOWake true 2 q => [q]
                     | HOFire q => [q]
                     | _ => []
                     end) l.
Definition received (l : list hobs) : list out :=
  flat_map (fun x => match x with HORecv (Some o) => [o] | _ => [] end) l.

(* the case ends drained: the last three ops are poll (nothing taken), wake (nobody waits), recv (nothing) *)
Fixpoint ends_drained (l : list hobs) : bool :=
  match l with
  | [HOPoll 0; HOWake false _ _; HORecv None] => true
  | _ :: t => ends_drained t
  | [] => false
  end.

Definition prop_ok_h (k : hcase) (t : list N) : bool :=
  match t with
  | 4 :: r =>
      match pall (p_hobs (hc_ops k)) r with
      | Some obs =>
          let ids := given_ids obs in
          let outs := received obs in
          (* never two terminal events for one id, none for an id nobody was given: in particular none for the
             id a failed try_ method burnt *)
          forallb (fun q => Nat.leb (count_terms q outs) 1) ids &&
          forallb (fun o => match term_of o with Some q => nmem q ids | None => true end) outs &&
          (* once everything is drained, every operation the user was given an id for has reported — as long
             as the loop lives: when the node has shut the loop down nothing is owed any more *)
          (if ends_drained obs && negb (existsb (fun x => match x with HOKill => true | _ => false end) obs)
           then forallb (fun q => Nat.eqb (count_terms q outs) 1) ids else true)
      | None => false
      end
  | _ => false
  end.

Definition prop_ok1 (c t : list N) : bool :=
  match decode_case c with
  | Some k =>
      if negb (match k_keys k with [] => true | _ => false end)
      then match decode_trace_c t with
           | Some grs => prop_ok_u (skeletons [] (k_uevents k)) (map utmo (k_uevents k)) grs &&
                         named (user_events (k_uevents k)) grs
           | None => false
           end
      else if k_cap k =? 0
      then match decode_trace t with
           | Some grs => prop_ok_u (plain_events (k_events k)) (map otmo (k_events k)) grs
           | None => false
           end
      else match decode_trace_b t with Some grs => prop_ok_b k grs | None => false end
  | None => true
  end.

Definition is_hcase (l : list N) : bool := match l with tag :: _ => tag =? HANDLE_TAG | [] => false end.

Definition run_case (l : list N) : list N :=
  if is_hcase l
  then match decode_hcase l with Some k => run_hcase k | None => [0] end
  else run_case1 l.

Definition prop_ok (c t : list N) : bool :=
  if is_hcase c
  then match decode_hcase c with Some k => prop_ok_h k t | None => true end
  else prop_ok1 c t.

Definition known_class (c t : list N) : N := 0.
