(* C16 — two facts about one step of the TransportService model (coq/Ts), used by Link.v. *)
From Coq Require Import List NArith Bool Lia.
From V.Ts Require Import Model Proofs Answers.
Import ListNotations.
Open Scope N_scope.

Ltac solve_in H :=
  repeat first
    [ progress cbn [snd fst In app] in H
    | match type of H with
      | False => destruct H
      | _ \/ _ => destruct H as [H | H]
      | In _ (_ ++ _) => apply in_app_or in H
      | _ = _ => discriminate H
      | context [match ?x with _ => _ end] => destruct x eqn:?
      end ].

Lemma step_outs : forall s dt e o, In o (snd (step s dt e)) ->
  In o (snd (handle_ev (with_now s (s_now s + dt)) e)) \/ exists p c, o = ODown p c.
Proof.
  intros s dt e o. unfold step. set (s0 := with_now s (s_now s + dt)).
  destruct (handle_ev s0 e) as [s1 o1]. cbn [snd].
  set (sm := match ka_activity_of s0 e with Some k => _ | None => s1 end).
  pose proof (poll_outs_down sm) as PD. destruct (poll_timers sm) as [s2 o2]. cbn [snd] in *.
  intro H. apply in_app_or in H. destruct H as [H | H]; [left; exact H | right; apply PD; exact H].
Qed.

(* an outbound SubstreamOpened is the answer to an open in flight for that peer *)
Lemma sub_from_pend : forall s dt e p id,
  In (OSub p (Some id)) (snd (step s dt e)) -> exists c, pfind id (s_pend s) = Some (p, c).
Proof.
  intros s dt e p id H. destruct (step_outs s dt e _ H) as [H1 | (p' & c' & E)]; [| discriminate E].
  set (s0 := with_now s (s_now s + dt)) in *. assert (P0 : s_pend s0 = s_pend s) by reflexivity.
  clearbody s0. clear H. destruct e; cbn [handle_ev] in H1.
  5: { destruct (pfind id0 (s_pend s0)) as [[p1 c1] |] eqn:Ef; cbn [snd] in H1; destruct H1 as [E | []]; [| discriminate E].
       injection E as -> ->. exists c1. rewrite <- P0. exact Ef. }
  all: unfold on_established, on_closed, on_open, on_open_full, force_outs, force_one in H1; solve_in H1.
Qed.

Lemma pfind_filter_nodup : forall (f : N * key -> bool) id l k,
  NoDup (map fst l) -> pfind id (filter f l) = Some k -> pfind id l = Some k.
Proof.
  intros f id l k Hn. induction l as [| [i k0] t IH]; [discriminate |]. cbn [map fst] in Hn.
  inversion Hn as [| ? ? Hni Hn']. subst. cbn [filter pfind].
  destruct (N.eqb_spec i id) as [-> | Hne].
  - destruct (f (id, k0)); cbn [pfind]; [rewrite N.eqb_refl; auto |].
    intro H. exfalso. apply Hni. apply pfind_ids in H. apply filter_ids_sub in H. exact H.
  - destruct (f (i, k0)); cbn [pfind]; [destruct (N.eqb_spec i id); [contradiction |] |]; apply IH; exact Hn'.
Qed.

Lemma pfind_app_inv : forall id l i k0 k, pfind id (l ++ [(i, k0)]) = Some k ->
  pfind id l = Some k \/ (pfind id l = None /\ i = id /\ k = k0).
Proof.
  intros id l i k0 k. induction l as [| [j kj] t IH]; cbn [app pfind].
  - destruct (N.eqb_spec i id) as [-> | Hne]; [intro H; injection H as <-; right; auto | discriminate].
  - destruct (j =? id); [auto | exact IH].
Qed.

(* what is in flight after a handler was in flight before, or is the open just accepted *)
Lemma handle_pend_back : forall s e id k,
  NoDup (pend_ids s) -> pfind id (s_pend (fst (handle_ev s e))) = Some k ->
  pfind id (s_pend s) = Some k \/
  (exists p, e = EOpen p /\ id = s_next s /\ fst k = p /\ In (ORet 0 id) (snd (handle_ev s e))).
Proof.
  intros s e id k Hn. destruct e; cbn [handle_ev].
  - auto.
  - unfold on_established. dmatch; cbn [fst]; st_simpl; rewrite ?activity_pend; st_simpl; rewrite ?add_chan_pend; auto.
  - unfold on_closed. st_simpl. intro H. left.
    assert (G : pfind id (filter (fun x : N * key => negb (snd (snd x) =? c)) (s_pend s)) = Some k).
    { revert H. dmatch; cbn [fst]; st_simpl; auto. }
    eapply pfind_filter_nodup; [exact Hn | exact G].
  - destruct (0 <? strong s c); cbn [fst]; [rewrite (proj2 (sub_opened_view s p c m)) |]; auto.
  - destruct (pfind id0 (s_pend s)) as [[p c] |]; cbn [fst]; [| auto].
    rewrite (proj2 (sub_opened_view _ p c m)). st_simpl. unfold pdel. intro H. left.
    eapply pfind_filter_nodup; [exact Hn | exact H].
  - cbn [fst]. st_simpl. unfold pdel. intro H. left. eapply pfind_filter_nodup; [exact Hn | exact H].
  - auto.
  - unfold on_open. destruct (find_ctx p (s_ctxs s)) as [cx |]; [| auto].
    destruct (h_act (c_prim cx) || (0 <? strong s (h_id (c_prim cx)))); [| auto].
    cbn [fst snd]. st_simpl.
    assert (E : s_pend (if s_ka s
                        then with_ctxs (activity (with_next s ((s_next s + 1) mod ID_MOD)) (p, h_id (c_prim cx)))
                               (set_ctx (mkCtx p (mkH (h_id (c_prim cx)) true) (c_sec cx))
                                  (s_ctxs (activity (with_next s ((s_next s + 1) mod ID_MOD)) (p, h_id (c_prim cx)))))
                        else with_next s ((s_next s + 1) mod ID_MOD)) = s_pend s).
    { destruct (s_ka s); st_simpl; rewrite ?activity_pend; reflexivity. }
    rewrite E. intro H. destruct (pfind_app_inv _ _ _ _ _ H) as [H1 | (H1 & H2 & H3)]; [left; exact H1 |].
    right. exists p. subst. cbn [fst]. repeat split. left. reflexivity.
  - dmatch; cbn [fst]; st_simpl; auto.
  - dmatch; cbn [fst]; st_simpl; auto.
  - dmatch; cbn [fst]; st_simpl; auto.
  - auto.
  - dmatch; cbn [fst]; st_simpl; auto.
  - unfold on_open_full. dmatch; cbn [fst]; st_simpl; rewrite ?activity_pend; st_simpl; auto.
  - auto.
Qed.

Lemma pend_after : forall s dt e id k,
  pend_inv s -> pfind id (s_pend (fst (step s dt e))) = Some k ->
  pfind id (s_pend s) = Some k \/
  (exists p, e = EOpen p /\ id = s_next s /\ fst k = p /\ ret_ids (snd (step s dt e)) = [id]).
Proof.
  intros s dt e id k [Pn Pl] H. destruct (step_pend_ans s dt e) as [E1 _]. rewrite E1 in H.
  set (s0 := with_now s (s_now s + dt)) in *.
  destruct (handle_pend_back s0 e id k Pn H) as [H1 | (p & -> & Hid & Hk & Hr)]; [left; exact H1 |].
  right. exists p. split; [reflexivity |]. split; [exact Hid |]. split; [exact Hk |].
  (* the step returns exactly this identifier *)
  unfold step. fold s0. destruct (handle_ev s0 (EOpen p)) as [s1 o1] eqn:Eh. cbn [snd] in Hr.
  match goal with |- ret_ids (snd (let '(s2, o2) := poll_timers ?sm in _)) = _ =>
    pose proof (poll_outs_down sm) as PD; destruct (poll_timers sm) as [s2 o2] end.
  cbn [snd]. unfold ret_ids. rewrite flat_map_app.
  rewrite (flat_map_nil _ o2); [| intros x Hx; destruct (PD x Hx) as (p' & c' & ->); reflexivity].
  rewrite app_nil_r. cbn [handle_ev] in Eh. unfold on_open in Eh.
  destruct (find_ctx p (s_ctxs s0)) as [cx |]; [| injection Eh as <- <-; destruct Hr as [E | []]; discriminate E].
  destruct (h_act (c_prim cx) || (0 <? strong s0 (h_id (c_prim cx)))); injection Eh as <- <-.
  - cbn [flat_map app]. subst id. reflexivity.
  - destruct Hr as [E | []]; discriminate E.
Qed.
