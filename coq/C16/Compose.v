(* C16 — the composed model: the Kademlia glue (Model.v) together with the routing table (the C14
   model) and the record store (the C17 model).  Definitions only.

   In Model.v the answers of the routing table (seed candidates of a lookup, the peers of
   put_record_to_peers the table knows) and of the store (is there a local record?) are inputs of
   the commands.  Here they are computed: the world carries a C14 table and a C17 store, every
   place where kademlia/mod.rs touches them is a table / store operation, and a user command is
   elaborated into the Model.v command with the computed seeds, XOR-distance ranks and local-record
   flag.  Peers are labels; `wc_keys` gives their Kademlia keys (SHA-256, 256 bits MSB first). *)
From Coq Require Import List NArith Bool.
From V.C14 Require Model.
From V.C17 Require Model Timed Ingress.
From V.C16 Require Import Model.
Import ListNotations.
Open Scope N_scope.

Definition key := V.C14.Model.key.
Definition table := V.C14.Model.table.
Definition node := V.C14.Model.node.

Record wcfg := mkWC {
  wc_g : gcfg;
  wc_keys : list (N * key);          (* peer label -> key, the local peer included *)
  wc_pool : list N;                  (* the peers whose distance ranks a lookup is given *)
  wc_K : nat;                        (* bucket size *)
  wc_scfg : V.C17.Model.cfg;         (* MemoryStoreConfig *)
  wc_ttl : N;                        (* Config::record_ttl *)
  wc_auto : bool;                    (* RoutingTableUpdateMode::Automatic (false = Manual) *)
  wc_vauto : bool;                   (* IncomingRecordValidationMode::Automatic (false = Manual) *)
  wc_interval : N;                   (* provider_refresh_interval *)
  wc_npub : N                        (* number of public addresses of the local node *)
}.

(* the configuration of C17's model of the loop around the store *)
Definition kc_of (wc : wcfg) : V.C17.Ingress.kcfg :=
  V.C17.Ingress.mkK (wc_scfg wc) (wc_interval wc) (wc_vauto wc) (wc_ttl wc) (g_k (wc_g wc)) (wc_npub wc).

Definition pkey (wc : wcfg) (p : N) : key :=
  match aget p (wc_keys wc) with Some k => k | None => [] end.
Definition lkey (wc : wcfg) : key := pkey wc (g_local (wc_g wc)).

Definition UNKNOWN : N := 777.
Fixpoint peer_of (keys : list (N * key)) (k : key) : N :=
  match keys with
  | [] => UNKNOWN
  | (p, k') :: t => if V.C14.Model.key_eqb k' k then p else peer_of t k
  end.

(* the store of the loop is C17's model: the MemoryStore maps (V.C17.Model), the stored quorums of the
   local providers and the refresh futures with their deadlines on explicit clock readings
   (V.C17.Timed), driven the way kademlia/mod.rs drives it (V.C17.Ingress: `kstep`) *)
Record world := mkW { w_st : st; w_rt : table; w_ks : V.C17.Ingress.kstate }.

Definition w_store (w : world) : V.C17.Model.store := V.C17.Timed.ts_store (V.C17.Ingress.ks_t (w_ks w)).
Definition w_clock (w : world) : N := V.C17.Ingress.ks_now (w_ks w).
Definition w_timers (w : world) : list V.C17.Timed.timer := V.C17.Timed.ts_timers (V.C17.Ingress.ks_t (w_ks w)).
Definition w_quorum (w : world) : list (N * N) := V.C17.Timed.ts_quorum (V.C17.Ingress.ks_t (w_ks w)).

(* ---- the routing table as kademlia/mod.rs uses it ---- *)
Definition rt_op (wc : wcfg) (t : table) (o : V.C14.Model.op) : table :=
  fst (V.C14.Model.step (lkey wc) (wc_K wc) t o).

(* disconnect_peer: `if let Occupied(entry) = routing_table.entry(key) { entry.connection = NotConnected }`:
   the ODisconnected operation of the C14 model *)
Definition rt_disconnect (wc : wcfg) (t : table) (p : N) : table :=
  rt_op wc t (V.C14.Model.ODisconnected (pkey wc p)).

(* put_record_to_peers: `match routing_table.entry(key) { Occupied(e) => Some(e), _ => None }`.
   Before the repair of F-C16e a vacant entry with addresses was a target as well: that entry is the
   slot of the first replaceable node of a full bucket, i.e. ANOTHER peer. *)
Definition rt_filter1 (wc : wcfg) (t : table) (p : N) : table * option N :=
  let k := pkey wc p in
  match V.C14.Model.ilog2 (V.C14.Model.kxor (lkey wc) k) with
  | None => (t, None)
  | Some i =>
      let b := nth i t [] in
      let s := V.C14.Model.bucket_entry (wc_K wc) b k in
      (V.C14.Model.upd_nth i (V.C14.Model.slot_bucket b s) t,
       match s with
       | V.C14.Model.SOcc _ y _ => Some (peer_of (wc_keys wc) (V.C14.Model.n_key y))
       | _ => None
       end)
  end.
Fixpoint rt_filter (wc : wcfg) (t : table) (ps : list N) : table * list N :=
  match ps with
  | [] => (t, [])
  | p :: r =>
      if p =? g_local (wc_g wc) then rt_filter wc t r
      else let '(t1, o) := rt_filter1 wc t p in
           let '(t2, l) := rt_filter wc t1 r in
           (t2, match o with Some x => x :: l | None => l end)
  end.

Definition conn_of (s : st) (p : N) : V.C14.Model.conn :=
  match aget p (peers s) with Some _ => V.C14.Model.Connected | None => V.C14.Model.NotConnected end.

(* update_routing_table: add_known_peer for every reported peer but ourselves (the caller `side`
   applies it in the Automatic mode only; in the Manual mode the user is told of the peers by the
   RoutingTableUpdate event and may call add_known_peer himself) *)
Definition rt_learn (wc : wcfg) (s : st) (t : table) (ps : list N) : table :=
  fold_left (fun acc p =>
               if p =? g_local (wc_g wc) then acc
               else rt_op wc acc (V.C14.Model.OAdd (pkey wc p) true (conn_of s p)))
            ps t.

(* seeds and distance ranks of a lookup *)
Definition seeds_of (wc : wcfg) (t : table) (target : key) : list N :=
  map (fun n => peer_of (wc_keys wc) (V.C14.Model.n_key n))
      (V.C14.Model.closest (lkey wc) t target (N.to_nat (g_k (wc_g wc)))).
(* XOR-distance ranks: the rank of a peer among the local peer and the pool, by distance to the target.
   Peers without a key keep the default BIG + p of Model.lcfg *)
Definition closer (wc : wcfg) (target : key) (x p : N) : bool :=
  V.C14.Model.klt (V.C14.Model.kxor target (pkey wc x)) (V.C14.Model.kxor target (pkey wc p)).
Definition rank_of (wc : wcfg) (target : key) (p : N) : N :=
  N.of_nat (length (filter (fun x => closer wc target x p) (g_local (wc_g wc) :: wc_pool wc))).
Definition has_key (wc : wcfg) (p : N) : bool :=
  match aget p (wc_keys wc) with Some _ => true | None => false end.
Definition dist1 (wc : wcfg) (target : key) (p : N) : N :=
  if has_key wc p then rank_of wc target p else BIG + p.
Definition nlabels (wc : wcfg) : nat := N.to_nat (fold_left N.max (map fst (wc_keys wc)) 0 + 1).
Definition dists_of (wc : wcfg) (target : key) : list N :=
  map (fun i => dist1 wc target (N.of_nat i)) (seq 0 (nlabels wc)).

(* ---- the store as kademlia/mod.rs uses it ---- *)

(* provider ids of the store model: the local peer is LOCAL_ID = 0 *)
Definition pid_of (wc : wcfg) (p : N) : N := if p =? g_local (wc_g wc) then V.C17.Model.LOCAL_ID else p + 1.
Definition peer_of_pid (wc : wcfg) (i : N) : N := if i =? V.C17.Model.LOCAL_ID then g_local (wc_g wc) else i - 1.

(* quorum codes of the store model: 0 All, 1 One, n + 1 = N(n) *)
Definition qcode (qr : quorum) : N := match qr with QAll => 0 | QOne => 1 | QN n => n + 1 end.
Definition qdecode (c : N) : quorum := match c with 0 => QAll | 1 => QOne | _ => QN (c - 1) end.

Definition abs_exp (ks : V.C17.Ingress.kstate) (e : option N) : option N := option_map (fun d => V.C17.Ingress.ks_now ks + d) e.

(* the future with this id reads a request from an inbound substream *)
Definition inbound_read (s : st) (id : N) : bool :=
  match find_fut id (futs s) with
  | Some f => match f_kind f, f_q f with FInRead, None => true | _, _ => false end
  | None => false
  end.
Definition sender (s : st) (id : N) : N :=
  match find_fut id (futs s) with Some f => f_peer f | None => 0 end.

(* ---- user-level events ---- *)
Inductive ucmd :=
| UCFind
| UCPut (qr : quorum) (rk len : N) (exp : option N)   (* key, length of the value, expiry from now (None: record_ttl) *)
| UCProv (qr : quorum) (rk : N)
| UCGet (qr : quorum) (rk : N)
| UCGetProv (rk : N).

(* a request of a remote peer, read from an inbound substream; target = the hash of the key asked for *)
Inductive inreq :=
| IFindNode (target : key)
| IPutValue (rk len pub ttl : N)            (* publisher code (0 none, i + 1 provider id i), ttl of the wire (0 none) *)
| IGetValue (rk : N) (target : key)
| IGetProviders (rk : N) (target : key)
| IAddProvider (rk : N) (provs : list (N * N * N)) (target : key).   (* (peer, addresses, decodes) as sent *)

Inductive uev :=
| UCmd (q : N) (c : ucmd) (target : key)
| UPutToPeers (q : N) (qr : quorum) (rk len pub : N) (exp : option N) (upd : bool) (given : list N)
| UStoreRecord (rk len pub : N) (exp : option N)
| UAddKnownPeer (p : N) (addr : bool)
| UStopProviding (rk : N) (target : key)
| UFire (q rk wait : N) (target : key)      (* `wait` passes, then a completed refresh future of key rk is taken by
                                               store.next_action(); q = the id the loop draws if a refresh is due *)
| UAge (d : N)                              (* time passes *)
| UInReq (id : N) (rq : inreq)              (* the read future of inbound substream id delivers a request *)
| UEv (e : ev).

Definition lrank (wc : wcfg) (target : key) : N := rank_of wc target (g_local (wc_g wc)).

Definition wire_provs (wc : wcfg) (target : key) (provs : list (N * N * N)) : list (N * N * N * N) :=
  map (fun x : N * N * N => (pid_of wc (fst (fst x)), rank_of wc target (fst (fst x)), snd (fst x), snd x)) provs.

(* the event of C17's loop model a user event is for the store *)
Definition kev_of (wc : wcfg) (w : world) (u : uev) : option V.C17.Ingress.kev :=
  let ks := w_ks w in
  match u with
  | UCmd _ (UCPut _ rk len exp) _ => Some (V.C17.Ingress.KCmdPutRecord rk LOCAL_REC len (abs_exp ks exp))
  | UCmd _ (UCProv qr rk) t => Some (V.C17.Ingress.KCmdStartProviding rk (lrank wc t) (qcode qr))
  | UCmd _ (UCGet _ rk) _ => Some (V.C17.Ingress.KCmdGetRecord rk)
  | UCmd _ (UCGetProv rk) _ => Some (V.C17.Ingress.KCmdGetProviders rk)
  | UPutToPeers _ _ rk len pub exp upd _ => Some (V.C17.Ingress.KCmdPutToPeers rk LOCAL_REC len pub (abs_exp ks exp) upd)
  | UStoreRecord rk len pub exp => Some (V.C17.Ingress.KCmdStoreRecord rk LOCAL_REC len pub (abs_exp ks exp))
  | UStopProviding rk t => Some (V.C17.Ingress.KCmdStopProviding rk (lrank wc t))
  | UInReq id rq =>
      if inbound_read (w_st w) id then
        let from := pid_of wc (sender (w_st w) id) in
        match rq with
        | IFindNode _ => None
        | IPutValue rk len pub ttl => Some (V.C17.Ingress.KPutValue from rk LOCAL_REC len pub ttl)
        | IGetValue rk _ => Some (V.C17.Ingress.KGetValue from rk)
        | IGetProviders rk _ => Some (V.C17.Ingress.KGetProviders from rk)
        | IAddProvider rk provs t => Some (V.C17.Ingress.KAddProvider from rk (wire_provs wc t provs))
        end
      else None
  | _ => None
  end.

Definition age (ks : V.C17.Ingress.kstate) (d : N) : V.C17.Ingress.kstate := V.C17.Ingress.mkKS (V.C17.Ingress.ks_t ks) (V.C17.Ingress.ks_now ks + d) (V.C17.Ingress.ks_dead ks).

(* store.next_action() yields one completed refresh future: the first one of key rk whose deadline has passed *)
Fixpoint take_due (now rk : N) (l : list V.C17.Timed.timer) : option (list V.C17.Timed.timer) :=
  match l with
  | [] => None
  | t :: r => if (V.C17.Timed.tm_key t =? rk) && V.C17.Timed.is_due now t then Some r
              else option_map (cons t) (take_due now rk r)
  end.

(* ... and the loop handles it: RefreshProvider with the stored quorum when the key is still provided
   (put_local_provider again, which arms the next future), nothing otherwise *)
Definition fire1 (wc : wcfg) (ks : V.C17.Ingress.kstate) (rk dist : N) : option (V.C17.Ingress.kstate * option N) :=
  if V.C17.Ingress.ks_dead ks then None else
  match take_due (V.C17.Ingress.ks_now ks) rk (V.C17.Timed.ts_timers (V.C17.Ingress.ks_t ks)) with
  | None => None
  | Some rest =>
      let ks1 := V.C17.Ingress.with_ts ks (V.C17.Timed.mkT (V.C17.Timed.ts_store (V.C17.Ingress.ks_t ks)) (V.C17.Timed.ts_quorum (V.C17.Ingress.ks_t ks)) rest) in
      match V.C17.Timed.find_q rk (V.C17.Timed.ts_quorum (V.C17.Ingress.ks_t ks)) with
      | Some qc => Some (V.C17.Ingress.settle (kc_of wc) (fst (V.C17.Ingress.do_top (kc_of wc) ks1 (V.C17.Timed.TPutLocal rk dist qc))), Some qc)
      | None => Some (V.C17.Ingress.settle (kc_of wc) ks1, None)
      end
  end.

(* the store side of a user event: new state of the store, what the store answered *)
Definition kside (wc : wcfg) (w : world) (u : uev) : V.C17.Ingress.kstate * V.C17.Ingress.kout :=
  match kev_of wc w u with
  | Some ke => V.C17.Ingress.kstep (kc_of wc) (w_ks w) ke
  | None =>
      match u with
      | UAge d => (age (w_ks w) d, V.C17.Ingress.KNone)
      | UFire _ rk wait t =>
          match fire1 wc (age (w_ks w) wait) rk (lrank wc t) with
          | Some (ks', _) => (ks', V.C17.Ingress.KNone)
          | None => (w_ks w, V.C17.Ingress.KNone)
          end
      | _ => (w_ks w, V.C17.Ingress.KNone)
      end
  end.

Definition is_hit (o : V.C17.Ingress.kout) : bool := match o with V.C17.Ingress.KRec (Some _) => true | _ => false end.

(* the providers the store hands to get_providers / serves in a GET_PROVIDERS reply *)
Definition known_provs (ks : V.C17.Ingress.kstate) (rk : N) : list V.C17.Model.prov :=
  snd (V.C17.Model.get_providers (V.C17.Timed.ts_store (V.C17.Ingress.ks_t ks)) rk (V.C17.Ingress.ks_now ks)).
Definition addr_ids (n : N) : list N := map N.of_nat (seq 0 (N.to_nat n)).
Definition kprov_of (wc : wcfg) (l : list V.C17.Model.prov) : list (N * list N) :=
  map (fun p => (peer_of_pid wc (V.C17.Model.p_id p), addr_ids (V.C17.Model.p_naddr p))) l.

(* ADD_PROVIDER is accepted (IncomingProvider is raised) when exactly one provider decodes and it is the sender *)
Definition add_valid (wc : wcfg) (from : N) (target : key) (provs : list (N * N * N)) : bool :=
  match V.C17.Ingress.decoded_provs (g_k (wc_g wc)) (wire_provs wc target provs) with
  | [(p, _, _)] => p =? from
  | _ => false
  end.

Definition msg_of_req (wc : wcfg) (w : world) (id : N) (rq : inreq) : msg :=
  match rq with
  | IFindNode _ => MFindNode []
  | IPutValue _ _ pub _ => if pub =? V.C17.Ingress.PUB_INVALID then MInvalid else MPutValue
  | IGetValue _ _ => MGetRecord true None []
  | IGetProviders _ _ => MGetProviders true [] []
  | IAddProvider _ provs t => MAddProvider (add_valid wc (pid_of wc (sender (w_st w) id)) t provs)
  end.

(* which peer disconnect_peer is called for, read from the state before the handler runs *)
Definition disconnects (s : st) (e : ev) : option N :=
  match e with
  | EClosed p => match aget p (conn s) with Some _ => Some p | None => None end
  | EOpenFail sid =>
      match aget sid (psub s) with
      | Some p => match aget p (peers s) with Some _ => Some p | None => None end
      | None => None
      end
  | EFut id r =>
      match find_fut id (futs s) with
      | Some f => if res_ok (f_kind f) r
                  then match r with RSendFail | RReadFail => Some (f_peer f) | _ => None end
                  else None
      | None => None
      end
  | _ => None
  end.

Definition msg_peers (m : msg) : option (list N) :=
  match m with
  | MFindNode ps | MGetRecord _ _ ps | MGetProviders _ _ ps => Some ps
  | _ => None
  end.

(* the table side of a base event *)
Definition side (wc : wcfg) (w : world) (e : ev) : table :=
  let s := w_st w in
  let t0 := match disconnects s e with Some p => rt_disconnect wc (w_rt w) p | None => w_rt w end in
  match e with
  | EEstablished p _ =>
      match aget p (conn s) with
      | Some _ => t0
      | None => rt_op wc t0 (V.C14.Model.OConnected (pkey wc p) true)
      end
  | EDialFail p => rt_op wc t0 (V.C14.Model.ODialFailure (pkey wc p) true)
  | EFut id (RRead m) =>
      match find_fut id (futs s) with
      | Some f =>
          if res_ok (f_kind f) (RRead m) then
            match f_q f, msg_peers (trunc_msg (wc_g wc) m) with
            | Some _, Some ps => if wc_auto wc then rt_learn wc s t0 ps else t0
            | _, _ => t0
            end
          else t0
      | None => t0
      end
  | _ => t0
  end.

(* elaboration of a user event into the Model.v event, and the new table / store *)
Definition elab (wc : wcfg) (w : world) (u : uev) : ev * table * V.C17.Ingress.kstate :=
  let ks' := fst (kside wc w u) in
  match u with
  | UCmd q c target =>
      let seeds := seeds_of wc (w_rt w) target in
      let dists := dists_of wc target in
      (ECmd q match c with
              | UCFind => CFindNode
              | UCPut qr _ _ _ => CPutRecord qr
              | UCProv qr _ => CStartProviding qr
              | UCGet qr _ => CGetRecord qr (is_hit (snd (kside wc w u)))
              | UCGetProv rk => CGetProviders (kprov_of wc (known_provs (w_ks w) rk))
              end dists seeds, w_rt w, ks')
  | UPutToPeers q qr _ _ _ _ _ given =>
      let '(t', ps) := rt_filter wc (w_rt w) given in (EPutToPeers q qr ps, t', ks')
  | UStoreRecord _ _ _ _ => (ENop, w_rt w, ks')
  | UAddKnownPeer p addr =>
      (ENop, rt_op wc (w_rt w) (V.C14.Model.OAdd (pkey wc p) addr (conn_of (w_st w) p)), ks')
  | UStopProviding _ _ => (ENop, w_rt w, ks')
  | UFire q rk wait target =>
      match fire1 wc (age (w_ks w) wait) rk (lrank wc target) with
      | Some (_, Some qc) =>
          (ECmd q (CRefresh (qdecode qc)) (dists_of wc target) (seeds_of wc (w_rt w) target), w_rt w, ks')
      | _ => (ENop, w_rt w, ks')
      end
  | UAge d => (ETick d, w_rt w, ks')
  | UInReq id rq => (EFut id (RRead (msg_of_req wc w id rq)), w_rt w, ks')
  | UEv e => (e, side wc w e, ks')
  end.

(* the schedule is consistent: the loop has not died in the store (debug_assert of remove_local_provider);
   only a completed refresh future is taken; explicit time passing stops before the next deadline; in the
   composed model the requests of remote peers come as UInReq (a message that does not decode touches nothing) *)
Definition uvalid (wc : wcfg) (w : world) (u : uev) : bool :=
  negb (V.C17.Ingress.ks_dead (w_ks w)) &&
  match u with
  | UFire _ rk wait _ =>
      match take_due (w_clock w + wait) rk (w_timers w) with
      | Some rest => forallb (fun t => negb (V.C17.Timed.is_due (w_clock w + wait) t)) rest   (* the only one that is due *)
      | None => false
      end
  | UAge d => forallb (fun t => negb (V.C17.Timed.is_due (w_clock w + d) t)) (w_timers w)
  | UEv (EFut id (RRead m)) =>
      match m with
      | MInvalid => true
      | MAddProvider true => false      (* stored under a key the case does not describe: base mode only *)
      | _ => negb (inbound_read (w_st w) id)
      end
  | _ => true
  end.

(* what the node answers to a request read from an inbound substream: (record found, closer peers,
   providers as (peer, number of addresses)) — RoutingTable::closest of the CURRENT table for the key asked
   for, the record / the providers the store serves *)
Definition reply_of (wc : wcfg) (w : world) (u : uev) : option (bool * list N * list (N * N)) :=
  match u with
  | UInReq id rq =>
      if inbound_read (w_st w) id then
        match rq with
        | IFindNode target => Some (false, seeds_of wc (w_rt w) target, [])
        | IGetValue rk target => Some (is_hit (snd (kside wc w u)), seeds_of wc (w_rt w) target, [])
        | IGetProviders rk target =>
            Some (false, seeds_of wc (w_rt w) target,
                  match snd (kside wc w u) with
                  | V.C17.Ingress.KProvs l => map (fun x : N * N => (peer_of_pid wc (fst x), snd x)) l
                  | _ => []
                  end)
        | _ => None
        end
      else None
  | _ => None
  end.

Definition cstep (wc : wcfg) (w : world) (u : uev) : world * list out * bool :=
  let '(e, t', ks') := elab wc w u in
  let '(st', o, ok) := step (wc_g wc) (w_st w) e in
  (mkW st' t' ks', o, ok && uvalid wc w u).

Fixpoint crun (wc : wcfg) (w : world) (us : list uev) : world * list out :=
  match us with
  | [] => (w, [])
  | u :: t => let '(w1, o, _) := cstep wc w u in
              let '(w2, o2) := crun wc w1 t in (w2, o ++ o2)
  end.

(* the base events the composed run performs *)
Fixpoint elabs (wc : wcfg) (w : world) (us : list uev) : list ev :=
  match us with
  | [] => []
  | u :: t => fst (fst (elab wc w u)) :: elabs wc (fst (fst (cstep wc w u))) t
  end.

Definition w0 (wc : wcfg) (m : list (N * N)) (L : nat) : world :=
  mkW (st0 m) (V.C14.Model.empty_table L) V.C17.Ingress.kstate0.

(* the ids the user starts; a refresh future that is taken starts an operation (with an id from the shared
   counter) only when the key is still provided: `started_by` of the elaborated event decides *)
Definition ustarted_by (u : uev) : option N :=
  match u with
  | UCmd q _ _ | UPutToPeers q _ _ _ _ _ _ _ | UFire q _ _ _ => Some q
  | UEv e => started_by e
  | _ => None
  end.
