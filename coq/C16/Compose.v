(* C16 — the composed model: the Kademlia glue (Model.v) together with the routing table (the C14
   model) and the record store (the C17 model).  Definitions only.

   In Model.v the answers of the routing table (seed candidates of a lookup, the peers of
   put_record_to_peers the table knows) and of the store (is there a local record?) are inputs of
   the commands.  Here they are computed: the world carries a C14 table and a C17 store, every
   place where kademlia/mod.rs touches them is a table / store operation, and a user command is
   elaborated into the Model.v command with the computed seeds, XOR-distance ranks and local-record
   flag.  Peers are labels; `wc_keys` gives their Kademlia keys (SHA-256, 256 bits MSB first). *)
From Coq Require Import List NArith Bool.
From V.C14 Require Model.
From V.C17 Require Model.
From V.C16 Require Import Model.
Import ListNotations.
Open Scope N_scope.

Definition key := V.C14.Model.key.
Definition table := V.C14.Model.table.
Definition node := V.C14.Model.node.

Record wcfg := mkWC {
  wc_g : gcfg;
  wc_keys : list (N * key);          (* peer label -> key, the local peer included *)
  wc_pool : list N;                  (* the peers whose distance ranks a lookup is given *)
  wc_K : nat;                        (* bucket size *)
  wc_scfg : V.C17.Model.cfg;
  wc_ttl : N;                        (* record ttl (logical) *)
  wc_auto : bool;                    (* RoutingTableUpdateMode::Automatic (false = Manual) *)
  wc_vauto : bool                    (* IncomingRecordValidationMode::Automatic (false = Manual) *)
}.

Definition pkey (wc : wcfg) (p : N) : key :=
  match aget p (wc_keys wc) with Some k => k | None => [] end.
Definition lkey (wc : wcfg) : key := pkey wc (g_local (wc_g wc)).

Definition UNKNOWN : N := 777.
Fixpoint peer_of (keys : list (N * key)) (k : key) : N :=
  match keys with
  | [] => UNKNOWN
  | (p, k') :: t => if V.C14.Model.key_eqb k' k then p else peer_of t k
  end.

(* w_prov: MemoryStore::local_providers (key -> quorum of the start_providing call);
   w_timers: MemoryStore::pending_provider_refresh, the keys whose refresh timer is armed (a multiset:
   every put_local_provider arms one more) *)
Record world := mkW {
  w_st : st; w_rt : table; w_store : V.C17.Model.store;
  w_prov : list (N * quorum); w_timers : list N
}.

Fixpoint rem1 (x : N) (l : list N) : list N :=
  match l with [] => [] | h :: t => if h =? x then t else h :: rem1 x t end.

(* ---- the routing table as kademlia/mod.rs uses it ---- *)
Definition rt_op (wc : wcfg) (t : table) (o : V.C14.Model.op) : table :=
  fst (V.C14.Model.step (lkey wc) (wc_K wc) t o).

(* disconnect_peer: `if let Occupied(entry) = routing_table.entry(key) { entry.connection = NotConnected }`:
   the ODisconnected operation of the C14 model *)
Definition rt_disconnect (wc : wcfg) (t : table) (p : N) : table :=
  rt_op wc t (V.C14.Model.ODisconnected (pkey wc p)).

(* put_record_to_peers: `match routing_table.entry(key) { Occupied(e) => Some(e), _ => None }`.
   Before the repair of F-C16e a vacant entry with addresses was a target as well: that entry is the
   slot of the first replaceable node of a full bucket, i.e. ANOTHER peer. *)
Definition rt_filter1 (wc : wcfg) (t : table) (p : N) : table * option N :=
  let k := pkey wc p in
  match V.C14.Model.ilog2 (V.C14.Model.kxor (lkey wc) k) with
  | None => (t, None)
  | Some i =>
      let b := nth i t [] in
      let s := V.C14.Model.bucket_entry (wc_K wc) b k in
      (V.C14.Model.upd_nth i (V.C14.Model.slot_bucket b s) t,
       match s with
       | V.C14.Model.SOcc _ y _ => Some (peer_of (wc_keys wc) (V.C14.Model.n_key y))
       | _ => None
       end)
  end.
Fixpoint rt_filter (wc : wcfg) (t : table) (ps : list N) : table * list N :=
  match ps with
  | [] => (t, [])
  | p :: r =>
      if p =? g_local (wc_g wc) then rt_filter wc t r
      else let '(t1, o) := rt_filter1 wc t p in
           let '(t2, l) := rt_filter wc t1 r in
           (t2, match o with Some x => x :: l | None => l end)
  end.

Definition conn_of (s : st) (p : N) : V.C14.Model.conn :=
  match aget p (peers s) with Some _ => V.C14.Model.Connected | None => V.C14.Model.NotConnected end.

(* update_routing_table: add_known_peer for every reported peer but ourselves (the caller `side`
   applies it in the Automatic mode only; in the Manual mode the user is told of the peers by the
   RoutingTableUpdate event and may call add_known_peer himself) *)
Definition rt_learn (wc : wcfg) (s : st) (t : table) (ps : list N) : table :=
  fold_left (fun acc p =>
               if p =? g_local (wc_g wc) then acc
               else rt_op wc acc (V.C14.Model.OAdd (pkey wc p) true (conn_of s p)))
            ps t.

(* seeds and distance ranks of a lookup *)
Definition seeds_of (wc : wcfg) (t : table) (target : key) : list N :=
  map (fun n => peer_of (wc_keys wc) (V.C14.Model.n_key n))
      (V.C14.Model.closest (lkey wc) t target (N.to_nat (g_k (wc_g wc)))).
Definition rank_of (wc : wcfg) (target : key) (p : N) : N :=
  N.of_nat (length (filter (fun q => V.C14.Model.klt (V.C14.Model.kxor target (pkey wc q))
                                                    (V.C14.Model.kxor target (pkey wc p)))
                           (wc_pool wc))).
Definition dists_of (wc : wcfg) (target : key) : list N := map (rank_of wc target) (wc_pool wc).

(* ---- the store as kademlia/mod.rs uses it ---- *)
Definition REC_LEN : N := 1.
Definition local_record (wc : wcfg) (rk : N) : V.C17.Model.record :=
  V.C17.Model.mkRec rk LOCAL_REC REC_LEN (Some (wc_ttl wc)).
Definition INBOUND_KEY : N := 250.

(* ---- user-level events ---- *)
Inductive ucmd :=
| UCFind | UCPut (qr : quorum) (rk : N) | UCProv (qr : quorum) (rk : N) | UCGet (qr : quorum) (rk : N)
| UCGetProv.

(* a request of a remote peer, read from an inbound substream *)
Inductive inreq :=
| IFindNode (target : key)                  (* FIND_NODE; target = the hash of the key asked for *)
| IPutValue (rk : N)                        (* PUT_VALUE of a record with key rk *)
| IGetValue (rk : N) (target : key)         (* GET_VALUE for key rk (target = its hash) *)
| IGetProviders (target : key)
| IAddProvider (valid : bool).              (* ADD_PROVIDER; valid = one provider, the sender itself *)

Inductive uev :=
| UCmd (q : N) (c : ucmd) (target : key)
| UPutToPeers (q : N) (qr : quorum) (rk : N) (given : list N)
| UStoreRecord (rk : N)
| UAddKnownPeer (p : N) (addr : bool)
| UStopProviding (rk : N)
| UFire (q rk : N) (target : key)           (* a refresh timer of the store for key rk fires; q = the id the
                                               loop draws from the counter if a refresh is due *)
| UInReq (id : N) (rq : inreq)              (* the read future of inbound substream id delivers a request *)
| UEv (e : ev).

Definition msg_of_req (rq : inreq) : msg :=
  match rq with
  | IFindNode _ => MFindNode []
  | IPutValue _ => MPutValue
  | IGetValue _ _ => MGetRecord true None []
  | IGetProviders _ => MGetProviders true [] []
  | IAddProvider v => MAddProvider v
  end.
Definition req_key (rq : inreq) : N :=
  match rq with IPutValue rk | IGetValue rk _ => rk | _ => INBOUND_KEY end.

(* which peer disconnect_peer is called for, read from the state before the handler runs *)
Definition disconnects (s : st) (e : ev) : option N :=
  match e with
  | EClosed p => match aget p (conn s) with Some _ => Some p | None => None end
  | EOpenFail sid =>
      match aget sid (psub s) with
      | Some p => match aget p (peers s) with Some _ => Some p | None => None end
      | None => None
      end
  | EFut id r =>
      match find_fut id (futs s) with
      | Some f => if res_ok (f_kind f) r
                  then match r with RSendFail | RReadFail => Some (f_peer f) | _ => None end
                  else None
      | None => None
      end
  | _ => None
  end.

Definition msg_peers (m : msg) : option (list N) :=
  match m with
  | MFindNode ps | MGetRecord _ _ ps | MGetProviders _ _ ps => Some ps
  | _ => None
  end.

(* the table / store side of a base event *)
Definition side_k (wc : wcfg) (w : world) (e : ev) (inkey : N) : table * V.C17.Model.store :=
  let s := w_st w in
  let t0 := match disconnects s e with Some p => rt_disconnect wc (w_rt w) p | None => w_rt w end in
  match e with
  | EEstablished p _ =>
      match aget p (conn s) with
      | Some _ => (t0, w_store w)
      | None => (rt_op wc t0 (V.C14.Model.OConnected (pkey wc p) true), w_store w)
      end
  | EDialFail p => (rt_op wc t0 (V.C14.Model.ODialFailure (pkey wc p) true), w_store w)
  | EFut id (RRead m) =>
      match find_fut id (futs s) with
      | Some f =>
          if res_ok (f_kind f) (RRead m) then
            match f_q f, trunc_msg (wc_g wc) m with
            | Some _, m' =>
                (match msg_peers m' with
                 | Some ps => if wc_auto wc then rt_learn wc s t0 ps else t0
                 | None => t0
                 end, w_store w)
            | None, MPutValue =>
                (* an inbound PUT_VALUE is stored at once in the Automatic validation mode only; in the
                   Manual mode the user receives IncomingRecord and decides (store_record) *)
                (t0, if wc_vauto wc
                     then V.C17.Model.put (wc_scfg wc) (w_store w) (local_record wc inkey)
                     else w_store w)
            | None, _ => (t0, w_store w)
            end
          else (t0, w_store w)
      | None => (t0, w_store w)
      end
  | _ => (t0, w_store w)
  end.

Definition side (wc : wcfg) (w : world) (e : ev) : table * V.C17.Model.store := side_k wc w e INBOUND_KEY.

(* the future with this id reads a request from an inbound substream *)
Definition inbound_read (s : st) (id : N) : bool :=
  match find_fut id (futs s) with
  | Some f => match f_kind f, f_q f with FInRead, None => true | _, _ => false end
  | None => false
  end.

(* MemoryStore::next_action: a timer is armed for rk, and the key is still provided *)
Definition fire_due (w : world) (rk : N) : option quorum :=
  if nmem rk (w_timers w) then aget rk (w_prov w) else None.

(* elaboration of a user event into the Model.v event, and the new table / store *)
Definition elab (wc : wcfg) (w : world) (u : uev) : ev * table * V.C17.Model.store :=
  match u with
  | UCmd q c target =>
      let seeds := seeds_of wc (w_rt w) target in
      let dists := dists_of wc target in
      match c with
      | UCFind => (ECmd q CFindNode dists seeds, w_rt w, w_store w)
      | UCPut qr rk =>
          (ECmd q (CPutRecord qr) dists seeds, w_rt w,
           V.C17.Model.put (wc_scfg wc) (w_store w) (local_record wc rk))
      | UCProv qr _ => (ECmd q (CStartProviding qr) dists seeds, w_rt w, w_store w)
      | UCGet qr rk =>
          let '(st', r) := V.C17.Model.get (w_store w) rk 0 in
          (ECmd q (CGetRecord qr (match r with Some _ => true | None => false end)) dists seeds, w_rt w, st')
      | UCGetProv => (ECmd q CGetProviders dists seeds, w_rt w, w_store w)
      end
  | UPutToPeers q qr rk given =>
      let '(t', ps) := rt_filter wc (w_rt w) given in (EPutToPeers q qr ps, t', w_store w)
  | UStoreRecord rk =>
      (ENop, w_rt w, V.C17.Model.put (wc_scfg wc) (w_store w) (local_record wc rk))
  | UAddKnownPeer p addr =>
      (ENop, rt_op wc (w_rt w) (V.C14.Model.OAdd (pkey wc p) addr (conn_of (w_st w) p)), w_store w)
  | UStopProviding _ => (ENop, w_rt w, w_store w)
  | UFire q rk target =>
      match fire_due w rk with
      | Some qr => (ECmd q (CRefresh qr) (dists_of wc target) (seeds_of wc (w_rt w) target), w_rt w, w_store w)
      | None => (ENop, w_rt w, w_store w)
      end
  | UInReq id rq =>
      let e := EFut id (RRead (msg_of_req rq)) in
      let '(t', s') := side_k wc w e (req_key rq) in
      (e, t', match rq with
              | IGetValue rk _ => if inbound_read (w_st w) id then fst (V.C17.Model.get s' rk 0) else s'
              | _ => s'
              end)
  | UEv e => let '(t', s') := side wc w e in (e, t', s')
  end.

(* local providers and refresh timers: put_local_provider (start_providing, and again at every refresh)
   registers the key with its quorum and arms one more timer; remove_local_provider forgets the key
   but not its timers; a timer that fires is consumed *)
Definition prov_side (w : world) (u : uev) : list (N * quorum) * list N :=
  match u with
  | UCmd _ (UCProv qr rk) _ => (aset rk qr (w_prov w), w_timers w ++ [rk])
  | UStopProviding rk => (adel rk (w_prov w), w_timers w)
  | UFire _ rk _ =>
      if nmem rk (w_timers w)
      then match aget rk (w_prov w) with
           | Some _ => (w_prov w, rem1 rk (w_timers w) ++ [rk])
           | None => (w_prov w, rem1 rk (w_timers w))
           end
      else (w_prov w, w_timers w)
  | _ => (w_prov w, w_timers w)
  end.

(* the schedule is consistent: only an armed timer fires *)
Definition uvalid (w : world) (u : uev) : bool :=
  match u with UFire _ rk _ => nmem rk (w_timers w) | _ => true end.

(* what the node answers to a request read from an inbound substream: (record found, closer peers) —
   RoutingTable::closest of the CURRENT table for the key asked for, the local record if there is one *)
Definition reply_of (wc : wcfg) (w : world) (u : uev) : option (bool * list N) :=
  match u with
  | UInReq id rq =>
      if inbound_read (w_st w) id then
        match rq with
        | IFindNode target => Some (false, seeds_of wc (w_rt w) target)
        | IGetValue rk target =>
            Some (match snd (V.C17.Model.get (w_store w) rk 0) with Some _ => true | None => false end,
                  seeds_of wc (w_rt w) target)
        | IGetProviders target => Some (false, seeds_of wc (w_rt w) target)
        | _ => None
        end
      else None
  | _ => None
  end.

Definition cstep (wc : wcfg) (w : world) (u : uev) : world * list out * bool :=
  let '(e, t', s') := elab wc w u in
  let '(st', o, ok) := step (wc_g wc) (w_st w) e in
  (mkW st' t' s' (fst (prov_side w u)) (snd (prov_side w u)), o, ok && uvalid w u).

Fixpoint crun (wc : wcfg) (w : world) (us : list uev) : world * list out :=
  match us with
  | [] => (w, [])
  | u :: t => let '(w1, o, _) := cstep wc w u in
              let '(w2, o2) := crun wc w1 t in (w2, o ++ o2)
  end.

(* the base events the composed run performs *)
Fixpoint elabs (wc : wcfg) (w : world) (us : list uev) : list ev :=
  match us with
  | [] => []
  | u :: t => fst (fst (elab wc w u)) :: elabs wc (fst (fst (cstep wc w u))) t
  end.

Definition w0 (wc : wcfg) (m : list (N * N)) (L : nat) : world :=
  mkW (st0 m) (V.C14.Model.empty_table L) V.C17.Model.empty_store [] [].
