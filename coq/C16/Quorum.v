(* C16 — "A put or announcement reports success only if the requested quorum of peers was actually sent the
   data": the clause, variant by variant.

   The general theorem is Obl.quorum_honest_put / Comp.c_quorum_honest: a PutRecordSuccess /
   AddProviderSuccess for q needs completed sends — futures of the send phase whose WRITE side accepted the
   frame (Exec.exec_sent) — to at least clamp(quorum, |targets|) distinct target peers, where the quorum is
   the one `find_quorum` reads from the command that started q.  This file adds what ties that to the API:

   - `elab_quorum`: for every put / announce variant — put_record, put_record_to_peers with and without
     update_local_store, start_providing, and the refresh re-announcement the store starts — the command the
     loop performs carries the quorum the user asked for (for a refresh: the quorum stored with the key);
   - `clamp_api`: what clamp is for the three variants of `enum Quorum` (coq/gen/C16Tables.v: All, One,
     N(NonZeroUsize)): One -> 1; All -> every target (1 when there is none: never reached); N(n) -> n when
     there are at least n targets, otherwise every target (the clamp of PutToTargetPeersContext::new,
     commented in the source: "Without such clamping the query would always fail in small testnets");
     N(0) cannot be written down (`q_of_nonzero`), and a stored quorum never decodes to it;
   - `success_needs_a_send`: with such a quorum a success needs at least ONE peer that was sent the data — in
     particular no success with an empty target list;
   - `handle_quorum_honest`: all of it for every history that goes through the KademliaHandle. *)
From Coq Require Import List NArith Bool Lia.
From V.C16 Require Import Model Proofs Obl Compose Comp HandleModel Handle.
Import ListNotations.
Open Scope N_scope.

(* ---- the command carries the quorum the user asked for ---- *)
Lemma elab_quorum : forall wc w q,
  (forall qr rk len e t,
     quorum_of_ev q (fst (fst (elab wc w (UCmd q (UCPut qr rk len e) t)))) = Some qr) /\
  (forall qr rk t,
     quorum_of_ev q (fst (fst (elab wc w (UCmd q (UCProv qr rk) t)))) = Some qr) /\
  (forall qr rk len pb e upd given,
     quorum_of_ev q (fst (fst (elab wc w (UPutToPeers q qr rk len pb e upd given)))) = Some qr) /\
  (forall rk wait t ks' qc,
     fire1 wc (age (w_ks w) wait) rk (lrank wc t) = Some (ks', Some qc) ->
     quorum_of_ev q (fst (fst (elab wc w (UFire q rk wait t)))) = Some (qdecode qc)).
Proof.
  intros wc w q. repeat split; intros; cbn [elab fst quorum_of_ev]; rewrite ?N.eqb_refl; try reflexivity.
  - destruct (rt_filter wc (w_rt w) given) as [t' ps]. cbn [fst quorum_of_ev]. rewrite N.eqb_refl. reflexivity.
  - rewrite H. cbn [fst quorum_of_ev]. rewrite N.eqb_refl. reflexivity.
Qed.

(* ---- enum Quorum: the three variants ---- *)
Lemma qdecode_nonzero : forall c, qdecode c <> QN 0.
Proof.
  intro c. unfold qdecode. destruct c as [| p]; [discriminate |].
  destruct p; try discriminate; intro H; injection H as H; lia.
Qed.

Lemma clamp_api : forall h len,
  1 <= clamp (q_of h) len /\
  match h with
  | HOne => clamp (q_of h) len = 1
  | HAll => clamp (q_of h) len = N.max len 1
  | HN n => (Npos n <= len -> clamp (q_of h) len = Npos n) /\
            (1 <= len -> len <= Npos n -> clamp (q_of h) len = len) /\
            (len = 0 -> clamp (q_of h) len = 1)
  end.
Proof.
  intros h len. destruct h as [| | n]; cbn [q_of clamp]; repeat split; try lia.
Qed.

Lemma clamp_pos : forall qr len, qr <> QN 0 -> 1 <= clamp qr len.
Proof. intros qr len H. destruct qr as [| n |]; cbn [clamp]; try lia. assert (n <> 0) by congruence. lia. Qed.

(* ---- a success needs a peer that was sent the data ---- *)
Lemma success_needs_a_send : forall g m es q,
  fresh_ids [] es -> cmds_ok g es ->
  (forall qr, find_quorum q es = Some qr -> qr <> QN 0) ->
  let outs := snd (run g (st0 m) es) in
  In (OPutSuccess q) outs \/ In (OProvSuccess q) outs ->
  exists targets p, In (OTrack q targets) outs /\ In p targets /\ In (q, p) (put_sends g (st0 m) es).
Proof.
  intros g m es q Hf Hc Hq outs Hs.
  destruct (quorum_honest_put g m es q Hf Hc Hs) as (targets & qr & S & F & T & _ & C & P).
  pose proof (clamp_pos qr (N.of_nat (length targets)) (Hq _ F)) as C1.
  destruct S as [| p S']; [cbn in C; lia |].
  exists targets, p. destruct (P p (or_introl eq_refl)) as [P1 P2]. auto.
Qed.

(* ---- histories through the handle: every quorum is one the API can express ---- *)
Definition api_quorum (u : uev) : Prop :=
  match u with
  | UCmd _ (UCPut qr _ _ _) _ | UCmd _ (UCProv qr _) _ | UCmd _ (UCGet qr _) _ | UPutToPeers _ qr _ _ _ _ _ _ => qr <> QN 0
  | UEv e => started_by e = None
  | _ => True
  end.

Lemma find_quorum_cons : forall q e t,
  find_quorum q (e :: t) = match quorum_of_ev q e with Some qr => Some qr | None => find_quorum q t end.
Proof. reflexivity. Qed.

Lemma elab_api : forall wc w u q qr, api_quorum u ->
  quorum_of_ev q (fst (fst (elab wc w u))) = Some qr -> qr <> QN 0.
Proof.
  intros wc w u q qr Ha.
  destruct u as [q0 c target | q0 qr0 rk len pub exp upd given | rk len pub exp | p a | rk target | q0 rk wait target | d | id rq | e];
    cbn [elab api_quorum] in *.
  - destruct c; cbn [fst quorum_of_ev]; try discriminate;
      (destruct (q0 =? q); [intro H; injection H as <-; exact Ha | discriminate]).
  - destruct (rt_filter wc (w_rt w) given) as [t' ps]. cbn [fst quorum_of_ev].
    destruct (q0 =? q); [intro H; injection H as <-; exact Ha | discriminate].
  - discriminate.
  - discriminate.
  - discriminate.
  - destruct (fire1 wc (age (w_ks w) wait) rk (lrank wc target)) as [[k0 [qc |]] |]; cbn [fst quorum_of_ev]; try discriminate.
    destruct (q0 =? q); [intro H; injection H as <-; apply qdecode_nonzero | discriminate].
  - discriminate.
  - discriminate.
  - cbn [fst]. destruct e; cbn [quorum_of_ev started_by] in *; try discriminate.
Qed.

Lemma elabs_api : forall wc us w q qr, Forall api_quorum us ->
  find_quorum q (elabs wc w us) = Some qr -> qr <> QN 0.
Proof.
  intros wc us. induction us as [| u t IH]; intros w q qr HF; [discriminate |].
  inversion HF as [| ? ? Hu Ht]. subst. cbn [elabs]. rewrite find_quorum_cons.
  destruct (quorum_of_ev q (fst (fst (elab wc w u)))) as [qr0 |] eqn:E.
  - intro H. injection H as <-. eapply elab_api; eassumption.
  - apply IH. exact Ht.
Qed.

Lemma h2u_api : forall c, api_quorum (h2u c).
Proof. destruct c; cbn [h2u api_quorum]; try exact I; apply q_of_nonzero. Qed.

Lemma hrun_api : forall ops h, Forall api_quorum (snd (fst (hrun h ops))).
Proof.
  induction ops as [| o t IH]; intro h; [constructor |]. destruct o as [tr b | | | rk wait tg | u]; cbn [hrun].
  - destruct (hcall h tr b) as [h1 r]. specialize (IH h1). destruct (hrun h1 t) as [[h2 us] rs]. exact IH.
  - destruct (hrecv h) as [h1 c]. specialize (IH h1). destruct (hrun h1 t) as [[h2 us] rs]. cbn [fst snd] in *.
    destruct c as [c |]; [constructor; [apply h2u_api | exact IH] | exact IH].
  - apply IH.
  - specialize (IH (mkH (h_next h + 1) (h_chan h) (h_cap h) (h_closed h) (h_park h))).
    destruct (hrun _ t) as [[h2 us] rs]. cbn [fst snd] in *. constructor; [exact I | exact IH].
  - specialize (IH h). destruct (hrun h t) as [[h2 us] rs]. cbn [fst snd] in *.
    unfold env_ok. destruct (ustarted_by u) eqn:Eu; cbn [app]; [exact IH |]. constructor; [| exact IH].
    destruct u; cbn [ustarted_by api_quorum] in *; try discriminate; try exact I. exact Eu.
Qed.

(* the events of the environment: only put_record_to_peers lists are checked (no peer named twice) *)
Definition ops_ok (g : gcfg) (ops : list hop) : Prop :=
  Forall (fun o => match o with
                   | OCall _ (BPutRecordToPeers _ _ _ _ _ peers _) => NoDup peers
                   | OEnv u => ucmd_ok g u
                   | _ => True
                   end) ops.

(* what is in the channel or waits was accepted from a well-formed call *)
Definition cmd_wf (c : hcmd) : Prop :=
  match c with HPutRecordToPeers _ _ _ _ _ _ peers _ => NoDup peers | _ => True end.
Definition hwf (h : hstate) : Prop :=
  Forall cmd_wf (h_chan h) /\ match h_park h with Some c => cmd_wf c | None => True end.

Lemma with_id_wf : forall b q,
  match b with BPutRecordToPeers _ _ _ _ _ peers _ => NoDup peers | _ => True end -> cmd_wf (with_id b q).
Proof. destruct b; cbn [with_id cmd_wf]; auto. Qed.

Lemma h2u_ucmd_ok : forall g c, cmd_wf c -> ucmd_ok g (h2u c).
Proof. destruct c; cbn [h2u ucmd_ok cmd_wf]; auto. Qed.

Lemma hrun_ucmd_ok : forall g ops h, hwf h -> ops_ok g ops -> Forall (ucmd_ok g) (snd (fst (hrun h ops))).
Proof.
  intros g. induction ops as [| o t IH]; intros h Hw Ho; [constructor |].
  inversion Ho as [| ? ? Ho1 Ho2]. subst. destruct o as [tr b | | | rk wait tg | u]; cbn [hrun].
  - assert (W1 : hwf (fst (hcall h tr b))).
    { destruct Hw as [W1 W2]. pose proof (with_id_wf b (h_next h) Ho1) as Wc. unfold hcall.
      destruct tr.
      - destruct (h_closed h || full h); cbn [fst]; split; cbn [h_chan h_park]; try assumption.
        apply Forall_app. split; [exact W1 | constructor; [exact Wc | constructor]].
      - destruct (h_closed h); cbn [fst]; [split; assumption |].
        destruct (full h); cbn [fst]; split; cbn [h_chan h_park]; try assumption.
        + destruct (h_park h); assumption.
        + apply Forall_app. split; [exact W1 | constructor; [exact Wc | constructor]]. }
    destruct (hcall h tr b) as [h1 r]. cbn [fst] in W1. specialize (IH h1 W1 Ho2).
    destruct (hrun h1 t) as [[h2 us] rs]. exact IH.
  - unfold hrecv. destruct Hw as [W1 W2]. destruct (h_chan h) as [| c tl] eqn:Ec.
    + specialize (IH h (conj (eq_ind_r (fun l => Forall cmd_wf l) W1 Ec) W2) Ho2).
      destruct (hrun h t) as [[h2 us] rs]. exact IH.
    + inversion W1 as [| ? ? Wc Wt]. subst.
      specialize (IH (mkH (h_next h) tl (h_cap h) (h_closed h) (h_park h)) (conj Wt W2) Ho2).
      destruct (hrun _ t) as [[h2 us] rs]. cbn [fst snd] in *. constructor; [apply h2u_ucmd_ok; exact Wc | exact IH].
  - apply IH; [| exact Ho2]. unfold hwake. destruct Hw as [W1 W2]. destruct (h_park h) as [c |] eqn:Ep; [| split; cbn [fst]; [exact W1 | rewrite ?Ep; exact I]].
    destruct (full h); cbn [fst]; [split; [exact W1 | rewrite ?Ep; exact W2] |].
    split; cbn [h_chan h_park]; [| exact I]. apply Forall_app. split; [exact W1 | constructor; [exact W2 | constructor]].
  - specialize (IH (mkH (h_next h + 1) (h_chan h) (h_cap h) (h_closed h) (h_park h)) Hw Ho2).
    destruct (hrun _ t) as [[h2 us] rs]. cbn [fst snd] in *. constructor; [exact I | exact IH].
  - specialize (IH h Hw Ho2). destruct (hrun h t) as [[h2 us] rs]. cbn [fst snd] in *.
    destruct (env_ok u); cbn [app]; [constructor; [exact Ho1 | exact IH] | exact IH].
Qed.

(* quorum honesty for every history through the KademliaHandle: PutRecord, PutRecordToPeers (both values of
   update_local_store), StartProviding and the refresh re-announcements; Quorum::One / N / All *)
Lemma handle_quorum_honest : forall wc m cap ops q,
  keys_ok wc -> ops_ok (wc_g wc) ops ->
  let us := snd (fst (hrun (h0 cap) ops)) in
  let W0 := w0 wc m (length (lkey wc)) in
  let outs := snd (crun wc W0 us) in
  let es := elabs wc W0 us in
  In (OPutSuccess q) outs \/ In (OProvSuccess q) outs ->
  exists targets qr S,
    find_quorum q es = Some qr /\ qr <> QN 0 /\ In (OTrack q targets) outs /\ NoDup S /\
    clamp qr (N.of_nat (length targets)) <= N.of_nat (length S) /\ (1 <= length S)%nat /\
    (forall p, In p S -> In (q, p) (put_sends (wc_g wc) (st0 m) es) /\ In p targets).
Proof.
  intros wc m cap ops q Hk Ho us W0 outs es Hs.
  assert (Hw : hwf (h0 cap)) by (split; [constructor | exact I]).
  pose proof (hrun_ucmd_ok (wc_g wc) ops (h0 cap) Hw Ho) as Hu. fold us in Hu.
  destruct (c_quorum_honest wc m us q Hk (handle_ids_fresh cap ops) Hu Hs) as (targets & qr & S & F & T & Nd & C & P).
  assert (Hz : qr <> QN 0) by (eapply elabs_api; [apply hrun_api | exact F]).
  exists targets, qr, S. split; [exact F |]. split; [exact Hz |]. split; [exact T |]. split; [exact Nd |].
  split; [exact C |]. split; [| exact P].
  pose proof (clamp_pos qr (N.of_nat (length targets)) Hz). lia.
Qed.
