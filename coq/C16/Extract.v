From Coq Require Import ExtrOcamlBasic.
From V.C16 Require Import Glue.
Extraction Language OCaml.
Extraction "c16_model.ml" run_case prop_ok known_class.
