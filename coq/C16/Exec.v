(* C16 — the futures of the QueryExecutor (src/protocol/libp2p/kademlia/executor.rs) with their timers.

   In Model.v the completion of a future is an event `EFut id r` with an abstract result r, accepted when
   `res_ok kind r`.  Here the five kinds of futures are executed against what the substream does:
   every future is a write phase under WRITE_TIMEOUT, a read phase under READ_TIMEOUT, or one after the
   other (send_request_read_response, send_request_eat_response_failure).  `exec` returns the
   QueryResult and the time the future took.  Proved below: the result is always one that `res_ok`
   accepts, every accepted result is produced by some behaviour of the substream (the abstract events
   are exactly the executor's outcomes), no future lives longer than WRITE_TIMEOUT + READ_TIMEOUT, and a
   peer that never answers ends in the failure path (ReadFailure; AssumeSendSuccess for the PUT_VALUE
   workaround) exactly when the read timeout expires. *)
From Coq Require Import List NArith Bool Lia.
From V.C16 Require Import Model.
Import ListNotations.
Open Scope N_scope.

(* the write side of the substream, seen from the start of the write: the frame is accepted after t,
   the write fails after t, or it blocks for ever *)
Inductive wbeh := WAccept (t : N) | WFail (t : N) | WNever.
(* the read side, seen from the start of the read: a frame arrives after t, the substream ends (EOF or
   error) after t, or nothing ever comes *)
Inductive rbeh := RMsg (t : N) (m : msg) | RClose (t : N) | RNever.

Record tmo := mkT { t_w : N; t_r : N }.       (* WRITE_TIMEOUT, READ_TIMEOUT *)

(* tokio::time::timeout(WRITE_TIMEOUT, substream.send_framed(..)): (written, duration) *)
Definition wphase (T : tmo) (w : wbeh) : bool * N :=
  match w with
  | WAccept t => if t <? t_w T then (true, t) else (false, t_w T)
  | WFail t => if t <? t_w T then (false, t) else (false, t_w T)
  | WNever => (false, t_w T)
  end.

(* tokio::time::timeout(READ_TIMEOUT, substream.next()): (message, duration) *)
Definition rphase (T : tmo) (r : rbeh) : option msg * N :=
  match r with
  | RMsg t m => if t <? t_r T then (Some m, t) else (None, t_r T)
  | RClose t => if t <? t_r T then (None, t) else (None, t_r T)
  | RNever => (None, t_r T)
  end.

Definition exec (T : tmo) (k : fkind) (w : wbeh) (r : rbeh) : fres * N :=
  match k with
  | FSend | FInSend =>                       (* send_message *)
      let '(ok, t) := wphase T w in (if ok then RSendOk else RSendFail, t)
  | FInSendEat =>                            (* send_message_eat_failure *)
      let '(ok, t) := wphase T w in (if ok then RSendOk else RAssume, t)
  | FInRead =>                               (* read_message *)
      let '(m, t) := rphase T r in (match m with Some m => RRead m | None => RReadFail end, t)
  | FReqResp =>                              (* send_request_read_response *)
      let '(ok, t) := wphase T w in
      if ok then let '(m, t2) := rphase T r in (match m with Some m => RRead m | None => RReadFail end, t + t2)
      else (RSendFail, t)
  | FReqEat =>                               (* send_request_eat_response_failure *)
      let '(ok, t) := wphase T w in
      if ok then let '(m, t2) := rphase T r in (match m with Some m => RRead m | None => RAssume end, t + t2)
      else (RSendFail, t)
  end.

(* the request left the node: the write phase of the future was completed *)
Definition written (T : tmo) (w : wbeh) : bool := fst (wphase T w).

(* ---- facts ---- *)

Lemma wphase_le : forall T w, snd (wphase T w) <= t_w T.
Proof.
  intros T [t | t |]; cbn [wphase]; try (destruct (t <? t_w T) eqn:E; cbn [snd]; [apply N.ltb_lt in E |]); cbn [snd]; lia.
Qed.

Lemma rphase_le : forall T r, snd (rphase T r) <= t_r T.
Proof.
  intros T [t m | t |]; cbn [rphase]; try (destruct (t <? t_r T) eqn:E; cbn [snd]; [apply N.ltb_lt in E |]); cbn [snd]; lia.
Qed.

(* every outcome of a future is one the event loop's model accepts for its kind *)
Lemma exec_sound : forall T k w r, res_ok k (fst (exec T k w r)) = true.
Proof.
  intros T k w r. destruct k; cbn [exec]; destruct (wphase T w) as [ok t]; destruct (rphase T r) as [[m |] t2];
    destruct ok; reflexivity.
Qed.

(* no future outlives the two timeouts *)
Lemma exec_bounded : forall T k w r, snd (exec T k w r) <= t_w T + t_r T.
Proof.
  intros T k w r. pose proof (wphase_le T w) as Hw. pose proof (rphase_le T r) as Hr.
  destruct k; cbn [exec]; destruct (wphase T w) as [ok t]; destruct (rphase T r) as [[m |] t2];
    destruct ok; cbn [fst snd] in *; lia.
Qed.

(* and every accepted result is the outcome of some behaviour of the substream *)
Lemma exec_complete : forall T k res,
  0 < t_w T -> 0 < t_r T -> res_ok k res = true -> exists w r, fst (exec T k w r) = res.
Proof.
  intros T k res Hw Hr H.
  assert (W0 : wphase T (WAccept 0) = (true, 0)).
  { cbn [wphase]. destruct (0 <? t_w T) eqn:E; [reflexivity | apply N.ltb_ge in E; lia]. }
  assert (WF : wphase T WNever = (false, t_w T)) by reflexivity.
  assert (R0 : forall m, rphase T (RMsg 0 m) = (Some m, 0)).
  { intro m. cbn [rphase]. destruct (0 <? t_r T) eqn:E; [reflexivity | apply N.ltb_ge in E; lia]. }
  assert (RN : rphase T RNever = (None, t_r T)) by reflexivity.
  destruct k, res; try discriminate H; cbn [exec].
  - exists WNever, RNever. rewrite WF. reflexivity.
  - exists (WAccept 0), (RMsg 0 m). rewrite W0, R0. reflexivity.
  - exists (WAccept 0), RNever. rewrite W0, RN. reflexivity.
  - exists (WAccept 0), RNever. rewrite W0, RN. reflexivity.
  - exists WNever, RNever. rewrite WF. reflexivity.
  - exists (WAccept 0), (RMsg 0 m). rewrite W0, R0. reflexivity.
  - exists (WAccept 0), RNever. rewrite W0. reflexivity.
  - exists WNever, RNever. rewrite WF. reflexivity.
  - exists WNever, (RMsg 0 m). rewrite R0. reflexivity.
  - exists WNever, RNever. rewrite RN. reflexivity.
  - exists (WAccept 0), RNever. rewrite W0. reflexivity.
  - exists WNever, RNever. rewrite WF. reflexivity.
  - exists (WAccept 0), RNever. rewrite W0. reflexivity.
  - exists WNever, RNever. rewrite WF. reflexivity.
Qed.

(* a peer that takes the request and never answers: the read timeout ends the wait, exactly
   READ_TIMEOUT after the write — with ReadFailure (the query is told: disconnect_peer), or with
   AssumeSendSuccess for the PUT_VALUE future (the workaround for peers that send no ACK) *)
Lemma exec_silent : forall T k t,
  t < t_w T ->
  exec T k (WAccept t) RNever =
  match k with
  | FReqResp => (RReadFail, t + t_r T)
  | FReqEat => (RAssume, t + t_r T)
  | FInRead => (RReadFail, t_r T)
  | _ => (RSendOk, t)
  end.
Proof.
  intros T k t Ht. apply N.ltb_lt in Ht. destruct k; cbn [exec wphase rphase]; rewrite ?Ht; reflexivity.
Qed.

(* a peer that does not even take the request: SendFailure at WRITE_TIMEOUT (AssumeSendSuccess for the
   ACK of an inbound PUT_VALUE, which nobody waits for) *)
Lemma exec_blocked : forall T k r,
  exec T k WNever r =
  match k with
  | FInRead => exec T FInRead WNever r
  | FInSendEat => (RAssume, t_w T)
  | _ => (RSendFail, t_w T)
  end.
Proof. intros T k r. destruct k; reflexivity. Qed.

(* a completion counts as "the data was sent" exactly when the write phase was completed *)
Lemma exec_sent : forall T k w r,
  k = FReqEat \/ k = FSend -> sent_res (fst (exec T k w r)) = written T w.
Proof.
  intros T k w r [-> | ->]; unfold written; cbn [exec]; destruct (wphase T w) as [ok t];
    destruct (rphase T r) as [[m |] t2]; destruct ok; reflexivity.
Qed.
