(* C16 — "within bounded time" for composed histories (routing table = C14 model, store = C17 model):
   Time.bounded_time / bounded_time_budget lifted along the refinement Comp.compose_refines.  The clock of
   the glue model advances with `UAge d` (time passing for the whole node: the store's clock, its refresh
   futures, the record and provider expiries move with it) and `UEv (ETick d)`. *)
From Coq Require Import List Arith NArith Bool Lia.
From V.C16 Require Import Model Proofs Obl Bound Time Compose Comp.
Import ListNotations.
Open Scope N_scope.

Section CT.
Variables (wc : wcfg) (m : list (N * N)).
Let g := wc_g wc.
Let W0 := w0 wc m (length (lkey wc)).

Lemma c_bounded_time : forall D us0 ua u ub,
  1 <= g_alpha g ->
  let w1 := fst (crun wc W0 us0) in
  let es1 := elabs wc w1 (ua ++ u :: ub) in
  is_tick (fst (fst (elab wc (fst (crun wc w1 ua)) u))) = false ->
  fair_run g (w_st w1) es1 ->
  timed D g (w_st w1) (restamp (now (w_st w1)) [] (okeys (w_st w1))) es1 ->
  now (w_st (fst (crun wc w1 ua))) <= now (w_st w1) + D * N.of_nat (S (length (work (elabs wc w1 ua)))).
Proof.
  intros D us0 ua u ub Ha w1 es1 He Hf Ht.
  destruct (compose_refines wc us0 W0) as [S0 _]. fold w1 in S0.
  destruct (compose_refines wc ua w1) as [S1 _].
  subst es1. rewrite elabs_app in Hf, Ht. cbn [elabs] in Hf, Ht.
  rewrite S0 in *.
  pose proof (bounded_time D g m (elabs wc W0 us0) (elabs wc w1 ua) _ _ Ha He Hf Ht) as H.
  cbn zeta in H. rewrite S1. exact H.
Qed.

Lemma c_bounded_time_budget : forall D U us0 ua u ub,
  keys_ok wc -> 1 <= g_alpha g ->
  (forall p, In p (UNKNOWN :: map fst (wc_keys wc)) -> In p U) ->
  ufresh [] (us0 ++ ua ++ u :: ub) -> Forall (ucmd_ok g) us0 -> Forall (uev_in_U U) (us0 ++ ua ++ u :: ub) ->
  let w1 := fst (crun wc W0 us0) in
  let es1 := elabs wc w1 (ua ++ u :: ub) in
  is_tick (fst (fst (elab wc (fst (crun wc w1 ua)) u))) = false ->
  fair_run g (w_st w1) es1 ->
  timed D g (w_st w1) (restamp (now (w_st w1)) [] (okeys (w_st w1))) es1 ->
  now (w_st (fst (crun wc w1 ua))) <= now (w_st w1) + D * N.of_nat (budget (length U) g (elabs wc W0 us0)).
Proof.
  intros D U us0 ua u ub Hk Ha HU Hfr Hok Hin w1 es1 He Hf Ht.
  destruct (compose_refines wc us0 W0) as [S0 _]. fold w1 in S0.
  destruct (compose_refines wc ua w1) as [S1 _].
  apply Forall_app in Hin. destruct Hin as [Hin0 Hin1].
  assert (Fr : fresh_ids [] (elabs wc W0 us0 ++ es1)).
  { subst es1. unfold w1. rewrite <- (elabs_app wc us0 (ua ++ u :: ub) W0). apply elabs_fresh. exact Hfr. }
  assert (C0 : cmds_ok g (elabs wc W0 us0)) by (apply c_cmds_ok; assumption).
  pose proof (elabs_in_U wc us0 W0 U Hk HU Hin0) as U0.
  pose proof (elabs_in_U wc (ua ++ u :: ub) w1 U Hk HU Hin1) as U1. fold es1 in U1.
  subst es1. rewrite elabs_app in Hf, Ht, Fr, U1. cbn [elabs] in Hf, Ht, Fr, U1.
  rewrite S0 in *.
  pose proof (bounded_time_budget D U g m (elabs wc W0 us0) (elabs wc w1 ua) _ _ Ha Fr C0 U0 U1 He Hf Ht) as H.
  cbn zeta in H. rewrite S1. exact H.
Qed.
End CT.
