(* C16 — pinned property theorems. This file contains statements, `exact`, and
   Print Assumptions only. The pins in tools/pins/C16.v re-check the statements.

   Vocabulary (coq/C16/Model.v): `run g (st0 m) es` runs the Kademlia event loop of a node with
   configuration `g` (replication factor, parallelism factor, local peer) from the empty state,
   with `m` the transport manager's initial beliefs, through ANY list of events `es`: user
   commands, `EServe q` (one iteration of the engine drain loop that picked query q — all HashMap
   orders), connection / substream / dial events of the TransportService, executor completions
   with arbitrary decoded messages, and environment changes that decide the synchronous results
   of open_substream / dial. It returns the final state and the emitted KademliaEvents.
   `waiting x` = the peers a live query is waiting for (the `pending` map of a lookup, the
   `pending_peers` set of a PUT_VALUE / ADD_PROVIDER send phase); `owes s find q p` = an
   obligation of query q for peer p is outstanding in pending_dials, in pending_actions or as an
   executor future (find = true: request/response of a lookup; false: the PUT_VALUE /
   ADD_PROVIDER send). *)
From Coq Require Import List NArith Bool.
From V.gen Require Consts.
From V.C14 Require Model Proofs.
From V.C15 Require Model Engine.
From V.C17 Require Model Proofs Timed Ingress.
From V.gen Require C16Tables.
From V.Ts Require Model Proofs Answers.
From V.Link Require C16_Time.
From V.C16 Require Import Model Proofs Obl Bound Chan Exec Time Compose Comp CompTime EngineRef HandleModel Handle Quorum Link.
Import ListNotations.
Open Scope N_scope.

(* "nobody waits for nothing": after every history, every peer a live query waits for has an
   outstanding obligation of that query, of the matching kind *)
Theorem C16_no_wait_for_nothing :
  forall g m es q x p,
  1 <= g_alpha g ->
  let s := fst (run g (st0 m) es) in
  aget q (eng s) = Some x -> In p (waiting x) -> owes s (negb (is_track x)) q p.
Proof. exact no_wait_for_nothing. Qed.
Print Assumptions C16_no_wait_for_nothing.

(* every pending action can be discharged by the environment: its substream id is in
   pending_substreams under the right peer (so SubstreamOpenFailure finds it), provided the
   service reports opened substreams for the peer they were requested from *)
Theorem C16_dischargeable :
  forall g m es p acts sid a,
  1 <= g_alpha g -> feasible_run g (st0 m) es ->
  let s := fst (run g (st0 m) es) in
  aget p (peers s) = Some acts -> aget sid acts = Some a -> aget sid (psub s) = Some p.
Proof. exact dischargeable. Qed.
Print Assumptions C16_dischargeable.

(* once the environment has discharged every obligation and the engine is drained, no query is
   left: every operation has ended *)
Theorem C16_idle_all_done :
  forall g m es,
  1 <= g_alpha g ->
  let s := fst (run g (st0 m) es) in
  idle s -> quiescent s = true -> eng s = [].
Proof. exact idle_all_done. Qed.
Print Assumptions C16_idle_all_done.

(* never two terminal events: for every query id, (terminal events so far) + (1 if still live)
   = (times the id was started), and an id is started at most once (ids come from a counter) *)
Theorem C16_one_terminal :
  forall g m es q,
  fresh_ids [] es ->
  let s := fst (run g (st0 m) es) in
  let outs := snd (run g (st0 m) es) in
  (terminals q outs + (if live q s then 1 else 0) = started q es)%nat /\ (started q es <= 1)%nat.
Proof. exact one_terminal. Qed.
Print Assumptions C16_one_terminal.

(* hence: when nothing is owed any more and the engine is drained, every started operation has
   produced exactly one terminal event carrying its query id *)
Theorem C16_terminates :
  forall g m es q,
  1 <= g_alpha g -> fresh_ids [] es ->
  let s := fst (run g (st0 m) es) in
  let outs := snd (run g (st0 m) es) in
  idle s -> quiescent s = true ->
  terminals q outs = started q es /\ (started q es <= 1)%nat.
Proof. exact all_reported. Qed.
Print Assumptions C16_terminates.

(* the drain loop `while let Some(action) = engine.next_action()` terminates: an iteration that finds
   an action for query q0 strictly decreases q0's weight (3 + candidates + queued records for a
   lookup, 2 for put-to-peers, 1 for a send phase, 0 once removed) and leaves every other query
   untouched; so the drained state (`quiescent`) is reached after at most the sum of the weights *)
Theorem C16_drain_progress :
  forall s q0 q,
  snd (serve s q0) = true ->
  (q <> q0 -> aget q (eng (fst (fst (serve s q0)))) = aget q (eng s)) /\
  (qw (aget q0 (eng (fst (fst (serve s q0))))) < qw (aget q0 (eng s)))%nat.
Proof. exact serve_progress. Qed.
Print Assumptions C16_drain_progress.

(* at most one obligation per (kind, query, peer): over pending_dials, pending_actions and the executor
   together, after every history with fresh query ids and well-formed commands (`cmd_ok`: the routing
   table never hands out the local peer as a seed; put_record_to_peers is not given a peer twice) *)
Theorem C16_at_most_one :
  forall g m es k q p,
  fresh_ids [] es -> cmds_ok g es -> (cnt (fst (run g (st0 m) es)) k q p <= 1)%nat.
Proof. exact at_most_one. Qed.
Print Assumptions C16_at_most_one.

(* hence exactly one: a peer a live query waits for has one outstanding obligation of that query *)
Theorem C16_exactly_one :
  forall g m es q x p,
  1 <= g_alpha g -> fresh_ids [] es -> cmds_ok g es ->
  let s := fst (run g (st0 m) es) in
  aget q (eng s) = Some x -> In p (waiting x) -> cnt s (negb (is_track x)) q p = 1%nat.
Proof. exact exactly_one. Qed.
Print Assumptions C16_exactly_one.

(* quorum honesty: a PutRecordSuccess / AddProviderSuccess for q is only emitted when, for at least
   clamp(requested quorum, number of targets) DISTINCT TARGET peers of the send phase, an executor
   future created for that peer's SendPutValue / SendAddProvider action has reported a completed send.
   `put_sends` collects exactly the SendSuccess / AssumeSendSuccess / ReadSuccess completions of
   send-phase futures (FReqEat / FSend); a late FIND_NODE reply of the lookup phase does not count
   (it cannot even reach the counter: by C16_at_most_one no request future of the lookup exists for
   a target once the send phase has started) *)
Theorem C16_quorum_honest :
  forall g m es q,
  fresh_ids [] es -> cmds_ok g es ->
  let outs := snd (run g (st0 m) es) in
  In (OPutSuccess q) outs \/ In (OProvSuccess q) outs ->
  exists targets qr S,
    find_quorum q es = Some qr /\ In (OTrack q targets) outs /\ NoDup S /\
    clamp qr (N.of_nat (length targets)) <= N.of_nat (length S) /\
    (forall p, In p S -> In (q, p) (put_sends g (st0 m) es) /\ In p targets).
Proof. exact quorum_honest_put. Qed.
Print Assumptions C16_quorum_honest.

(* the measure: M = sum over live queries of (5 * C15's lookup measure + queued records + 5k + 2 | 5 * targets + 2 |
   pending + 1) + 4 per queued dial action + 3 per pending substream action + 2 / 1 per executor
   future.  No event other than new work (command, inbound substream) raises it; every productive event
   (a served query with an action, the answer to a queued dial / pending substream / future) lowers it *)
Theorem C16_step_measure :
  forall U g s e,
  BE U g s -> ev_in_U U e -> is_input e = false ->
  BE U g (fst (fst (step g s e))) /\ (M U g (fst (fst (step g s e))) <= M U g s)%nat /\
  (productive s e -> (M U g (fst (fst (step g s e))) < M U g s)%nat).
Proof. exact step_M. Qed.
Print Assumptions C16_step_measure.

(* when nothing productive is enabled, nothing is owed and the engine is drained *)
Theorem C16_stuck_idle :
  forall s, NoDup (map fst (eng s)) -> stuck s -> idle s /\ quiescent s = true.
Proof. exact stuck_idle. Qed.
Print Assumptions C16_stuck_idle.

(* fair termination with an explicit bound: after ANY history es0 (peers drawn from a universe U of
   n peers), every schedule es1 without new work in which the drain loop and the environment keep
   answering what is owed has at most budget(n, k, es0) events — (10 n + 5 k + 2) per command,
   (5 |peers| + 2) per put_record_to_peers, 2 per inbound substream — and when it ends because
   nothing productive is enabled, every started operation has exactly one terminal event.  The
   premises `idle` / `quiescent` of C16_terminates are no longer assumed: they follow. *)
Theorem C16_fair_terminates :
  forall U g m es0 es1 q,
  1 <= g_alpha g -> fresh_ids [] (es0 ++ es1) -> cmds_ok g es0 -> evs_in_U U es0 -> evs_in_U U es1 ->
  let s0 := fst (run g (st0 m) es0) in
  fair_run g s0 es1 ->
  (length (work es1) <= budget (length U) g es0)%nat /\
  (stuck (fst (run g s0 es1)) ->
   terminals q (snd (run g (st0 m) (es0 ++ es1))) = started q (es0 ++ es1) /\
   (started q (es0 ++ es1) <= 1)%nat).
Proof. exact fair_terminates. Qed.
Print Assumptions C16_fair_terminates.

(* await points inside the handlers: with an event channel of `cap` slots towards the KademliaHandle
   (`brun`: the loop takes an event only when it is not parked in a handler; `BRecv` = the user
   receives one event) nothing is lost, duplicated or reordered — what the user has received, then
   the channel, then the backlog of the parked handler is exactly the event sequence of the
   unbounded loop on the events that were really taken — the state is that loop's state, the
   channel never exceeds its capacity, and the loop is parked only while the channel is full *)
Theorem C16_bounded_channel :
  forall g m cap es,
  let b' := fst (brun g cap (b0 m) es) in
  let rcv := snd (brun g cap (b0 m) es) in
  let tk := taken g cap (b0 m) es in
  b_st b' = fst (run g (st0 m) tk) /\
  rcv ++ b_chan b' ++ b_back b' = filter is_event (snd (run g (st0 m) tk)) /\
  (length (b_chan b') <= cap)%nat /\ (b_back b' <> [] -> length (b_chan b') = cap).
Proof. exact bounded_channel. Qed.
Print Assumptions C16_bounded_channel.

(* and the user can always drain it: after |channel| + |backlog| receives everything has arrived *)
Theorem C16_channel_drains :
  forall g cap n b,
  (1 <= cap)%nat -> bwf cap b -> (length (flight b) <= n)%nat ->
  flight (fst (brun g cap b (repeat BRecv n))) = [] /\
  snd (brun g cap b (repeat BRecv n)) = flight b.
Proof. exact drain_all. Qed.
Print Assumptions C16_channel_drains.

(* ---- the composition: glue + routing table (the C14 model) + record store (the C17 model) ----
   `crun wc (w0 ..) us` (Compose.v) runs user-level events: commands carry only what the user gives
   (`UCmd q c target`, `UPutToPeers q quorum record given`, `UStoreRecord`, `UAddKnownPeer`), the
   seeds, the XOR-distance ranks and the local-record flag are computed from the world's table and
   store, and every place where kademlia/mod.rs touches the table or the store is an operation of
   the C14 / C17 model.  `keys_ok`: every peer label has one 256-bit key, distinct peers distinct keys. *)

(* the composed run IS a run of the glue model, on the elaborated events: same state, same output *)
Theorem C16_compose_refines :
  forall wc us w,
  w_st (fst (crun wc w us)) = fst (run (wc_g wc) (w_st w) (elabs wc w us)) /\
  snd (crun wc w us) = snd (run (wc_g wc) (w_st w) (elabs wc w us)).
Proof. exact compose_refines. Qed.
Print Assumptions C16_compose_refines.

(* everything the Kademlia event loop does to the routing table (add_known_peer, connection
   established / closed, dial failure, disconnect_peer, the peers learnt from replies, the entry()
   calls of put_record_to_peers) preserves C14's table invariant *)
Theorem C16_table_invariant :
  forall wc m us, keys_ok wc ->
  V.C14.Proofs.Inv (lkey wc) (wc_K wc) (w_rt (fst (crun wc (w0 wc m (length (lkey wc))) us))).
Proof. exact table_inv. Qed.
Print Assumptions C16_table_invariant.

(* "closest peers seeded from the table": after every composed history a lookup command is started
   with seeds = RoutingTable::closest(target, k) of the current table; the local peer is never a seed;
   and (outside the class of finding F-C14a) the seeds are sorted by distance to the target, without
   duplicates, addressed entries of the table, min(k, #addressed) many, and every addressed entry left
   out is strictly further than every seed *)
Theorem C16_seeds_from_table :
  forall wc m us q c target,
  keys_ok wc ->
  let w := fst (crun wc (w0 wc m (length (lkey wc))) us) in
  let t := w_rt w in
  let k := N.to_nat (g_k (wc_g wc)) in
  let nodes := V.C14.Model.closest (lkey wc) t target k in
  let cands := filter V.C14.Model.n_addr (concat t) in
  let seeds := map (fun n => peer_of (wc_keys wc) (V.C14.Model.n_key n)) nodes in
  (exists cmd, fst (fst (elab wc w (UCmd q c target))) = ECmd q cmd (dists_of wc target) seeds) /\
  ~ In (g_local (wc_g wc)) seeds /\
  (length target = length (lkey wc) -> V.C14.Proofs.outside_class (lkey wc) t target ->
   Sorted.StronglySorted (V.C14.Proofs.dlt target) nodes /\ NoDup (map V.C14.Model.n_key nodes) /\
   (forall n, In n nodes -> In n cands) /\
   length nodes = Nat.min k (length cands) /\
   (forall a b, In a nodes -> In b cands -> ~ In b nodes -> V.C14.Proofs.dlt target a b)).
Proof. exact seeds_from_table. Qed.
Print Assumptions C16_seeds_from_table.

(* put_record_to_peers (after the repair of F-C16e): the send phase targets only peers the caller
   named, never the local peer, and no peer twice when the caller named none twice — whatever the
   record, the publisher, the expiry and the update_local_store flag are *)
Theorem C16_put_to_peers_named :
  forall wc w q qr rk len pub exp upd given,
  keys_ok wc ->
  exists ps, fst (fst (elab wc w (UPutToPeers q qr rk len pub exp upd given))) = EPutToPeers q qr ps /\
             (forall x, In x ps -> In x given /\ x <> g_local (wc_g wc)) /\
             (NoDup given -> NoDup ps).
Proof. exact put_to_peers_named. Qed.
Print Assumptions C16_put_to_peers_named.

(* hence the side conditions of the theorems above hold for every composed history by construction:
   query ids fresh at user level are fresh, and the elaborated commands are well formed *)
Theorem C16_compose_cmds_ok :
  forall wc m us,
  keys_ok wc -> ufresh [] us -> Forall (ucmd_ok (wc_g wc)) us ->
  let es := elabs wc (w0 wc m (length (lkey wc))) us in
  fresh_ids [] es /\ cmds_ok (wc_g wc) es.
Proof. exact c_sides. Qed.
Print Assumptions C16_compose_cmds_ok.

(* ---- the store of the composed world is the C17 model (V.C17.Model maps, V.C17.Timed clock readings,
   quorums and refresh futures, V.C17.Ingress: the loop around the store) ---- *)

(* C17's store invariant (bounds, sortedness, no provider twice) holds after every composed history *)
Theorem C16_store_invariant :
  forall wc m L us,
  1 <= V.C17.Model.max_per_key (wc_scfg wc) ->
  V.C17.Proofs.Inv (wc_scfg wc) (w_store (fst (crun wc (w0 wc m L) us))).
Proof. exact store_inv. Qed.
Print Assumptions C16_store_invariant.

(* GetRecord and the local store: `hit` = the store holds a record under the key that has not expired at
   the current clock reading (C16_store_records_live).  With a hit and Quorum::One the operation answers
   at once — FoundRecord(local record) then GetRecordSuccess — and neither starts a query nor touches the
   network; otherwise a GET_VALUE lookup is started from the table's closest peers, with the local
   record counted as one found record (and reported as a partial result) when there is one.  The store
   after the command is C17's (an expired record is dropped by the read) *)
Theorem C16_get_record_local :
  forall wc w q qr rk target,
  let g := wc_g wc in
  let ans := V.C17.Ingress.kstep (kc_of wc) (w_ks w) (V.C17.Ingress.KCmdGetRecord rk) in
  let hit := is_hit (snd ans) in
  let lookup := start_lookup g (w_st w) q LRec qr
                  (lcfg g V.C15.Model.KRecord (needed_of g qr) (if hit then 1 else 0) [] (dists_of wc target))
                  (seeds_of wc (w_rt w) target) in
  fst (cstep wc w (UCmd q (UCGet qr rk) target)) =
  match qr, hit with
  | QOne, true => (mkW (w_st w) (w_rt w) (fst ans), [OPartial q (g_local g) LOCAL_REC; OGetRecSuccess q])
  | _, _ => (mkW lookup (w_rt w) (fst ans), if hit then [OPartial q (g_local g) LOCAL_REC] else [])
  end.
Proof. exact get_record_step. Qed.
Print Assumptions C16_get_record_local.

(* record expiry: a local GetRecord and a remote GET_VALUE are answered with a record exactly when the
   store holds one under the key whose expiry lies after the current clock reading *)
Theorem C16_store_records_live :
  forall c st key, V.C17.Ingress.ks_dead st = false ->
  (is_hit (snd (V.C17.Ingress.kstep c st (V.C17.Ingress.KCmdGetRecord key))) = true <->
   live_rec (V.C17.IngressProofs.kstore st) (V.C17.Ingress.ks_now st) key) /\
  (forall from, is_hit (snd (V.C17.Ingress.kstep c st (V.C17.Ingress.KGetValue from key))) = true <->
   live_rec (V.C17.IngressProofs.kstore st) (V.C17.Ingress.ks_now st) key).
Proof. exact get_hit. Qed.
Print Assumptions C16_store_records_live.

(* a record in the store (put there by store_record, put_record, put_record_to_peers with
   update_local_store, or — with automatic validation — a PUT_VALUE of a remote peer) is found by every
   later GetRecord(Quorum::One), whatever happened in between (time passing included), until it expires or
   a later event writes a record under the same key *)
Theorem C16_put_then_get :
  forall wc w us q rk r target,
  V.C17.Model.find_rec rk (V.C17.Model.recs (w_store w)) = Some r -> no_write rk us ->
  let w' := fst (crun wc w us) in
  V.C17.Model.rec_expired r (w_clock w') = false -> V.C17.Ingress.ks_dead (w_ks w') = false ->
  snd (fst (cstep wc w' (UCmd q (UCGet QOne rk) target))) =
    [OPartial q (g_local (wc_g wc)) LOCAL_REC; OGetRecSuccess q] /\
  w_st (fst (fst (cstep wc w' (UCmd q (UCGet QOne rk) target)))) = w_st w'.
Proof. exact put_then_get. Qed.
Print Assumptions C16_put_then_get.

(* the theorems above, for composed histories from the empty world *)
Theorem C16_compose_no_wait :
  forall wc m us q x p,
  1 <= g_alpha (wc_g wc) ->
  let s := w_st (fst (crun wc (w0 wc m (length (lkey wc))) us)) in
  aget q (eng s) = Some x -> In p (waiting x) -> owes s (negb (is_track x)) q p.
Proof. exact c_no_wait. Qed.
Print Assumptions C16_compose_no_wait.

(* `cstarted wc w q us` = how often the composed run starts an operation with id q: user commands,
   put_record_to_peers, and the provider refreshes that are due when a timer of the store fires *)
Theorem C16_compose_one_terminal :
  forall wc m us q,
  ufresh [] us ->
  let W0 := w0 wc m (length (lkey wc)) in
  (terminals q (snd (crun wc W0 us)) + (if live q (w_st (fst (crun wc W0 us))) then 1 else 0) =
   cstarted wc W0 q us)%nat /\
  (cstarted wc W0 q us <= ustarted q us)%nat /\ (cstarted wc W0 q us <= 1)%nat.
Proof. exact c_one_terminal. Qed.
Print Assumptions C16_compose_one_terminal.

Theorem C16_compose_terminates :
  forall wc m us q,
  1 <= g_alpha (wc_g wc) -> ufresh [] us ->
  let W0 := w0 wc m (length (lkey wc)) in
  let w := fst (crun wc W0 us) in
  idle (w_st w) -> quiescent (w_st w) = true ->
  terminals q (snd (crun wc W0 us)) = cstarted wc W0 q us /\ (cstarted wc W0 q us <= 1)%nat.
Proof. exact c_terminates. Qed.
Print Assumptions C16_compose_terminates.

(* fair termination with the explicit bound, for composed histories: the peer universe is the key table
   (plus the label of unknown keys); after ANY composed history us0, every continuation us1 without new
   work whose elaborated events are productive (or time passing) has at most budget(|U|, k, us0) events
   and, when nothing productive is enabled any more, every started operation — the due refreshes
   included — has exactly one terminal event *)
Theorem C16_compose_fair_terminates :
  forall wc m U us0 us1 q,
  keys_ok wc -> 1 <= g_alpha (wc_g wc) ->
  (forall p, In p (UNKNOWN :: map fst (wc_keys wc)) -> In p U) ->
  ufresh [] (us0 ++ us1) -> Forall (ucmd_ok (wc_g wc)) us0 -> Forall (uev_in_U U) (us0 ++ us1) ->
  let W0 := w0 wc m (length (lkey wc)) in
  let w1 := fst (crun wc W0 us0) in
  let es1 := elabs wc w1 us1 in
  fair_run (wc_g wc) (w_st w1) es1 ->
  (length (work es1) <= budget (length U) (wc_g wc) (elabs wc W0 us0))%nat /\
  (stuck (w_st (fst (crun wc w1 us1))) ->
   terminals q (snd (crun wc W0 (us0 ++ us1))) = cstarted wc W0 q (us0 ++ us1) /\
   (cstarted wc W0 q (us0 ++ us1) <= 1)%nat).
Proof. exact c_fair_terminates. Qed.
Print Assumptions C16_compose_fair_terminates.

Theorem C16_compose_at_most_one :
  forall wc m us k q p,
  keys_ok wc -> ufresh [] us -> Forall (ucmd_ok (wc_g wc)) us ->
  (cnt (w_st (fst (crun wc (w0 wc m (length (lkey wc))) us))) k q p <= 1)%nat.
Proof. exact c_at_most_one. Qed.
Print Assumptions C16_compose_at_most_one.

Theorem C16_compose_quorum_honest :
  forall wc m us q,
  keys_ok wc -> ufresh [] us -> Forall (ucmd_ok (wc_g wc)) us ->
  let outs := snd (crun wc (w0 wc m (length (lkey wc))) us) in
  let es := elabs wc (w0 wc m (length (lkey wc))) us in
  In (OPutSuccess q) outs \/ In (OProvSuccess q) outs ->
  exists targets qr S,
    find_quorum q es = Some qr /\ In (OTrack q targets) outs /\ NoDup S /\
    clamp qr (N.of_nat (length targets)) <= N.of_nat (length S) /\
    (forall p, In p S -> In (q, p) (put_sends (wc_g wc) (st0 m) es) /\ In p targets).
Proof. exact c_quorum_honest. Qed.
Print Assumptions C16_compose_quorum_honest.

(* a connection closes while requests to the peer are outstanding: every pending-substream action for
   the peer is gone (its query was told of the failure), pending_dials and the executor are untouched,
   and a query that still waits for the peer is owed by an executor future (the request was already on a
   substream: its read ends with an error or with the 15 s timeout) or by a queued dial — never by nothing *)
Theorem C16_closed_while_outstanding :
  forall g m es p,
  1 <= g_alpha g ->
  let s := fst (run g (st0 m) es) in
  aget p (conn s) <> None ->
  let s' := fst (fst (step g s (EClosed p))) in
  aget p (peers s') = None /\ futs s' = futs s /\ pdial s' = pdial s /\
  forall q x, aget q (eng s') = Some x -> In p (waiting x) ->
    owes_dial s' (negb (is_track x)) q p \/ owes_fut s' (negb (is_track x)) q p.
Proof. exact closed_discharges. Qed.
Print Assumptions C16_closed_while_outstanding.

(* ---- "within bounded time" ---- *)

(* Obligations carry their time of birth: a queued dial (per peer), a pending substream (per id), an
   executor future (per id).  `timed D`: the clock passes only while the loop waits with the engine
   drained, and never more than D beyond the birth of an obligation that is still outstanding (dials and
   substream requests are answered within D by the transport layer; futures complete within
   WRITE_TIMEOUT + READ_TIMEOUT by C16_executor_bounded).  Then in a fair schedule without new work the
   event after k productive ones happens at most D * (k + 1) after the start ... *)
Theorem C16_bounded_time :
  forall D g m es0 a e b,
  1 <= g_alpha g -> is_tick e = false ->
  let s0 := fst (run g (st0 m) es0) in
  fair_run g s0 (a ++ e :: b) ->
  timed D g s0 (restamp (now s0) [] (okeys s0)) (a ++ e :: b) ->
  now (fst (run g s0 a)) <= now s0 + D * N.of_nat (S (length (work a))).
Proof. exact bounded_time. Qed.
Print Assumptions C16_bounded_time.

(* ... hence every event of such a schedule, in particular every terminal event, happens within
   D * budget(n, k, es0) of its start: the explicit time bound of the property *)
Theorem C16_bounded_time_budget :
  forall D U g m es0 a e b,
  1 <= g_alpha g -> fresh_ids [] (es0 ++ a ++ e :: b) -> cmds_ok g es0 ->
  evs_in_U U es0 -> evs_in_U U (a ++ e :: b) -> is_tick e = false ->
  let s0 := fst (run g (st0 m) es0) in
  fair_run g s0 (a ++ e :: b) ->
  timed D g s0 (restamp (now s0) [] (okeys s0)) (a ++ e :: b) ->
  now (fst (run g s0 a)) <= now s0 + D * N.of_nat (budget (length U) g es0).
Proof. exact bounded_time_budget. Qed.
Print Assumptions C16_bounded_time_budget.

(* ---- requests of remote peers, served by the same loop ---- *)

(* inbound traffic (a remote peer opens a substream; a future without query id reads a request or
   finishes its reply) neither starts, ends nor touches an operation of the user: the engine,
   pending_dials, pending_substreams and every pending action are unchanged, only IncomingRecord /
   IncomingProvider are emitted, every future that works for a query stays in flight.  (A FAILED inbound
   future calls disconnect_peer like any failed future: that case is covered by the theorems above.) *)
Theorem C16_inbound_isolated :
  forall g s e,
  inbound_ev s e ->
  let s' := fst (fst (step g s e)) in
  let o := snd (fst (step g s e)) in
  eng s' = eng s /\ pdial s' = pdial s /\ psub s' = psub s /\
  (forall p acts, aget p (peers s) = Some acts -> aget p (peers s') = Some acts) /\
  (forall x, In x o -> x = OIncomingRecord \/ x = OIncomingProvider) /\
  (forall f, In f (futs s) -> f_q f <> None -> In f (futs s')).
Proof. exact inbound_isolated. Qed.
Print Assumptions C16_inbound_isolated.

(* what the node answers: the closer peers of a FIND_NODE / GET_VALUE / GET_PROVIDERS reply are
   RoutingTable::closest of the current table — the function that seeds the node's own lookups: never the
   local peer, at most k; GET_VALUE carries the record exactly when the store holds an unexpired one; the
   providers of GET_PROVIDERS are exactly the unexpired provider records the store (C17 model) holds for
   the key, in stored order *)
Theorem C16_inbound_reply :
  forall wc w id rq b ps pv,
  keys_ok wc -> V.C14.Proofs.Inv (lkey wc) (wc_K wc) (w_rt w) -> V.C17.Ingress.ks_dead (w_ks w) = false ->
  reply_of wc w (UInReq id rq) = Some (b, ps, pv) ->
  exists target,
    (rq = IFindNode target \/ (exists rk, rq = IGetValue rk target) \/ (exists rk, rq = IGetProviders rk target)) /\
    ps = seeds_of wc (w_rt w) target /\ ~ In (g_local (wc_g wc)) ps /\
    (length ps <= N.to_nat (g_k (wc_g wc)))%nat /\
    (b = true <-> exists rk, rq = IGetValue rk target /\ live_rec (w_store w) (w_clock w) rk) /\
    (forall rk, rq = IGetProviders rk target ->
       pv = map (fun p => (peer_of_pid wc (V.C17.Model.p_id p), V.C17.Ingress.serve_addrs (kc_of wc) p))
                (known_provs (w_ks w) rk) /\
       Forall (fun p => V.C17.Model.prov_expired p (w_clock w) = false) (known_provs (w_ks w) rk)) /\
    ((forall rk, rq <> IGetProviders rk target) -> pv = []).
Proof. exact inbound_reply. Qed.
Print Assumptions C16_inbound_reply.

(* a record in the store is served to every remote GET_VALUE that comes before it expires or is written
   again *)
Theorem C16_serve_after_put :
  forall wc w us rk r id target,
  V.C17.Model.find_rec rk (V.C17.Model.recs (w_store w)) = Some r -> no_write rk us ->
  let w' := fst (crun wc w us) in
  V.C17.Model.rec_expired r (w_clock w') = false -> V.C17.Ingress.ks_dead (w_ks w') = false ->
  inbound_read (w_st w') id = true ->
  reply_of wc w' (UInReq id (IGetValue rk target)) = Some (true, seeds_of wc (w_rt w') target, []).
Proof. exact serve_after_put. Qed.
Print Assumptions C16_serve_after_put.

(* IncomingRecordValidationMode: in the Manual mode no event of the loop and no request of a remote peer
   adds or alters a record — an inbound PUT_VALUE only raises IncomingRecord and the user decides with
   store_record; in the Automatic mode the record is handed to the store as soon as the request has been
   read, with the expiry computed from the ttl of the wire *)
Theorem C16_manual_validation :
  forall wc w u k r,
  wc_vauto wc = false ->
  (exists e, u = UEv e) \/ (exists id rq, u = UInReq id rq) ->
  V.C17.Model.find_rec k (V.C17.Model.recs (w_store (fst (fst (cstep wc w u))))) = Some r ->
  V.C17.Model.find_rec k (V.C17.Model.recs (w_store w)) = Some r.
Proof. exact manual_validation. Qed.
Print Assumptions C16_manual_validation.

Theorem C16_auto_validation :
  forall wc w id rk len pub ttl,
  wc_vauto wc = true -> inbound_read (w_st w) id = true -> V.C17.Ingress.ks_dead (w_ks w) = false ->
  pub <> V.C17.Ingress.PUB_INVALID ->
  w_store (fst (fst (cstep wc w (UInReq id (IPutValue rk len pub ttl))))) =
  V.C17.Model.put (wc_scfg wc) (w_store w)
    (V.C17.Ingress.rec_of rk LOCAL_REC len pub (if ttl =? 0 then None else Some (w_clock w + ttl))).
Proof. exact auto_validation. Qed.
Print Assumptions C16_auto_validation.

(* RoutingTableUpdateMode::Manual: the peers of replies are reported (RoutingTableUpdate) but not
   inserted — after every composed history every peer in the routing table was put there by an
   add_known_peer call of the user *)
Theorem C16_manual_routing_table :
  forall wc m L us n,
  wc_auto wc = false ->
  In n (concat (w_rt (fst (crun wc (w0 wc m L) us)))) -> V.C14.Model.n_key n <> [] ->
  exists p, In (UAddKnownPeer p true) us /\ V.C14.Model.n_key n = pkey wc p.
Proof. exact manual_table. Qed.
Print Assumptions C16_manual_routing_table.

(* ---- the store's refresh timers ---- *)

(* The refresh futures carry deadlines (V.C17.Timed): `take_due now rk` finds a future of key rk whose
   deadline has passed.  A completed future starts an ADD_PROVIDER operation exactly when the key is still
   in local_providers, with the quorum stored there and seeds from the current table ... *)
Theorem C16_refresh_due :
  forall wc w q rk wait target rest,
  V.C17.Ingress.ks_dead (w_ks w) = false ->
  take_due (w_clock w + wait) rk (w_timers w) = Some rest ->
  fst (fst (elab wc w (UFire q rk wait target))) =
  match V.C17.Timed.find_q rk (w_quorum w) with
  | Some qc => ECmd q (CRefresh (qdecode qc)) (dists_of wc target) (seeds_of wc (w_rt w) target)
  | None => ENop
  end.
Proof. exact refresh_due. Qed.
Print Assumptions C16_refresh_due.

(* ... no future of the key has completed: nothing is taken (the event is not a step of the loop) ... *)
Theorem C16_refresh_not_before_deadline :
  forall wc w q rk wait target,
  take_due (w_clock w + wait) rk (w_timers w) = None -> uvalid wc w (UFire q rk wait target) = false.
Proof. exact refresh_not_due. Qed.
Print Assumptions C16_refresh_not_before_deadline.

(* ... and when the store accepts the refreshed provider record the next refresh future of the key is
   pending afterwards *)
Theorem C16_refresh_rearms :
  forall wc w q rk wait target rest qc,
  1 <= wc_interval wc -> V.C17.Ingress.ks_dead (w_ks w) = false ->
  take_due (w_clock w + wait) rk (w_timers w) = Some rest ->
  V.C17.Timed.find_q rk (w_quorum w) = Some qc ->
  snd (V.C17.Model.put_local_provider (wc_scfg wc) (w_store w) rk (lrank wc target) (w_clock w + wait)) = true ->
  exists t, In t (w_timers (fst (fst (cstep wc w (UFire q rk wait target))))) /\ V.C17.Timed.tm_key t = rk.
Proof. exact refresh_rearms. Qed.
Print Assumptions C16_refresh_rearms.

(* as long as a key is in local_providers a refresh future is pending for it: the refresh will come.  For
   every consistent schedule (`valid_run`: only completed futures are taken, explicit time passing stops
   before the next deadline, the store accepted the provider record of every refresh) *)
Theorem C16_provided_has_timer :
  forall wc m L us rk qc,
  1 <= wc_interval wc -> valid_run wc (w0 wc m L) us ->
  let w := fst (crun wc (w0 wc m L) us) in
  V.C17.Timed.find_q rk (w_quorum w) = Some qc -> exists t, In t (w_timers w) /\ V.C17.Timed.tm_key t = rk.
Proof. exact provided_has_timer. Qed.
Print Assumptions C16_provided_has_timer.

(* ---- the executor's futures and their timers (Exec.v) ---- *)

(* whatever the substream does, the QueryResult of a future is one the model of the loop accepts for its
   kind, and every accepted result is the outcome of some behaviour: the abstract completion events of
   the theorems above are exactly the executor's outcomes *)
Theorem C16_executor_sound :
  forall T k w r, res_ok k (fst (exec T k w r)) = true.
Proof. exact exec_sound. Qed.
Print Assumptions C16_executor_sound.

Theorem C16_executor_complete :
  forall T k res,
  0 < t_w T -> 0 < t_r T -> res_ok k res = true -> exists w r, fst (exec T k w r) = res.
Proof. exact exec_complete. Qed.
Print Assumptions C16_executor_complete.

(* no future outlives WRITE_TIMEOUT + READ_TIMEOUT: the environment's obligation "every executor future
   completes" is discharged by the executor itself, within 30 s on the shipped constants *)
Theorem C16_executor_bounded :
  forall T k w r, snd (exec T k w r) <= t_w T + t_r T.
Proof. exact exec_bounded. Qed.
Print Assumptions C16_executor_bounded.

(* a peer that takes the request and never answers: the read timeout ends the wait with ReadFailure
   (AssumeSendSuccess for the PUT_VALUE future), READ_TIMEOUT after the write *)
Theorem C16_executor_silent_peer :
  forall T k t,
  t < t_w T ->
  exec T k (WAccept t) RNever =
  match k with
  | FReqResp => (RReadFail, t + t_r T)
  | FReqEat => (RAssume, t + t_r T)
  | FInRead => (RReadFail, t_r T)
  | _ => (RSendOk, t)
  end.
Proof. exact exec_silent. Qed.
Print Assumptions C16_executor_silent_peer.

(* for the send-phase futures a completion counts as sent exactly when the write phase was completed:
   the quorum is counted over frames that really left the node *)
Theorem C16_executor_sent :
  forall T k w r,
  k = FReqEat \/ k = FSend -> sent_res (fst (exec T k w r)) = written T w.
Proof. exact exec_sent. Qed.
Print Assumptions C16_executor_sent.

(* ---- ONE engine model: the multi-query engine layer of Model.v IS C15's QueryEngine model ---- *)

(* `erel` (EngineRef.v): same query ids in the same order; QLookup ~ C15's QL with the same QueryType,
   quorum, configuration and lookup state (up to the counter `pr`, which FindNodeContext::next_action
   recomputes before reading it; C15's entry also records its seeds and single-query events as ghosts),
   QToPeers ~ QM, QTrack ~ QT with the same pending set, success count and threshold.
   After EVERY history of the loop the engine of the glue model is related to an engine that C15's model
   reaches by a history of its own calls (`xrunG`: xstep of V.C15.Engine, each start with the distance
   ranks of its own target) *)
Theorem C16_engine_is_C15 :
  forall g m es, exists h, erel (eng (fst (run g (st0 m) es))) (xrunG [] h).
Proof. exact engine_is_c15. Qed.
Print Assumptions C16_engine_is_C15.

(* every engine call of the glue model is the C15 call: register_response_failure, register_send_failure,
   register_send_success, register_peer_failure, register_response with any message the loop passes on,
   next_peer_action *)
Theorem C16_engine_calls_refine :
  forall gc s xe q p, erel (eng s) xe ->
  erel (eng (eng_resp_fail s q p)) (fst (V.C15.Engine.xstep gc xe (V.C15.Engine.XFail q p))) /\
  erel (eng (eng_send_fail s q p)) (fst (V.C15.Engine.xstep gc xe (V.C15.Engine.XSendFail q p))) /\
  erel (eng (eng_send_ok s q p)) (fst (V.C15.Engine.xstep gc xe (V.C15.Engine.XSendOk q p))) /\
  erel (eng (eng_fail s q p)) (fst (V.C15.Engine.xstep gc xe (V.C15.Engine.XPeerFail q p))) /\
  (forall m, match m with MAddProvider _ | MInvalid => False | _ => True end ->
             erel (eng (eng_response s q p m))
                  (fst (V.C15.Engine.xstep gc xe (V.C15.Engine.XResp q p (mk_of m) (reply_of_msg m))))) /\
  (lookups_live s ->
   peer_wanted s q p = match snd (V.C15.Engine.xstep gc xe (V.C15.Engine.XPeerAct q p)) with
                       | V.C15.Engine.XNone => false | _ => true end).
Proof. exact engine_calls_refine. Qed.
Print Assumptions C16_engine_calls_refine.

(* every start is C15's start: the user commands (xstart_of: QueryType, quorum, known_records, known
   providers), put_record_to_peers, and the tracking contexts of the two send phases — with
   peers_to_succeed = C15's need_track (the clamp of Quorum::N / All) *)
Theorem C16_engine_starts_refine :
  forall g gc s xe q, erel (eng s) xe ->
  (forall c dists seeds,
     match xstart_of c with
     | Some (t, qtag, qn, known, kp) =>
         erel (eng (fst (on_cmd g s q c dists seeds)))
              (fst (V.C15.Engine.xstep (gc_of g dists) xe (V.C15.Engine.XStart q t qtag qn known seeds kp)))
     | None => eng (fst (on_cmd g s q c dists seeds)) = eng s
     end) /\
  (forall qr ps, erel (aset q (QToPeers qr ps) (eng s))
                      (fst (V.C15.Engine.xstep gc xe (V.C15.Engine.XStart q V.C15.Engine.TPutRecordToPeers
                                                        (qtag_of qr) (qn_of qr) 0 ps [])))) /\
  (forall pv l qr, erel (aset q (QTrack pv (ndedup l) 0 (clamp qr (N.of_nat (length l)))) (eng s))
                        (fst (V.C15.Engine.xstep gc xe (V.C15.Engine.XStart q (tt_of pv) (qtag_of qr) (qn_of qr) 0 l [])))).
Proof. exact engine_starts_refine. Qed.
Print Assumptions C16_engine_starts_refine.

(* one iteration of the drain loop = C15's next_action for the query the HashMap order picked, followed by
   on_query_action (`on_action`) on the action C15's engine returned: the terminal KademliaEvents of the
   glue model are exactly the terminal QueryActions of C15's engine *)
Theorem C16_engine_serve_refines :
  forall gc s xe q, erel (eng s) xe -> NoDup (map fst (eng s)) ->
  exists e', erel e' (fst (V.C15.Engine.xstep gc xe (V.C15.Engine.XNext (now s) (q + 1)))) /\
             serve s q = on_action (w_eng s e') (snd (V.C15.Engine.xstep gc xe (V.C15.Engine.XNext (now s) (q + 1)))).
Proof. exact engine_serve_refines. Qed.
Print Assumptions C16_engine_serve_refines.

(* ---- the user's side: KademliaHandle (HandleModel.v, Handle.v) ---- *)

(* `hrun (h0 cap) ops`: the user calls methods of the handle (`OCall tr body`; every method draws its query
   id from the shared counter BEFORE it sends), the loop takes commands from the bounded channel (`OTake`),
   a waiting async method gets its slot (`OWake`), the store branch starts provider refreshes with ids from
   the same counter (`OFire`), and anything else happens (`OEnv`).  Whatever the interleaving, the user
   events the loop performs carry fresh ids: the assumption `ufresh` of the composed theorems is discharged *)
Theorem C16_handle_ids_fresh :
  forall cap ops, ufresh [] (snd (fst (hrun (h0 cap) ops))).
Proof. exact handle_ids_fresh. Qed.
Print Assumptions C16_handle_ids_fresh.

(* hence, through the handle, never two terminal events for one id and exactly one when the operation is not
   live any more — no freshness assumption left *)
Theorem C16_handle_one_terminal :
  forall wc m cap ops q,
  let us := snd (fst (hrun (h0 cap) ops)) in
  let W0 := w0 wc m (length (lkey wc)) in
  (terminals q (snd (crun wc W0 us)) + (if live q (w_st (fst (crun wc W0 us))) then 1 else 0) =
   cstarted wc W0 q us)%nat /\
  (cstarted wc W0 q us <= ustarted q us)%nat /\ (cstarted wc W0 q us <= 1)%nat.
Proof. intros. apply c_one_terminal. apply handle_ids_fresh. Qed.
Print Assumptions C16_handle_one_terminal.

(* a try_ method that finds the command channel full (or the loop gone) returns Err(()), leaves the channel
   and a waiting sender untouched — no operation is started, so no terminal event is owed — but the id it
   has drawn is spent: in every history the loop starts nothing under that id, and no terminal event ever
   carries it *)
Theorem C16_handle_try_full :
  forall cap ops0 b ops1,
  let h := fst (fst (hrun (h0 cap) ops0)) in
  h_closed h || full h = true -> draws b = true ->
  snd (hcall h true b) = RErr /\
  h_chan (fst (hcall h true b)) = h_chan h /\ h_park (fst (hcall h true b)) = h_park h /\
  let us := snd (fst (hrun (h0 cap) (ops0 ++ OCall true b :: ops1))) in
  ustarted (h_next h) us = 0%nat /\
  forall wc m, terminals (h_next h) (snd (crun wc (w0 wc m (length (lkey wc))) us)) = 0%nat.
Proof.
  intros cap ops0 b ops1 h Hf Hd.
  destruct (try_full_nothing h b Hf) as (R1 & R2 & R3 & _).
  destruct (failed_try_starts_nothing cap ops0 b ops1 Hf Hd) as [_ Hs]. fold h in Hs.
  split; [exact R1 |]. split; [exact R2 |]. split; [exact R3 |]. split; [exact Hs |].
  intros wc m.
  destruct (c_one_terminal wc m _ (h_next h) (handle_ids_fresh cap (ops0 ++ OCall true b :: ops1)))
    as (A & B & _).
  rewrite Hs in B. cbn zeta in A. Lia.lia.
Qed.
Print Assumptions C16_handle_try_full.

(* a try_ method that finds a slot queues exactly its command, with the id it returns; the channel is a
   queue: an accepted command goes to the end and the loop takes from the front *)
Theorem C16_handle_fifo :
  (forall h b, h_closed h || full h = false ->
     snd (hcall h true b) = ROk (if draws b then Some (h_next h) else None) /\
     h_chan (fst (hcall h true b)) = h_chan h ++ [with_id b (h_next h)]) /\
  (forall h tr b h' r, hcall h tr b = (h', r) ->
     h_chan h' = h_chan h \/ h_chan h' = h_chan h ++ [with_id b (h_next h)]) /\
  (forall h c t, h_chan h = c :: t ->
     snd (hrecv h) = Some c /\ h_chan (fst (hrecv h)) = t /\ h_park (fst (hrecv h)) = h_park h).
Proof. split; [exact try_ok_queued |]. split; [exact accepted_last | exact hrecv_fifo]. Qed.
Print Assumptions C16_handle_fifo.

(* every command is the user event `h2u` of the composed model, and elaborates to the Model.v event whose
   QueryEngine::start_* call is the one the arm of Kademlia::run for that command makes (coq/gen/C16Tables.v,
   extracted from the source on every check) *)
Theorem C16_command_starts_in_sync :
  forall wc w,
  Forall (fun c => option_map fst (loop_row (cmd_name c)) = Some (start_name (fst (fst (elab wc w (h2u c))))))
         cmd_samples.
Proof. exact command_starts_in_sync. Qed.
Print Assumptions C16_command_starts_in_sync.

(* the KademliaEvent variants of the source, in order, against the model's outputs: the terminal events all
   carry a query id; RoutingTableUpdate, IncomingRecord and IncomingProvider carry none and are never
   terminal; GetRecordPartialResult carries one and is not terminal *)
Theorem C16_events_classified :
  map (fun r => (fst r, has_field F_QUERY_ID r)) V.gen.C16Tables.events =
    map (fun x => (fst (fst x), snd (fst x))) tbl_events /\
  map (fun x => fst (fst x)) (filter (fun x => snd (fst x) && negb (snd x)) tbl_events) = EV_PARTIAL /\
  map (fun x => fst (fst x)) (filter (fun x => negb (snd (fst x))) tbl_events) =
    EV_NOID /\
  forall x, In x tbl_events -> snd x = true -> snd (fst x) = true.
Proof. exact events_classified. Qed.
Print Assumptions C16_events_classified.

(* the tables extracted from handle.rs / mod.rs / executor.rs / target_peers.rs are the model's: enum Quorum
   (N carries a NonZeroUsize), the command variants, the fifteen methods (which command, which draw an id,
   send or try_send), the event each QueryAction is turned into, peers_to_succeed, the executor, service,
   refresh and command arms of the loop, the three results of service.dial that open_substream_or_dial tells apart *)
Theorem C16_tables_in_sync :
  V.gen.C16Tables.quorum = tbl_quorum /\
  map fst V.gen.C16Tables.commands = tbl_commands /\
  V.gen.C16Tables.methods = tbl_methods /\
  map (fun r => (fst (fst r), snd (fst r))) V.gen.C16Tables.actions = tbl_action_events /\
  V.gen.C16Tables.need = tbl_need /\
  V.gen.C16Tables.results = tbl_results /\
  V.gen.C16Tables.transports = tbl_transports /\
  V.gen.C16Tables.refresh = tbl_refresh /\
  V.gen.C16Tables.dial_arms = tbl_dial_arms /\
  map (fun r : String.string * list String.string * list String.string * list String.string => (fst (fst (fst r)), snd (fst r)))
      V.gen.C16Tables.loop_cmds = tbl_cmd_store /\
  map (fun r : String.string * list String.string * list String.string * list String.string => (fst (fst (fst r)), snd r))
      (filter (fun r : String.string * list String.string * list String.string * list String.string =>
                 match snd r with [] => false | _ => true end) V.gen.C16Tables.loop_cmds) =
    GETRECORD_ROW.
Proof. exact tables_in_sync. Qed.
Print Assumptions C16_tables_in_sync.

(* ---- the quorum clause, variant by variant (Quorum.v) ---- *)

(* for every put / announce variant — put_record, put_record_to_peers with either value of
   update_local_store, start_providing, and the refresh re-announcement started by the store — the command
   the loop performs carries the quorum the user asked for (a refresh: the quorum stored with the key), so
   `find_quorum` in C16_quorum_honest / C16_compose_quorum_honest is THE requested quorum *)
Theorem C16_quorum_variants :
  forall wc w q,
  (forall qr rk len e t,
     quorum_of_ev q (fst (fst (elab wc w (UCmd q (UCPut qr rk len e) t)))) = Some qr) /\
  (forall qr rk t,
     quorum_of_ev q (fst (fst (elab wc w (UCmd q (UCProv qr rk) t)))) = Some qr) /\
  (forall qr rk len pb e upd given,
     quorum_of_ev q (fst (fst (elab wc w (UPutToPeers q qr rk len pb e upd given)))) = Some qr) /\
  (forall rk wait t ks' qc,
     fire1 wc (age (w_ks w) wait) rk (lrank wc t) = Some (ks', Some qc) ->
     quorum_of_ev q (fst (fst (elab wc w (UFire q rk wait t)))) = Some (qdecode qc)).
Proof. exact elab_quorum. Qed.
Print Assumptions C16_quorum_variants.

(* enum Quorum (coq/gen/C16Tables.v: All, One, N(NonZeroUsize)): what "the requested quorum" is for a target
   list of `len` peers.  One: 1.  All: every target (1 when there is none — never reached, the operation
   fails).  N(n): n when there are at least n targets; with fewer targets every one of them (the clamp of
   PutToTargetPeersContext::new, deliberate and commented in the source).  N(0) cannot be written
   (NonZeroUsize) and a stored quorum never decodes to it: at least one peer is always required *)
Theorem C16_quorum_clamp :
  (forall h len,
     1 <= clamp (q_of h) len /\
     match h with
     | HOne => clamp (q_of h) len = 1
     | HAll => clamp (q_of h) len = N.max len 1
     | HN n => (Npos n <= len -> clamp (q_of h) len = Npos n) /\
               (1 <= len -> len <= Npos n -> clamp (q_of h) len = len) /\
               (len = 0 -> clamp (q_of h) len = 1)
     end) /\
  (forall h, q_of h <> QN 0) /\ (forall c, qdecode c <> QN 0).
Proof. split; [exact clamp_api |]. split; [exact q_of_nonzero | exact qdecode_nonzero]. Qed.
Print Assumptions C16_quorum_clamp.

(* with a quorum the API can express, a success needs at least ONE target peer that was sent the data: in
   particular no success with an empty target list *)
Theorem C16_success_needs_a_send :
  forall g m es q,
  fresh_ids [] es -> cmds_ok g es ->
  (forall qr, find_quorum q es = Some qr -> qr <> QN 0) ->
  let outs := snd (run g (st0 m) es) in
  In (OPutSuccess q) outs \/ In (OProvSuccess q) outs ->
  exists targets p, In (OTrack q targets) outs /\ In p targets /\ In (q, p) (put_sends g (st0 m) es).
Proof. exact success_needs_a_send. Qed.
Print Assumptions C16_success_needs_a_send.

(* the clause for every history that goes through the KademliaHandle — PutRecord, PutRecordToPeers (both
   values of update_local_store), StartProviding, the refresh re-announcements; Quorum::One / N / All —
   with no assumption on ids or quorums left (`ops_ok`: put_record_to_peers is not given a peer twice) *)
Theorem C16_handle_quorum_honest :
  forall wc m cap ops q,
  keys_ok wc -> ops_ok (wc_g wc) ops ->
  let us := snd (fst (hrun (h0 cap) ops)) in
  let W0 := w0 wc m (length (lkey wc)) in
  let outs := snd (crun wc W0 us) in
  let es := elabs wc W0 us in
  In (OPutSuccess q) outs \/ In (OProvSuccess q) outs ->
  exists targets qr S,
    find_quorum q es = Some qr /\ qr <> QN 0 /\ In (OTrack q targets) outs /\ NoDup S /\
    clamp qr (N.of_nat (length targets)) <= N.of_nat (length S) /\ (1 <= length S)%nat /\
    (forall p, In p S -> In (q, p) (put_sends (wc_g wc) (st0 m) es) /\ In p targets).
Proof. exact handle_quorum_honest. Qed.
Print Assumptions C16_handle_quorum_honest.

(* ---- "within bounded time", for composed histories (CompTime.v) ---- *)
Theorem C16_compose_bounded_time :
  forall wc m D us0 ua u ub,
  1 <= g_alpha (wc_g wc) ->
  let W0 := w0 wc m (length (lkey wc)) in
  let w1 := fst (crun wc W0 us0) in
  let es1 := elabs wc w1 (ua ++ u :: ub) in
  is_tick (fst (fst (elab wc (fst (crun wc w1 ua)) u))) = false ->
  fair_run (wc_g wc) (w_st w1) es1 ->
  timed D (wc_g wc) (w_st w1) (restamp (now (w_st w1)) [] (okeys (w_st w1))) es1 ->
  now (w_st (fst (crun wc w1 ua))) <= now (w_st w1) + D * N.of_nat (S (length (work (elabs wc w1 ua)))).
Proof. exact c_bounded_time. Qed.
Print Assumptions C16_compose_bounded_time.

Theorem C16_compose_bounded_time_budget :
  forall wc m D U us0 ua u ub,
  keys_ok wc -> 1 <= g_alpha (wc_g wc) ->
  (forall p, In p (UNKNOWN :: map fst (wc_keys wc)) -> In p U) ->
  ufresh [] (us0 ++ ua ++ u :: ub) -> Forall (ucmd_ok (wc_g wc)) us0 -> Forall (uev_in_U U) (us0 ++ ua ++ u :: ub) ->
  let W0 := w0 wc m (length (lkey wc)) in
  let w1 := fst (crun wc W0 us0) in
  let es1 := elabs wc w1 (ua ++ u :: ub) in
  is_tick (fst (fst (elab wc (fst (crun wc w1 ua)) u))) = false ->
  fair_run (wc_g wc) (w_st w1) es1 ->
  timed D (wc_g wc) (w_st w1) (restamp (now (w_st w1)) [] (okeys (w_st w1))) es1 ->
  now (w_st (fst (crun wc w1 ua))) <= now (w_st w1) + D * N.of_nat (budget (length U) (wc_g wc) (elabs wc W0 us0)).
Proof. exact c_bounded_time_budget. Qed.
Print Assumptions C16_compose_bounded_time_budget.

(* ---- the layers below (Link.v) ---- *)

(* the assumption `feasible` (C16_dischargeable: the service reports SubstreamOpened{Outbound(id)} for the
   peer the substream was requested from) is a THEOREM of the TransportService model of C08 / C09 (coq/Ts):
   along every history of the service from its initial state, with `m` the pending_substreams map kept as
   kademlia/mod.rs keeps it (`kad_track`: inserted when open_substream(p) returns Ok(id), removed when the
   answer for id arrives), every outbound SubstreamOpened names the peer recorded for its id, or the id is
   not pending any more — which is `feasible` for the event EOpened p id *)
Theorem C16_link_service_feasible :
  (forall ka T n0 tr,
     V.Ts.Proofs.nowrap (V.Ts.Model.init ka T n0) tr -> feasible_along (V.Ts.Model.init ka T n0) [] tr) /\
  (forall m os s16 p id,
     step_feasible m os -> psub s16 = m -> In (V.Ts.Model.OSub p (Some id)) os -> feasible s16 (EOpened p id)).
Proof. split; [exact service_answers_feasible | exact step_feasible_is_feasible]. Qed.
Print Assumptions C16_link_service_feasible.

(* dials (C05_sys_progress / C05_sysT_progress / C05_tr_progress_dial: a dial the manager accepted is
   answered by ConnectionEstablished or DialFailure): whenever an action is queued in pending_dials for p,
   both answers are productive events of the glue model — neither is refused or lost *)
Theorem C16_link_dial_answers :
  forall s p a acts,
  aget p (pdial s) = Some (a :: acts) ->
  productive s (EDialFail p) /\
  (aget p (conn s) = None -> aget p (peers s) = None -> forall alive, productive s (EEstablished p alive)).
Proof. exact dial_answers_productive. Qed.
Print Assumptions C16_link_dial_answers.

(* the shipped parallelism factor and executor timeouts satisfy what is assumed above *)
Theorem C16_default_config :
  1 <= V.gen.Consts.PARALLELISM_FACTOR /\ 0 < V.gen.Consts.KAD_READ_TIMEOUT_SECS /\
  0 < V.gen.Consts.KAD_WRITE_TIMEOUT_SECS.
Proof. exact default_config. Qed.
Print Assumptions C16_default_config.

(* non-vacuity, and the F-C16a witness on the repaired model: put_record_to_peers to a routing-table
   peer the manager has no address for — the send phase starts, the peer is registered as failed at
   once and the operation reports QueryFailed *)
Example C16_nonvacuous_undialable :
  let g := mkG 20 3 99 10 in
  snd (run g (st0 [(0, 0)]) [EPutToPeers 0 QOne [0]; EServe 0; EServe 0]) = [OTrack 0 [0]; OFailed 0].
Proof. vm_compute. reflexivity. Qed.

(* a FIND_NODE over one connected peer that answers: one terminal event, nothing left behind *)
Example C16_nonvacuous_find :
  let g := mkG 20 3 99 10 in
  let es := [EEstablished 0 true; ECmd 0 CFindNode [0] [0]; EServe 0; EOpened 0 0;
             EFut 0 (RRead (MFindNode [])); EServe 0] in
  snd (run g (st0 [(0, 2)]) es) = [ORouting []; OFindNodeSuccess 0 [0]] /\
  eng (fst (run g (st0 [(0, 2)]) es)) = [] /\ futs (fst (run g (st0 [(0, 2)]) es)) = [].
Proof. vm_compute. repeat split; reflexivity. Qed.

(* peer timeout staleness inside the composition: parallelism factor 1, peer timeout 0, two seeds.  The
   drain loop sends to peer 0 and stops (the slot is taken); once time has passed peer 0 is stale,
   the next drain sends to peer 1 as well, and both remain waited for with exactly one obligation each *)
Example C16_nonvacuous_stale :
  let g := mkG 20 1 99 0 in
  let s1 := fst (run g (st0 [(0, 2); (1, 2)])
                   [EEstablished 0 true; EEstablished 1 true; ECmd 0 CFindNode [0; 1] [0; 1]; EServe 0; EServe 0]) in
  let s2 := fst (run g s1 [ETick 1; EServe 0]) in
  option_map waiting (aget 0 (eng s1)) = Some [0] /\ quiescent s1 = true /\
  option_map waiting (aget 0 (eng s2)) = Some [0; 1] /\ quiescent s2 = true /\
  cnt s2 true 0 0 = 1%nat /\ cnt s2 true 0 1 = 1%nat.
Proof. vm_compute. repeat split; reflexivity. Qed.

(* the composition is not vacuous: a world of three peers with 2-bit keys satisfies `keys_ok`; the peer
   added to the table seeds the lookup, and a stored record is answered locally — until it expires *)
Example C16_nonvacuous_compose :
  let us := [UAddKnownPeer 0 true; UEv (EEstablished 0 true); UCmd 0 UCFind [true; true]; UEv (EServe 0);
             UEv (EOpened 0 0); UEv (EFut 0 (RRead (MFindNode [1]))); UEv (EServe 0); UEv (EOpenFail 1); UEv (EServe 0);
             UStoreRecord 7 1 0 (Some 5); UAge 4; UCmd 1 (UCGet QOne 7) [true; false];
             UAge 1; UCmd 2 (UCGet QOne 7) [true; false]] in
  keys_ok ex_wc /\
  snd (crun ex_wc (w0 ex_wc [(0, 2)] 2) us) =
  [ORouting [1]; OFindNodeSuccess 0 [0]; OPartial 1 99 LOCAL_REC; OGetRecSuccess 1] /\
  live 1 (w_st (fst (crun ex_wc (w0 ex_wc [(0, 2)] 2) us))) = false /\
  live 2 (w_st (fst (crun ex_wc (w0 ex_wc [(0, 2)] 2) us))) = true.
Proof. split; [exact ex_wc_ok | vm_compute; repeat split; reflexivity]. Qed.

(* the new layers are not vacuous.  Requests of remote peers: the reply to an inbound FIND_NODE names the
   peer the user added to the table; an inbound ADD_PROVIDER of the sender is stored and served to a later
   GET_PROVIDERS — until the provider record expires — and handed to the node's own get_providers as a
   known provider.  Refresh futures: the future of a provided key completes after the refresh interval
   and starts a refresh with the quorum of start_providing; before the deadline nothing is taken; after
   stop_providing the completed future has no effect.  Manual validation: an inbound PUT_VALUE leaves the
   store empty, in the Automatic mode it is stored *)
Example C16_nonvacuous_inbound_refresh :
  let W0 := w0 ex_wc [(0, 2); (1, 2)] 2 in
  let pre := [UAddKnownPeer 0 true; UEv (EEstablished 1 true); UEv (EInbound 1 100)] in
  let w := fst (crun ex_wc W0 pre) in
  reply_of ex_wc w (UInReq 100 (IFindNode [true; true])) = Some (false, [0], []) /\
  map V.C17.Model.r_key (V.C17.Model.recs (w_store (fst (fst (cstep ex_wc w (UInReq 100 (IPutValue 5 1 0 0))))))) = [5] /\
  (let wm := mkWC (wc_g ex_wc) (wc_keys ex_wc) (wc_pool ex_wc) (wc_K ex_wc) (wc_scfg ex_wc) (wc_ttl ex_wc) true false
                  (wc_interval ex_wc) (wc_npub ex_wc) in
   V.C17.Model.recs (w_store (fst (fst (cstep wm (fst (crun wm (w0 wm [(0, 2); (1, 2)] 2) pre))
                                             (UInReq 100 (IPutValue 5 1 0 0)))))) = []) /\
  (let wa := fst (fst (cstep ex_wc w (UInReq 100 (IAddProvider 6 [(1, 2, 1)] [true; true])))) in
   let wb := fst (crun ex_wc wa [UEv (EInbound 1 101)]) in
   reply_of ex_wc wb (UInReq 101 (IGetProviders 6 [true; true])) = Some (false, [0], [(1, 2)]) /\
   reply_of ex_wc (fst (crun ex_wc wb [UAge 100])) (UInReq 101 (IGetProviders 6 [true; true])) = Some (false, [0], []) /\
   fst (fst (elab ex_wc wb (UCmd 3 (UCGetProv 6) [true; true]))) = ECmd 3 (CGetProviders [(1, [0; 1])]) (dists_of ex_wc [true; true]) [0]) /\
  (let w1 := fst (crun ex_wc W0 [UCmd 0 (UCProv (QN 2) 5) [true; true]]) in
   uvalid ex_wc w1 (UFire 1 5 29 [true; true]) = false /\
   fst (fst (elab ex_wc w1 (UFire 1 5 30 [true; true]))) = ECmd 1 (CRefresh (QN 2)) (dists_of ex_wc [true; true]) [] /\
   map V.C17.Timed.tm_key (w_timers (fst (fst (cstep ex_wc w1 (UFire 1 5 30 [true; true]))))) = [5]) /\
  (let w2 := fst (crun ex_wc W0 [UCmd 0 (UCProv QOne 5) [true; true]; UStopProviding 5 [true; true]]) in
   fst (fst (elab ex_wc w2 (UFire 1 5 30 [true; true]))) = ENop /\
   w_timers (fst (fst (cstep ex_wc w2 (UFire 1 5 30 [true; true])))) = []).
Proof. vm_compute. repeat split; reflexivity. Qed.

(* a timed, fair schedule: the substream is opened 5 time units after it was asked for, the reply comes 7
   later; D = 10 is respected, and the lookup ends at time 12 <= D * 3 *)
Example C16_nonvacuous_timed :
  let g := mkG 20 3 99 10 in
  let s0 := fst (run g (st0 [(0, 2)]) [EEstablished 0 true; ECmd 0 CFindNode [0] [0]; EServe 0]) in
  let es1 := [ETick 5; EOpened 0 0; ETick 7; EFut 0 (RRead (MFindNode [])); EServe 0] in
  okeys s0 = [(1, 0)] /\ timed 10 g s0 (restamp (now s0) [] (okeys s0)) es1 /\ fair_run g s0 es1 /\
  now (fst (run g s0 es1)) = 12 /\ snd (run g s0 es1) = [ORouting []; OFindNodeSuccess 0 [0]].
Proof.
  split; [vm_compute; reflexivity |]. split.
  - cbn [timed is_tick]. split; [vm_compute; reflexivity |]. split.
    + intros k t0 H. vm_compute in H. destruct H as [H | []]. inversion H. subst. vm_compute. discriminate.
    + split; [vm_compute; reflexivity |]. split; [| exact I].
      intros k t0 H. vm_compute in H. destruct H as [H | []]. inversion H. subst. vm_compute. discriminate.
  - split.
    + cbn [fair_run is_input is_tick]. split; [reflexivity |]. split; [left; reflexivity |].
      split; [reflexivity |]. split.
      { right. cbn [productive]. vm_compute. eexists. eexists. split; reflexivity. }
      split; [reflexivity |]. split; [left; reflexivity |]. split; [reflexivity |]. split.
      { right. cbn [productive]. vm_compute. eexists. split; reflexivity. }
      split; [reflexivity |]. split; [| exact I]. right. vm_compute. reflexivity.
    + vm_compute. split; reflexivity.
Qed.

(* ---- the bound D and the layers below: what can NOT be derived (coq/Link/C16_Time.v) ----
   `timed D` needs a bound on how long an open_substream stays unanswered. The TransportService model of
   C08 / C09 has a logical clock, but it times only the keep-alive downgrade; an open in flight has no
   deadline there and holds the connection (C09_busy_keeps_alive). For EVERY D there is a history inside
   C08's contract in which an accepted open (id 0, command on connection 1) is still in flight and
   unanswered at time D, with a strong sender left on the connection's command channel. So D for opens
   does not follow from C08 + C09; it is the connection task's substream open timeout (an untimed event
   of the C07 model). For dials the manager / transport models have no clock at all (C05's progress
   theorems are existential over the environment's schedule). See the header of coq/Link/C16_Time.v for
   the statement of what a formal link would need. *)
Theorem C16_service_open_wait_unbounded :
  forall D,
  V.Ts.Model.feasible 2 V.Ts.Model.env0 (V.Ts.Model.init true 1000 0) (V.Link.C16_Time.wait_tr D) = true /\
  In (V.Ts.Model.OCmd 1 0) (concat (V.Ts.Model.run (V.Ts.Model.init true 1000 0) (V.Link.C16_Time.wait_tr D))) /\
  V.Ts.Model.pfind 0 (V.Ts.Model.s_pend (V.Ts.Model.final (V.Ts.Model.init true 1000 0) (V.Link.C16_Time.wait_tr D))) = Some (0, 1) /\
  V.Ts.Model.s_now (V.Ts.Model.final (V.Ts.Model.init true 1000 0) (V.Link.C16_Time.wait_tr D)) = D /\
  V.Ts.Answers.ans_ids (concat (V.Ts.Model.run (V.Ts.Model.init true 1000 0) (V.Link.C16_Time.wait_tr D))) = [] /\
  0 < V.Ts.Model.strong (V.Ts.Model.final (V.Ts.Model.init true 1000 0) (V.Link.C16_Time.wait_tr D)) 1.
Proof. exact V.Link.C16_Time.service_open_wait_unbounded. Qed.
Print Assumptions C16_service_open_wait_unbounded.
