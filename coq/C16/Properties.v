(* C16 — pinned property theorems. This file contains statements, `exact`, and
   Print Assumptions only. The pins in tools/pins/C16.v re-check the statements.

   Vocabulary (coq/C16/Model.v): `run g (st0 m) es` runs the Kademlia event loop of a node with
   configuration `g` (replication factor, parallelism factor, local peer) from the empty state,
   with `m` the transport manager's initial beliefs, through ANY list of events `es`: user
   commands, `EServe q` (one iteration of the engine drain loop that picked query q — all HashMap
   orders), connection / substream / dial events of the TransportService, executor completions
   with arbitrary decoded messages, and environment changes that decide the synchronous results
   of open_substream / dial. It returns the final state and the emitted KademliaEvents.
   `waiting x` = the peers a live query is waiting for (the `pending` map of a lookup, the
   `pending_peers` set of a PUT_VALUE / ADD_PROVIDER send phase); `owes s find q p` = an
   obligation of query q for peer p is outstanding in pending_dials, in pending_actions or as an
   executor future (find = true: request/response of a lookup; false: the PUT_VALUE /
   ADD_PROVIDER send). *)
From Coq Require Import List NArith Bool.
From V.gen Require Consts.
From V.C16 Require Import Model Proofs Obl Bound Chan.
Import ListNotations.
Open Scope N_scope.

(* "nobody waits for nothing": after every history, every peer a live query waits for has an
   outstanding obligation of that query, of the matching kind *)
Theorem C16_no_wait_for_nothing :
  forall g m es q x p,
  1 <= g_alpha g ->
  let s := fst (run g (st0 m) es) in
  aget q (eng s) = Some x -> In p (waiting x) -> owes s (negb (is_track x)) q p.
Proof. exact no_wait_for_nothing. Qed.
Print Assumptions C16_no_wait_for_nothing.

(* every pending action can be discharged by the environment: its substream id is in
   pending_substreams under the right peer (so SubstreamOpenFailure finds it), provided the
   service reports opened substreams for the peer they were requested from *)
Theorem C16_dischargeable :
  forall g m es p acts sid a,
  1 <= g_alpha g -> feasible_run g (st0 m) es ->
  let s := fst (run g (st0 m) es) in
  aget p (peers s) = Some acts -> aget sid acts = Some a -> aget sid (psub s) = Some p.
Proof. exact dischargeable. Qed.
Print Assumptions C16_dischargeable.

(* once the environment has discharged every obligation and the engine is drained, no query is
   left: every operation has ended *)
Theorem C16_idle_all_done :
  forall g m es,
  1 <= g_alpha g ->
  let s := fst (run g (st0 m) es) in
  idle s -> quiescent s = true -> eng s = [].
Proof. exact idle_all_done. Qed.
Print Assumptions C16_idle_all_done.

(* never two terminal events: for every query id, (terminal events so far) + (1 if still live)
   = (times the id was started), and an id is started at most once (ids come from a counter) *)
Theorem C16_one_terminal :
  forall g m es q,
  fresh_ids [] es ->
  let s := fst (run g (st0 m) es) in
  let outs := snd (run g (st0 m) es) in
  (terminals q outs + (if live q s then 1 else 0) = started q es)%nat /\ (started q es <= 1)%nat.
Proof. exact one_terminal. Qed.
Print Assumptions C16_one_terminal.

(* hence: when nothing is owed any more and the engine is drained, every started operation has
   produced exactly one terminal event carrying its query id *)
Theorem C16_terminates :
  forall g m es q,
  1 <= g_alpha g -> fresh_ids [] es ->
  let s := fst (run g (st0 m) es) in
  let outs := snd (run g (st0 m) es) in
  idle s -> quiescent s = true ->
  terminals q outs = started q es /\ (started q es <= 1)%nat.
Proof. exact all_reported. Qed.
Print Assumptions C16_terminates.

(* the drain loop `while let Some(action) = engine.next_action()` terminates: an iteration that finds
   an action for query q0 strictly decreases q0's weight (3 + candidates + queued records for a
   lookup, 2 for put-to-peers, 1 for a send phase, 0 once removed) and leaves every other query
   untouched; so the drained state (`quiescent`) is reached after at most the sum of the weights *)
Theorem C16_drain_progress :
  forall s q0 q,
  snd (serve s q0) = true ->
  (q <> q0 -> aget q (eng (fst (fst (serve s q0)))) = aget q (eng s)) /\
  (qw (aget q0 (eng (fst (fst (serve s q0))))) < qw (aget q0 (eng s)))%nat.
Proof. exact serve_progress. Qed.
Print Assumptions C16_drain_progress.

(* at most one obligation per (kind, query, peer): over pending_dials, pending_actions and the executor
   together, after every history with fresh query ids and well-formed commands (`cmd_ok`: the routing
   table never hands out the local peer as a seed; put_record_to_peers is not given a peer twice) *)
Theorem C16_at_most_one :
  forall g m es k q p,
  fresh_ids [] es -> cmds_ok g es -> (cnt (fst (run g (st0 m) es)) k q p <= 1)%nat.
Proof. exact at_most_one. Qed.
Print Assumptions C16_at_most_one.

(* hence exactly one: a peer a live query waits for has one outstanding obligation of that query *)
Theorem C16_exactly_one :
  forall g m es q x p,
  1 <= g_alpha g -> fresh_ids [] es -> cmds_ok g es ->
  let s := fst (run g (st0 m) es) in
  aget q (eng s) = Some x -> In p (waiting x) -> cnt s (negb (is_track x)) q p = 1%nat.
Proof. exact exactly_one. Qed.
Print Assumptions C16_exactly_one.

(* quorum honesty: a PutRecordSuccess / AddProviderSuccess for q is only emitted when, for at least
   clamp(requested quorum, number of targets) DISTINCT TARGET peers of the send phase, an executor
   future created for that peer's SendPutValue / SendAddProvider action has reported a completed send.
   `put_sends` collects exactly the SendSuccess / AssumeSendSuccess / ReadSuccess completions of
   send-phase futures (FReqEat / FSend); a late FIND_NODE reply of the lookup phase does not count
   (it cannot even reach the counter: by C16_at_most_one no request future of the lookup exists for
   a target once the send phase has started) *)
Theorem C16_quorum_honest :
  forall g m es q,
  fresh_ids [] es -> cmds_ok g es ->
  let outs := snd (run g (st0 m) es) in
  In (OPutSuccess q) outs \/ In (OProvSuccess q) outs ->
  exists targets qr S,
    find_quorum q es = Some qr /\ In (OTrack q targets) outs /\ NoDup S /\
    clamp qr (N.of_nat (length targets)) <= N.of_nat (length S) /\
    (forall p, In p S -> In (q, p) (put_sends g (st0 m) es) /\ In p targets).
Proof. exact quorum_honest_put. Qed.
Print Assumptions C16_quorum_honest.

(* the measure: M = sum over live queries of (5 * C15's lookup measure + queued records + 5k + 2 | 5 * targets + 2 |
   pending + 1) + 4 per queued dial action + 3 per pending substream action + 2 / 1 per executor
   future.  No event other than new work (command, inbound substream) raises it; every productive event
   (a served query with an action, the answer to a queued dial / pending substream / future) lowers it *)
Theorem C16_step_measure :
  forall U g s e,
  BE U g s -> ev_in_U U e -> is_input e = false ->
  BE U g (fst (fst (step g s e))) /\ (M U g (fst (fst (step g s e))) <= M U g s)%nat /\
  (productive s e -> (M U g (fst (fst (step g s e))) < M U g s)%nat).
Proof. exact step_M. Qed.
Print Assumptions C16_step_measure.

(* when nothing productive is enabled, nothing is owed and the engine is drained *)
Theorem C16_stuck_idle :
  forall s, NoDup (map fst (eng s)) -> stuck s -> idle s /\ quiescent s = true.
Proof. exact stuck_idle. Qed.
Print Assumptions C16_stuck_idle.

(* fair termination with an explicit bound: after ANY history es0 (peers drawn from a universe U of
   n peers), every schedule es1 without new work in which the drain loop and the environment keep
   answering what is owed has at most budget(n, k, es0) events — (10 n + 5 k + 2) per command,
   (5 |peers| + 2) per put_record_to_peers, 2 per inbound substream — and when it ends because
   nothing productive is enabled, every started operation has exactly one terminal event.  The
   premises `idle` / `quiescent` of C16_terminates are no longer assumed: they follow. *)
Theorem C16_fair_terminates :
  forall U g m es0 es1 q,
  1 <= g_alpha g -> fresh_ids [] (es0 ++ es1) -> cmds_ok g es0 -> evs_in_U U es0 -> evs_in_U U es1 ->
  let s0 := fst (run g (st0 m) es0) in
  fair_run g s0 es1 ->
  (length es1 <= budget (length U) g es0)%nat /\
  (stuck (fst (run g s0 es1)) ->
   terminals q (snd (run g (st0 m) (es0 ++ es1))) = started q (es0 ++ es1) /\
   (started q (es0 ++ es1) <= 1)%nat).
Proof. exact fair_terminates. Qed.
Print Assumptions C16_fair_terminates.

(* await points inside the handlers: with an event channel of `cap` slots towards the KademliaHandle
   (`brun`: the loop takes an event only when it is not parked in a handler; `BRecv` = the user
   receives one event) nothing is lost, duplicated or reordered — what the user has received, then
   the channel, then the backlog of the parked handler is exactly the event sequence of the
   unbounded loop on the events that were really taken — the state is that loop's state, the
   channel never exceeds its capacity, and the loop is parked only while the channel is full *)
Theorem C16_bounded_channel :
  forall g m cap es,
  let b' := fst (brun g cap (b0 m) es) in
  let rcv := snd (brun g cap (b0 m) es) in
  let tk := taken g cap (b0 m) es in
  b_st b' = fst (run g (st0 m) tk) /\
  rcv ++ b_chan b' ++ b_back b' = filter is_event (snd (run g (st0 m) tk)) /\
  (length (b_chan b') <= cap)%nat /\ (b_back b' <> [] -> length (b_chan b') = cap).
Proof. exact bounded_channel. Qed.
Print Assumptions C16_bounded_channel.

(* and the user can always drain it: after |channel| + |backlog| receives everything has arrived *)
Theorem C16_channel_drains :
  forall g cap n b,
  (1 <= cap)%nat -> bwf cap b -> (length (flight b) <= n)%nat ->
  flight (fst (brun g cap b (repeat BRecv n))) = [] /\
  snd (brun g cap b (repeat BRecv n)) = flight b.
Proof. exact drain_all. Qed.
Print Assumptions C16_channel_drains.

(* the shipped parallelism factor and executor timeouts satisfy what is assumed above *)
Theorem C16_default_config :
  1 <= V.gen.Consts.PARALLELISM_FACTOR /\ 0 < V.gen.Consts.KAD_READ_TIMEOUT_SECS /\
  0 < V.gen.Consts.KAD_WRITE_TIMEOUT_SECS.
Proof. exact default_config. Qed.
Print Assumptions C16_default_config.

(* non-vacuity, and the F-C16a witness on the repaired model: put_record_to_peers to a routing-table
   peer the manager has no address for — the send phase starts, the peer is registered as failed at
   once and the operation reports QueryFailed *)
Example C16_nonvacuous_undialable :
  let g := mkG 20 3 99 in
  snd (run g (st0 [(0, 0)]) [EPutToPeers 0 QOne [0]; EServe 0; EServe 0]) = [OTrack 0 [0]; OFailed 0].
Proof. vm_compute. reflexivity. Qed.

(* a FIND_NODE over one connected peer that answers: one terminal event, nothing left behind *)
Example C16_nonvacuous_find :
  let g := mkG 20 3 99 in
  let es := [EEstablished 0 true; ECmd 0 CFindNode [0] [0]; EServe 0; EOpened 0 0;
             EFut 0 (RRead (MFindNode [])); EServe 0] in
  snd (run g (st0 [(0, 2)]) es) = [ORouting []; OFindNodeSuccess 0 [0]] /\
  eng (fst (run g (st0 [(0, 2)]) es)) = [] /\ futs (fst (run g (st0 [(0, 2)]) es)) = [].
Proof. vm_compute. repeat split; reflexivity. Qed.
