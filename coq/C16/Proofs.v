(* C16 — proofs about the glue model. *)
From Coq Require Import List NArith Bool Lia ZifyBool ZifyNat ZifyN.
From V.gen Require Consts.
From V.C15 Require Proofs.
From V.C16 Require Import Model.
Import ListNotations.
Open Scope N_scope.

Module L := V.C15.Model.
Module LP := V.C15.Proofs.

Arguments N.add : simpl never.
Arguments N.sub : simpl never.
Arguments N.eqb : simpl never.
Arguments N.ltb : simpl never.
Arguments N.leb : simpl never.
Arguments N.of_nat : simpl never.
Ltac proj := cbn [eng peers psub pdial futs nsid conn mgr
                  w_eng w_peers w_psub w_pdial w_futs w_nsid w_conn w_mgr].
Ltac proj_in H := cbn [eng peers psub pdial futs nsid conn mgr
                       w_eng w_peers w_psub w_pdial w_futs w_nsid w_conn w_mgr] in H.

(* ------------------------------------------------------------------ association lists *)

Lemma aget_adel_same : forall A k (l : list (N * A)), aget k (adel k l) = None.
Proof.
  intros A k l. induction l as [| [k' v] t IH]; [reflexivity |].
  unfold adel in *. cbn [filter fst]. destruct (N.eqb_spec k' k) as [E | E]; cbn [negb].
  - exact IH.
  - cbn [aget]. destruct (N.eqb_spec k' k); [contradiction | exact IH].
Qed.

Lemma aget_adel_other : forall A k k' (l : list (N * A)), k' <> k -> aget k' (adel k l) = aget k' l.
Proof.
  intros A k k' l Hn. induction l as [| [k0 v] t IH]; [reflexivity |].
  unfold adel in *. cbn [filter fst aget]. destruct (N.eqb_spec k0 k) as [E | E]; cbn [negb].
  - subst k0. destruct (N.eqb_spec k k'); [congruence | exact IH].
  - cbn [aget]. rewrite IH. reflexivity.
Qed.

Lemma aget_app : forall A k (l1 l2 : list (N * A)),
  aget k (l1 ++ l2) = match aget k l1 with Some v => Some v | None => aget k l2 end.
Proof.
  intros A k l1 l2. induction l1 as [| [k' v] t IH]; [reflexivity |].
  cbn [app aget]. destruct (k' =? k); [reflexivity | exact IH].
Qed.

Lemma aget_aset_same : forall A k (v : A) l, aget k (aset k v l) = Some v.
Proof.
  intros A k v l. unfold aset. rewrite aget_app, aget_adel_same. cbn [aget]. rewrite N.eqb_refl. reflexivity.
Qed.

Lemma aget_aset_other : forall A k k' (v : A) l, k' <> k -> aget k' (aset k v l) = aget k' l.
Proof.
  intros A k k' v l Hn. unfold aset. rewrite aget_app, aget_adel_other by exact Hn.
  destruct (aget k' l); [reflexivity |]. cbn [aget]. destruct (N.eqb_spec k k'); [congruence | reflexivity].
Qed.

Lemma aget_In : forall A k (v : A) l, aget k l = Some v -> In (k, v) l.
Proof.
  intros A k v l. induction l as [| [k' v'] t IH]; [discriminate |].
  cbn [aget]. destruct (N.eqb_spec k' k) as [E | E]; intro H.
  - inversion H. subst. left. reflexivity.
  - right. apply IH. exact H.
Qed.

Lemma aget_map_upd : forall A (f : A -> A) k k' (l : list (N * A)),
  aget k' (map (fun x => if fst x =? k then (fst x, f (snd x)) else x) l) =
  if k' =? k then option_map f (aget k' l) else aget k' l.
Proof.
  intros A f k k' l. induction l as [| [k0 v] t IH].
  - cbn. destruct (k' =? k); reflexivity.
  - cbn [map fst snd]. destruct (N.eqb_spec k0 k) as [E | E]; cbn [aget].
    + subst k0. destruct (N.eqb_spec k k') as [E2 | E2].
      * subst k'. rewrite N.eqb_refl. reflexivity.
      * exact IH.
    + destruct (N.eqb_spec k0 k') as [E2 | E2].
      * subst k0. destruct (N.eqb_spec k' k); [congruence | reflexivity].
      * exact IH.
Qed.

Lemma aget_map_set : forall A (x : A) k k' (l : list (N * A)),
  aget k' (map (fun y => if fst y =? k then (k, x) else y) l) =
  if k' =? k then option_map (fun _ => x) (aget k' l) else aget k' l.
Proof.
  intros A x k k' l. induction l as [| [k0 v] t IH].
  - cbn. destruct (k' =? k); reflexivity.
  - cbn [map fst snd]. destruct (N.eqb_spec k0 k) as [E | E]; cbn [aget].
    + subst k0. destruct (N.eqb_spec k k') as [E2 | E2].
      * subst k'. rewrite N.eqb_refl. reflexivity.
      * exact IH.
    + destruct (N.eqb_spec k0 k') as [E2 | E2].
      * subst k0. destruct (N.eqb_spec k' k); [congruence | reflexivity].
      * exact IH.
Qed.

Lemma nremove_In : forall p l x, In x (nremove p l) <-> In x l /\ x <> p.
Proof.
  intros p l x. unfold nremove. rewrite filter_In. split.
  - intros [H1 H2]. split; [exact H1 |]. destruct (N.eqb_spec x p); [discriminate | assumption].
  - intros [H1 H2]. split; [exact H1 |]. destruct (N.eqb_spec x p); [contradiction | reflexivity].
Qed.

Lemma nmem_In : forall p l, nmem p l = true <-> In p l.
Proof.
  intros p l. unfold nmem. rewrite existsb_exists. split.
  - intros [x [H1 H2]]. apply N.eqb_eq in H2. subst. exact H1.
  - intro H. exists p. split; [exact H | apply N.eqb_refl].
Qed.

Lemma ndedup_In : forall l x, In x (ndedup l) <-> In x l.
Proof.
  induction l as [| h t IH]; intro x; [tauto |].
  cbn [ndedup In]. rewrite nremove_In, IH. destruct (N.eq_dec h x); [tauto |]. split.
  - intros [H | [H _]]; tauto.
  - intros [H | H]; [tauto |]. right. split; [exact H | congruence].
Qed.

Arguments aset : simpl never.
Arguments adel : simpl never.
Arguments aget : simpl never.

(* ------------------------------------------------------------------ the engine calls *)

Lemma upd_q_get : forall s q f q',
  aget q' (eng (upd_q s q f)) =
  if q' =? q then option_map f (aget q' (eng s)) else aget q' (eng s).
Proof. intros. unfold upd_q. cbn [eng w_eng]. apply aget_map_upd. Qed.

Definition same_glue (s s' : st) : Prop :=
  peers s' = peers s /\ psub s' = psub s /\ pdial s' = pdial s /\ futs s' = futs s /\
  nsid s' = nsid s /\ conn s' = conn s /\ mgr s' = mgr s.

Lemma same_glue_refl : forall s, same_glue s s.
Proof. intro s. unfold same_glue. repeat split. Qed.

Lemma same_glue_trans : forall a b c, same_glue a b -> same_glue b c -> same_glue a c.
Proof.
  unfold same_glue. intros a b c (A1 & A2 & A3 & A4 & A5 & A6 & A7) (B1 & B2 & B3 & B4 & B5 & B6 & B7).
  repeat split; congruence.
Qed.

Lemma upd_q_glue : forall s q f, same_glue s (upd_q s q f).
Proof. intros. unfold same_glue, upd_q. cbn. repeat split. Qed.

Lemma eng_fail_glue : forall s q p, same_glue s (eng_fail s q p).
Proof.
  intros. unfold eng_fail, eng_resp_fail, eng_send_fail.
  eapply same_glue_trans; apply upd_q_glue.
Qed.

Lemma eng_fail_get : forall s q p q',
  aget q' (eng (eng_fail s q p)) =
  if q' =? q then option_map (fun x => q_resp_fail p (q_send_fail p x)) (aget q' (eng s))
  else aget q' (eng s).
Proof.
  intros. unfold eng_fail, eng_resp_fail, eng_send_fail. rewrite !upd_q_get.
  destruct (q' =? q); [| reflexivity]. destruct (aget q' (eng s)); reflexivity.
Qed.

(* live lookups are not `done` (the engine removes a query with its terminal action) *)
Definition qlive (x : qstate) : Prop :=
  match x with QLookup _ _ c ls => L.done ls = false /\ 1 <= L.c_alpha c | _ => True end.
Definition lookups_live (s : st) : Prop := forall q x, aget q (eng s) = Some x -> qlive x.

Lemma on_failure_pend : forall c ls p p',
  L.done ls = false ->
  In p' (map fst (L.pend (L.on_failure c ls p))) -> In p' (map fst (L.pend ls)) /\ p' <> p.
Proof.
  intros c ls p p' Hd. unfold L.on_failure. rewrite Hd.
  destruct (L.pmem p (L.pend ls)) eqn:E.
  - cbn [L.pend]. intro H. apply LP.premove_fst in H. exact H.
  - intro H. split; [exact H |]. apply LP.pmem_false in E. congruence.
Qed.

Lemma on_response_pend : forall c ls p r p',
  L.done ls = false ->
  In p' (map fst (L.pend (L.on_response c ls p r))) -> In p' (map fst (L.pend ls)) /\ p' <> p.
Proof.
  intros c ls p r p' Hd. destruct (L.effective ls p) eqn:E.
  - destruct (LP.on_response_eff c ls p r E) as (Hp & _). rewrite Hp.
    intro H. apply LP.premove_fst in H. exact H.
  - rewrite LP.on_response_noeff by exact E. intro H. split; [exact H |].
    unfold L.effective in E. rewrite Hd in E. cbn [negb andb] in E. apply LP.pmem_false in E. congruence.
Qed.

Lemma on_failure_done : forall c ls p, L.done (L.on_failure c ls p) = L.done ls.
Proof.
  intros. unfold L.on_failure. destruct (L.done ls) eqn:E; [exact E |].
  destruct (L.pmem p (L.pend ls)); cbn; first [reflexivity | exact E].
Qed.

Lemma on_response_done : forall c ls p r, L.done (L.on_response c ls p r) = L.done ls.
Proof.
  intros. unfold L.on_response. destruct (L.done ls) eqn:E; [exact E |].
  destruct (L.pmem p (L.pend ls)); [| exact E].
  destruct (L.c_kind c); [cbn; first [reflexivity | exact E] | | cbn; first [reflexivity | exact E]].
  destruct (L.r_rec r) as [[id [|]] |]; cbn; first [reflexivity | exact E].
Qed.

Lemma q_fail_waiting : forall p x p',
  qlive x -> In p' (waiting (q_resp_fail p (q_send_fail p x))) -> In p' (waiting x) /\ p' <> p.
Proof.
  intros p x p' Hl. destruct x as [lk qr c ls | qr ps | pv pd n need]; cbn [q_send_fail q_resp_fail waiting].
  - apply on_failure_pend. apply Hl.
  - intros [].
  - intro H. apply nremove_In in H. exact H.
Qed.

Lemma q_fail_track : forall p x, is_track (q_resp_fail p (q_send_fail p x)) = is_track x.
Proof. intros p [lk qr c ls | qr ps | pv pd n need]; reflexivity. Qed.

Lemma q_fail_live : forall p x, qlive x -> qlive (q_resp_fail p (q_send_fail p x)).
Proof.
  intros p [lk qr c ls | qr ps | pv pd n need]; cbn [q_send_fail q_resp_fail qlive]; [| trivial | trivial].
  intro H. rewrite on_failure_done. exact H.
Qed.

(* ------------------------------------------------------------------ obligations depend on the glue maps only *)

Lemma owes_glue : forall s s' f q p, same_glue s s' -> owes s f q p -> owes s' f q p.
Proof.
  intros s s' f q p (A1 & A2 & A3 & A4 & _). unfold owes, owes_dial, owes_sub, owes_fut.
  rewrite A1, A3, A4. tauto.
Qed.

Lemma owes_glue_rev : forall s s' f q p, same_glue s s' -> owes s' f q p -> owes s f q p.
Proof.
  intros s s' f q p (A1 & A2 & A3 & A4 & _). unfold owes, owes_dial, owes_sub, owes_fut.
  rewrite A1, A3, A4. tauto.
Qed.

(* every peer a live query waits for has an obligation of the right kind, except the (kind, query,
   peer) triples in X (obligations just taken out of the maps, about to be re-created or failed) *)
Definition covered (s : st) (X : list (bool * (N * N))) : Prop :=
  forall q x p, aget q (eng s) = Some x -> In p (waiting x) ->
                owes s (negb (is_track x)) q p \/ In (negb (is_track x), (q, p)) X.

Lemma covered_weaken : forall s X Y, (forall z, In z X -> In z Y) -> covered s X -> covered s Y.
Proof. intros s X Y H C q x p A B. destruct (C q x p A B) as [C1 | C1]; [left; exact C1 | right; apply H; exact C1]. Qed.

Lemma eng_fail_live : forall s q p, lookups_live s -> lookups_live (eng_fail s q p).
Proof.
  intros s q p Hl q' x. rewrite eng_fail_get. destruct (q' =? q).
  - destruct (aget q' (eng s)) as [x0 |] eqn:E; cbn [option_map]; [| discriminate].
    intro H. inversion H. subst x. apply q_fail_live. eapply Hl. exact E.
  - apply Hl.
Qed.

(* registering the failure of (q, p) settles every exception about (q, p) *)
Lemma covered_eng_fail : forall s q p X Y,
  lookups_live s -> (forall z, In z X -> In z Y \/ snd z = (q, p)) ->
  covered s X -> covered (eng_fail s q p) Y.
Proof.
  intros s q p X Y Hl HX C q' x' p' A B. rewrite eng_fail_get in A.
  destruct (N.eqb_spec q' q) as [E | E].
  - subst q'. destruct (aget q (eng s)) as [x0 |] eqn:E0; cbn [option_map] in A; [| discriminate].
    inversion A. subst x'. clear A. apply q_fail_waiting in B; [| eapply Hl; exact E0].
    destruct B as [B1 B2]. rewrite q_fail_track.
    destruct (C q x0 p' E0 B1) as [C1 | C1].
    + left. eapply owes_glue; [apply eng_fail_glue | exact C1].
    + destruct (HX _ C1) as [H | H]; [right; exact H |]. cbn [snd] in H. inversion H. congruence.
  - destruct (C q' x' p' A B) as [C1 | C1].
    + left. eapply owes_glue; [apply eng_fail_glue | exact C1].
    + destruct (HX _ C1) as [H | H]; [right; exact H |]. cbn [snd] in H. inversion H. congruence.
Qed.

Lemma covered_eng_fail' : forall s q p X,
  lookups_live s -> covered s X -> covered (eng_fail s q p) X.
Proof. intros s q p X Hl C. eapply covered_eng_fail; [exact Hl | | exact C]. intros z Hz. left. exact Hz. Qed.

Lemma covered_drop : forall s k q p X,
  (forall x, aget q (eng s) = Some x -> ~ In p (waiting x)) ->
  covered s ((k, (q, p)) :: X) -> covered s X.
Proof.
  intros s k q p X Hn C q' x' p' A B. destruct (C q' x' p' A B) as [C1 | [C1 | C1]].
  - left. exact C1.
  - inversion C1. subst q' p'. exfalso. eapply Hn; eassumption.
  - right. exact C1.
Qed.

Definition not_waiting (s : st) (q p : N) : Prop :=
  forall x, aget q (eng s) = Some x -> ~ In p (waiting x).

Lemma eng_fail_not_waiting : forall s q p, lookups_live s -> not_waiting (eng_fail s q p) q p.
Proof.
  intros s q p Hl x. rewrite eng_fail_get, N.eqb_refl.
  destruct (aget q (eng s)) as [x0 |] eqn:E; cbn [option_map]; [| discriminate].
  intro H. inversion H. subst x. intro B. apply q_fail_waiting in B; [| eapply Hl; exact E].
  destruct B as [_ B]. congruence.
Qed.

Lemma not_waiting_eng_fail : forall s q p q' p',
  lookups_live s -> not_waiting s q p -> not_waiting (eng_fail s q' p') q p.
Proof.
  intros s q p q' p' Hl Hn x. rewrite eng_fail_get. destruct (q =? q').
  - destruct (aget q (eng s)) as [x0 |] eqn:E; cbn [option_map]; [| discriminate].
    intro H. inversion H. subst x. intro B. apply q_fail_waiting in B; [| eapply Hl; exact E].
    destruct B as [B _]. eapply Hn; eassumption.
  - apply Hn.
Qed.

(* ------------------------------------------------------------------ the service and the glue maps *)

Definition sids_fresh (s : st) : Prop :=
  (forall p acts sid a, aget p (peers s) = Some acts -> aget sid acts = Some a -> sid < nsid s) /\
  (forall sid p, aget sid (psub s) = Some p -> sid < nsid s).

(* every pending action can be found through pending_substreams (F-C16d) *)
Definition linked (s : st) : Prop :=
  forall p acts sid a, aget p (peers s) = Some acts -> aget sid acts = Some a -> aget sid (psub s) = Some p.

Lemma svc_open_spec : forall s p s' r, svc_open s p = (s', r) ->
  eng s' = eng s /\ peers s' = peers s /\ psub s' = psub s /\ pdial s' = pdial s /\
  futs s' = futs s /\ conn s' = conn s /\ mgr s' = mgr s /\ nsid s <= nsid s' /\
  (forall sid, r = Some sid -> sid = nsid s /\ nsid s' = nsid s + 1).
Proof.
  intros s p s' r. unfold svc_open.
  assert (K : forall sid : N, Some (nsid s) = Some sid -> sid = nsid s /\ nsid (w_nsid s (nsid s + 1)) = nsid s + 1).
  { intros sid E. inversion E. split; reflexivity. }
  destruct (aget p (conn s)) as [[|] |]; intro H; inversion H; subst; proj;
    (split; [reflexivity |]); (split; [reflexivity |]); (split; [reflexivity |]); (split; [reflexivity |]);
    (split; [reflexivity |]); (split; [reflexivity |]); (split; [reflexivity |]); (split; [lia |]);
    first [exact K | intros sid E; discriminate E].
Qed.

Lemma pacts_get : forall s p acts, aget p (peers s) = Some acts -> pacts s p = acts.
Proof. intros s p acts H. unfold pacts. rewrite H. reflexivity. Qed.

Lemma track_sub_spec : forall s p sid a,
  (forall acts a', aget p (peers s) = Some acts -> aget sid acts = Some a' -> False) ->
  let s' := track_sub s p sid a in
  eng s' = eng s /\ nsid s' = nsid s /\ conn s' = conn s /\ mgr s' = mgr s /\
  pdial s' = pdial s /\ futs s' = futs s /\
  (forall f q p0, owes s f q p0 -> owes s' f q p0) /\
  owes s' (find_act a) (a_q a) p /\
  (forall p0 acts' sid' a', aget p0 (peers s') = Some acts' -> aget sid' acts' = Some a' ->
     (p0 = p /\ sid' = sid /\ a' = a) \/
     exists acts, aget p0 (peers s) = Some acts /\ aget sid' acts = Some a') /\
  (forall sid' p', aget sid' (psub s') = Some p' ->
     (sid' = sid /\ p' = p) \/ aget sid' (psub s) = Some p') /\
  aget sid (psub s') = Some p /\
  (forall sid' p', sid' <> sid -> aget sid' (psub s) = Some p' -> aget sid' (psub s') = Some p').
Proof.
  intros s p sid a Hfresh s'. subst s'. unfold track_sub, add_paction. cbn.
  repeat split; try reflexivity.
  - intros f q p0 [H | [H | H]].
    + left. exact H.
    + right. left. destruct H as (acts & sid0 & a0 & H1 & H2 & H3 & H4).
      unfold owes_sub. cbn [peers w_peers w_psub].
      destruct (N.eq_dec p0 p) as [E | E].
      * subst p0. exists (aset sid a (pacts (w_psub s (aset sid p (psub s))) p)), sid0, a0.
        rewrite aget_aset_same. split; [reflexivity |]. split; [| tauto].
        unfold pacts. cbn [peers w_psub]. rewrite H1. rewrite aget_aset_other; [exact H2 |].
        intro E. subst sid0. eapply Hfresh; eassumption.
      * exists acts, sid0, a0. rewrite aget_aset_other by exact E. tauto.
    + right. right. exact H.
  - right. left. unfold owes_sub. cbn [peers w_peers w_psub].
    exists (aset sid a (pacts (w_psub s (aset sid p (psub s))) p)), sid, a.
    rewrite !aget_aset_same. tauto.
  - intros p0 acts' sid' a' H1 H2. destruct (N.eq_dec p0 p) as [E | E].
    + subst p0. rewrite aget_aset_same in H1. inversion H1. subst acts'. clear H1.
      destruct (N.eq_dec sid' sid) as [E2 | E2].
      * subst sid'. rewrite aget_aset_same in H2. inversion H2. left. tauto.
      * rewrite aget_aset_other in H2 by exact E2. right. unfold pacts in H2. cbn [peers w_psub] in H2.
        destruct (aget p (peers s)) as [acts |] eqn:E3; [| discriminate].
        exists acts. tauto.
    + rewrite aget_aset_other in H1 by exact E. right. exists acts'. tauto.
  - intros sid' p' H. destruct (N.eq_dec sid' sid) as [E | E].
    + subst sid'. rewrite aget_aset_same in H. inversion H. left. tauto.
    + rewrite aget_aset_other in H by exact E. right. exact H.
  - apply aget_aset_same.
  - intros sid' p' E H. rewrite aget_aset_other by exact E. exact H.
Qed.

(* what all glue steps that only ADD obligations have in common *)
Record extends (s s' : st) : Prop := mkExt {
  ex_eng : eng s' = eng s;
  ex_owes : forall f q p, owes s f q p -> owes s' f q p;
  ex_fresh : sids_fresh s -> sids_fresh s';
  ex_linked : sids_fresh s -> linked s -> linked s';
  ex_conn : conn s' = conn s;
  ex_mgr : mgr s' = mgr s;
  ex_nsid : nsid s <= nsid s'
}.

Lemma extends_refl : forall s, extends s s.
Proof. intro s. constructor; auto. lia. Qed.

Lemma extends_trans : forall a b c, extends a b -> extends b c -> extends a c.
Proof.
  intros a b c [A1 A2 A3 A4 A5 A6 A7] [B1 B2 B3 B4 B5 B6 B7]. constructor; try congruence; auto. lia.
Qed.

Lemma extends_open : forall s p s' r, svc_open s p = (s', r) -> extends s s'.
Proof.
  intros s p s' r H. destruct (svc_open_spec _ _ _ _ H) as (A1 & A2 & A3 & A4 & A5 & A6 & A7 & A8 & _).
  constructor; try assumption.
  - intros f q p0. unfold owes, owes_dial, owes_sub, owes_fut. rewrite A2, A4, A5. tauto.
  - intros [F1 F2]. split.
    + intros p0 acts sid a. rewrite A2. intros H1 H2. specialize (F1 _ _ _ _ H1 H2). lia.
    + intros sid p0. rewrite A3. intro H1. specialize (F2 _ _ H1). lia.
  - intros _ Hl p0 acts sid a. rewrite A2, A3. apply Hl.
Qed.

Lemma extends_track : forall s p a,
  sids_fresh s -> let s0 := w_nsid s (nsid s + 1) in extends s (track_sub s0 p (nsid s) a) /\
                  owes (track_sub s0 p (nsid s) a) (find_act a) (a_q a) p.
Proof.
  intros s p a [F1 F2] s0.
  assert (N0 : nsid s0 = nsid s + 1) by reflexivity.
  assert (P0 : peers s0 = peers s) by reflexivity.
  assert (S0 : psub s0 = psub s) by reflexivity.
  assert (E0 : eng s0 = eng s) by reflexivity.
  assert (C0 : conn s0 = conn s) by reflexivity.
  assert (M0 : mgr s0 = mgr s) by reflexivity.
  assert (O0 : forall f q p0, owes s f q p0 -> owes s0 f q p0).
  { intros f q p0 H. unfold owes, owes_dial, owes_sub, owes_fut in *. exact H. }
  clearbody s0.
  assert (Hf : forall acts a', aget p (peers s0) = Some acts -> aget (nsid s) acts = Some a' -> False).
  { intros acts a' H1 H2. rewrite P0 in H1. specialize (F1 _ _ _ _ H1 H2). lia. }
  destruct (track_sub_spec s0 p (nsid s) a Hf) as (A1 & A2 & A3 & A4 & A5 & A6 & A7 & A8 & A9 & A10 & A11 & A12).
  split; [| exact A8]. constructor.
  - rewrite A1. exact E0.
  - intros f q p0 H. apply A7. apply O0. exact H.
  - intros _. split.
    + intros p0 acts sid a' H1 H2. rewrite A2, N0.
      destruct (A9 _ _ _ _ H1 H2) as [(_ & E & _) | (acts0 & H3 & H4)]; [lia |].
      rewrite P0 in H3. specialize (F1 _ _ _ _ H3 H4). lia.
    + intros sid p0 H. rewrite A2, N0.
      destruct (A10 _ _ H) as [[E _] | H3]; [lia |]. rewrite S0 in H3. specialize (F2 _ _ H3). lia.
  - intros _ Hl p0 acts sid a' H1 H2.
    destruct (A9 _ _ _ _ H1 H2) as [(E1 & E2 & _) | (acts0 & H3 & H4)].
    + subst. exact A11.
    + rewrite P0 in H3. apply A12.
      * specialize (F1 _ _ _ _ H3 H4). lia.
      * rewrite S0. eapply Hl; eassumption.
  - rewrite A3. exact C0.
  - rewrite A4. exact M0.
  - rewrite A2, N0. lia.
Qed.

Lemma extends_push_dial : forall s p a,
  extends s (push_dial s p a) /\ owes (push_dial s p a) (find_act a) (a_q a) p.
Proof.
  intros s p a. split.
  - constructor; [reflexivity | | intro H; exact H | intros _ H; exact H | reflexivity | reflexivity
                  | unfold push_dial; proj; lia].
    intros f q p0 [H | [H | H]]; [| right; left; exact H | right; right; exact H].
    left. destruct H as (acts & a0 & H1 & H2 & H3 & H4). unfold owes_dial, push_dial. cbn [pdial w_pdial].
    destruct (N.eq_dec p0 p) as [E | E].
    + subst p0. rewrite H1. exists (acts ++ [a]), a0. rewrite aget_aset_same.
      split; [reflexivity |]. split; [apply in_or_app; left; exact H2 | tauto].
    + exists acts, a0. rewrite aget_aset_other by exact E. tauto.
  - left. unfold owes_dial, push_dial. cbn [pdial w_pdial].
    exists ((match aget p (pdial s) with Some l => l | None => [] end) ++ [a]), a.
    rewrite aget_aset_same. split; [reflexivity |]. split; [apply in_or_app; right; left; reflexivity | tauto].
Qed.

Lemma open_or_dial_spec : forall s p a s' ok,
  sids_fresh s -> open_or_dial s p a = (s', ok) ->
  extends s s' /\ (ok = true -> owes s' (find_act a) (a_q a) p).
Proof.
  intros s p a s' ok Hf. unfold open_or_dial.
  destruct (svc_open s p) as [s1 r] eqn:E1.
  pose proof (extends_open _ _ _ _ E1) as X1.
  destruct (svc_open_spec _ _ _ _ E1) as (B1 & B2 & B3 & B4 & B5 & B6 & B7 & B8 & B9).
  destruct r as [sid |].
  - intro H. inversion H. subst s' ok. clear H. destruct (B9 sid eq_refl) as [Es En].
    assert (s1 = w_nsid s (nsid s + 1)) as ->.
    { unfold svc_open in E1. destruct (aget p (conn s)) as [[|] |]; inversion E1; reflexivity. }
    subst sid. destruct (extends_track s p a Hf) as [X2 O2]. split; [exact X2 | intros _; exact O2].
  - destruct (svc_dial s1 p).
    + intro H. inversion H. subst s' ok. destruct (extends_push_dial s1 p a) as [X2 O2].
      split; [eapply extends_trans; eassumption | intros _; exact O2].
    + destruct (svc_open s1 p) as [s2 r2] eqn:E2.
      pose proof (extends_open _ _ _ _ E2) as X2.
      destruct (svc_open_spec _ _ _ _ E2) as (C1 & C2 & C3 & C4 & C5 & C6 & C7 & C8 & C9).
      destruct r2 as [sid |].
      * intro H. inversion H. subst s' ok. clear H. destruct (C9 sid eq_refl) as [Es En].
        assert (s2 = w_nsid s1 (nsid s1 + 1)) as ->.
        { unfold svc_open in E2. destruct (aget p (conn s1)) as [[|] |]; inversion E2; reflexivity. }
        subst sid. destruct (extends_track s1 p a (ex_fresh _ _ X1 Hf)) as [X3 O3].
        split; [eapply extends_trans; eassumption | intros _; exact O3].
      * intro H. inversion H. subst s' ok. split; [eapply extends_trans; eassumption | discriminate].
    + intro H. inversion H. subst s' ok. split; [exact X1 | discriminate].
Qed.

Lemma covered_extends : forall s s' X, extends s s' -> covered s X -> covered s' X.
Proof.
  intros s s' X E C q x p A B. rewrite (ex_eng _ _ E) in A.
  destruct (C q x p A B) as [C1 | C1]; [left; apply (ex_owes _ _ E); exact C1 | right; exact C1].
Qed.

Lemma live_extends : forall s s', eng s' = eng s -> lookups_live s -> lookups_live s'.
Proof. intros s s' E H q x. rewrite E. apply H. Qed.

(* ------------------------------------------------------------------ generic engine updates *)

Lemma covered_add : forall s k q p X,
  owes s k q p -> covered s ((k, (q, p)) :: X) -> covered s X.
Proof.
  intros s k q p X O C q' x' p' A B. destruct (C q' x' p' A B) as [C1 | [C1 | C1]].
  - left. exact C1.
  - injection C1 as E1 E2 E3. subst. left. exact O.
  - right. exact C1.
Qed.

Lemma covered_upd : forall s q f X Y k p,
  lookups_live s ->
  (forall x, qlive x ->
     is_track (f x) = is_track x /\ qlive (f x) /\
     (forall p', In p' (waiting (f x)) -> In p' (waiting x)) /\
     (negb (is_track x) = k -> ~ In p (waiting (f x)))) ->
  (forall z, In z X -> In z Y \/ z = (k, (q, p))) ->
  covered s X -> covered (upd_q s q f) Y /\ lookups_live (upd_q s q f).
Proof.
  intros s q f X Y k p Hl Hf HX C. split.
  - intros q' x' p' A B. rewrite upd_q_get in A. destruct (N.eqb_spec q' q) as [E | E].
    + subst q'. destruct (aget q (eng s)) as [x0 |] eqn:E0; cbn [option_map] in A; [| discriminate].
      inversion A. subst x'. clear A. destruct (Hf x0 (Hl _ _ E0)) as (F1 & F2 & F3 & F4).
      rewrite F1. destruct (C q x0 p' E0 (F3 _ B)) as [C1 | C1].
      * left. eapply owes_glue; [apply upd_q_glue | exact C1].
      * destruct (HX _ C1) as [H | H]; [right; exact H |]. injection H as E1 E3. subst p'.
        exfalso. apply F4; [exact E1 | exact B].
    + destruct (C q' x' p' A B) as [C1 | C1].
      * left. eapply owes_glue; [apply upd_q_glue | exact C1].
      * destruct (HX _ C1) as [H | H]; [right; exact H |]. inversion H. congruence.
  - intros q' x'. rewrite upd_q_get. destruct (q' =? q); [| apply Hl].
    destruct (aget q' (eng s)) as [x0 |] eqn:E0; cbn [option_map]; [| discriminate].
    intro H. inversion H. subst x'. apply (Hf x0 (Hl _ _ E0)).
Qed.

Lemma covered_upd_mono : forall s q f X,
  lookups_live s ->
  (forall x, qlive x ->
     is_track (f x) = is_track x /\ qlive (f x) /\
     (forall p', In p' (waiting (f x)) -> In p' (waiting x))) ->
  covered s X -> covered (upd_q s q f) X /\ lookups_live (upd_q s q f).
Proof.
  intros s q f X Hl Hf C. split.
  - intros q' x' p' A B. rewrite upd_q_get in A. destruct (N.eqb_spec q' q) as [E | E].
    + subst q'. destruct (aget q (eng s)) as [x0 |] eqn:E0; cbn [option_map] in A; [| discriminate].
      inversion A. subst x'. clear A. destruct (Hf x0 (Hl _ _ E0)) as (F1 & F2 & F3).
      rewrite F1. destruct (C q x0 p' E0 (F3 _ B)) as [C1 | C1]; [| right; exact C1].
      left. eapply owes_glue; [apply upd_q_glue | exact C1].
    + destruct (C q' x' p' A B) as [C1 | C1]; [| right; exact C1].
      left. eapply owes_glue; [apply upd_q_glue | exact C1].
  - intros q' x'. rewrite upd_q_get. destruct (q' =? q); [| apply Hl].
    destruct (aget q' (eng s)) as [x0 |] eqn:E0; cbn [option_map]; [| discriminate].
    intro H. inversion H. subst x'. apply (Hf x0 (Hl _ _ E0)).
Qed.

Lemma f_send_fail : forall p x, qlive x ->
  is_track (q_send_fail p x) = is_track x /\ qlive (q_send_fail p x) /\
  (forall p', In p' (waiting (q_send_fail p x)) -> In p' (waiting x)) /\
  (negb (is_track x) = false -> ~ In p (waiting (q_send_fail p x))).
Proof.
  intros p [lk qr c ls | qr ps | pv pd n need] Hl; cbn [q_send_fail is_track qlive waiting negb] in *;
    repeat split; try apply Hl; auto; try discriminate.
  - intros p' H. apply nremove_In in H. apply H.
  - intros _ H. apply nremove_In in H. destruct H as [_ H]. congruence.
Qed.

Lemma f_send_ok : forall p x, qlive x ->
  is_track (q_send_ok p x) = is_track x /\ qlive (q_send_ok p x) /\
  (forall p', In p' (waiting (q_send_ok p x)) -> In p' (waiting x)) /\
  (negb (is_track x) = false -> ~ In p (waiting (q_send_ok p x))).
Proof.
  intros p [lk qr c ls | qr ps | pv pd n need] Hl; cbn [q_send_ok is_track qlive waiting negb] in *;
    try (repeat split; try apply Hl; auto; discriminate).
  destruct (nmem p pd) eqn:E; cbn [is_track qlive waiting]; repeat split; auto.
  - intros p' H. apply nremove_In in H. apply H.
  - intros _ H. apply nremove_In in H. destruct H as [_ H]. congruence.
  - intros _ H. apply nmem_In in H. congruence.
Qed.

Lemma f_resp_fail : forall p x, qlive x ->
  is_track (q_resp_fail p x) = is_track x /\ qlive (q_resp_fail p x) /\
  (forall p', In p' (waiting (q_resp_fail p x)) -> In p' (waiting x)) /\
  (negb (is_track x) = true -> ~ In p (waiting (q_resp_fail p x))).
Proof.
  intros p [lk qr c ls | qr ps | pv pd n need] Hl; cbn [q_resp_fail is_track qlive waiting negb] in *;
    try (repeat split; auto; discriminate).
  - destruct Hl as [Hl Ha]. repeat split.
    + rewrite on_failure_done. exact Hl.
    + exact Ha.
    + intros p' H. apply (on_failure_pend _ _ _ _ Hl H).
    + intros _ H. apply (on_failure_pend _ _ _ _ Hl) in H. destruct H as [_ H]. congruence.
Qed.

Lemma f_response : forall p m x, qlive x ->
  is_track (q_response p m x) = is_track x /\ qlive (q_response p m x) /\
  (forall p', In p' (waiting (q_response p m x)) -> In p' (waiting x)) /\
  (negb (is_track x) = true -> ~ In p (waiting (q_response p m x))).
Proof.
  intros p m [lk qr c ls | qr ps | pv pd n need] Hl; cbn [q_response is_track qlive waiting negb] in *;
    try (repeat split; auto; discriminate).
  - destruct Hl as [Hl Ha].
    assert (R : forall r, (L.done (L.on_response c ls p r) = false /\ 1 <= L.c_alpha c) /\
                (forall p', In p' (map fst (L.pend (L.on_response c ls p r))) -> In p' (map fst (L.pend ls))) /\
                ~ In p (map fst (L.pend (L.on_response c ls p r)))).
    { intro r. rewrite on_response_done. split; [split; [exact Hl | exact Ha] |]. split.
      - intros p' H. apply (on_response_pend _ _ _ _ _ Hl H).
      - intro H. apply (on_response_pend _ _ _ _ _ Hl) in H. destruct H as [_ H]. congruence. }
    assert (F : (L.done (L.on_failure c ls p) = false /\ 1 <= L.c_alpha c) /\
                (forall p', In p' (map fst (L.pend (L.on_failure c ls p))) -> In p' (map fst (L.pend ls))) /\
                ~ In p (map fst (L.pend (L.on_failure c ls p)))).
    { rewrite on_failure_done. split; [split; [exact Hl | exact Ha] |]. split.
      - intros p' H. apply (on_failure_pend _ _ _ _ Hl H).
      - intro H. apply (on_failure_pend _ _ _ _ Hl) in H. destruct H as [_ H]. congruence. }
    destruct lk, m; cbn [is_track qlive waiting]; (split; [reflexivity |]);
      first [ destruct (R (L.mkReply ps None [])) as (R1 & R2 & R3); split; [exact R1 | split; [exact R2 | intros _; exact R3]]
            | destruct (R (L.mkReply ps rec [])) as (R1 & R2 & R3); split; [exact R1 | split; [exact R2 | intros _; exact R3]]
            | destruct (R (L.mkReply ps None provs)) as (R1 & R2 & R3); split; [exact R1 | split; [exact R2 | intros _; exact R3]]
            | destruct F as (R1 & R2 & R3); split; [exact R1 | split; [exact R2 | intros _; exact R3]] ].
Qed.

Lemma mono_of : forall (f : qstate -> qstate) (k : bool) (p : N),
  (forall x, qlive x ->
     is_track (f x) = is_track x /\ qlive (f x) /\
     (forall p', In p' (waiting (f x)) -> In p' (waiting x)) /\
     (negb (is_track x) = k -> ~ In p (waiting (f x)))) ->
  forall x, qlive x ->
     is_track (f x) = is_track x /\ qlive (f x) /\
     (forall p', In p' (waiting (f x)) -> In p' (waiting x)).
Proof. intros f k p H x Hx. destruct (H x Hx) as (A & B & C & _). tauto. Qed.

(* ------------------------------------------------------------------ the handlers keep the invariant *)

Lemma fresh_glue : forall s s', same_glue s s' -> sids_fresh s -> sids_fresh s'.
Proof. intros s s' (A1 & A2 & A3 & A4 & A5 & _) [F1 F2]. unfold sids_fresh. rewrite A1, A2, A5. split; assumption. Qed.

Lemma linked_glue : forall s s', same_glue s s' -> linked s -> linked s'.
Proof. intros s s' (A1 & A2 & _) H. unfold linked. rewrite A1, A2. exact H. Qed.

Definition kact (p : N) (a : pact) : bool * (N * N) := (find_act a, (a_q a, p)).

Lemma fold_fail_spec : forall p acts s X,
  lookups_live s -> covered s (map (kact p) acts ++ X) ->
  let s' := fold_left (fun acc a => eng_fail acc (a_q a) p) acts s in
  lookups_live s' /\ covered s' X /\ same_glue s s'.
Proof.
  intros p acts. induction acts as [| a t IH]; intros s X Hl C; cbn [fold_left map app] in *.
  - split; [exact Hl |]. split; [exact C | apply same_glue_refl].
  - assert (C1 : covered (eng_fail s (a_q a) p) (map (kact p) t ++ X)).
    { eapply covered_eng_fail; [exact Hl | | exact C]. intros z [Hz | Hz]; [right; subst z; reflexivity | left; exact Hz]. }
    destruct (IH _ X (eng_fail_live _ _ _ Hl) C1) as (I1 & I2 & I3).
    split; [exact I1 |]. split; [exact I2 |]. eapply same_glue_trans; [apply eng_fail_glue | exact I3].
Qed.

Record GI (s : st) : Prop := mkGI {
  gi_live : lookups_live s;
  gi_cov : covered s [];
  gi_fresh : sids_fresh s
}.

(* taking pending_dials[p] out of the map *)
Lemma take_dials : forall s p acts X,
  aget p (pdial s) = Some acts -> covered s X ->
  covered (w_pdial s (adel p (pdial s))) (map (kact p) acts ++ X).
Proof.
  intros s p acts X Hd C q x p0 A B. proj. destruct (C q x p0 A B) as [[O | [O | O]] | C1].
  - destruct O as (acts0 & a0 & H1 & H2 & H3 & H4). destruct (N.eq_dec p0 p) as [E | E].
    + subst p0. rewrite Hd in H1. inversion H1. subst acts0. right. apply in_or_app. left.
      apply in_map_iff. exists a0. split; [| exact H2]. unfold kact. rewrite H3, H4. reflexivity.
    + left. left. exists acts0, a0. proj. rewrite aget_adel_other by exact E. tauto.
  - left. right. left. exact O.
  - left. right. right. exact O.
  - right. apply in_or_app. right. exact C1.
Qed.

Lemma on_dial_failure_GI : forall s p, GI s -> GI (on_dial_failure s p).
Proof.
  intros s p [Hl Hc Hf]. unfold on_dial_failure. destruct (aget p (pdial s)) as [acts |] eqn:E; [| constructor; assumption].
  pose proof (take_dials s p acts [] E Hc) as C1.
  destruct (fold_fail_spec p acts (w_pdial s (adel p (pdial s))) [] Hl C1) as (I1 & I2 & I3).
  constructor; [exact I1 | exact I2 |]. eapply fresh_glue; [exact I3 | exact Hf].
Qed.

Lemma on_dial_failure_linked : forall s p, linked s -> linked (on_dial_failure s p).
Proof.
  intros s p H. unfold on_dial_failure. destruct (aget p (pdial s)) as [acts |] eqn:E; [| exact H].
  assert (G : forall acts s0, linked s0 -> linked (fold_left (fun acc a => eng_fail acc (a_q a) p) acts s0)).
  { induction acts0 as [| a t IH]; intros s0 H0; cbn [fold_left]; [exact H0 |].
    apply IH. eapply linked_glue; [apply eng_fail_glue | exact H0]. }
  apply G. exact H.
Qed.

(* the loop of on_connection_established *)
Definition est_step (p : N) (acc : st) (a : pact) : st :=
  let '(s2, r) := svc_open acc p in
  match r with Some sid => track_sub s2 p sid a | None => eng_fail s2 (a_q a) p end.

Lemma est_fold_spec : forall p acts s X,
  lookups_live s -> sids_fresh s -> covered s (map (kact p) acts ++ X) ->
  let s' := fold_left (est_step p) acts s in
  lookups_live s' /\ covered s' X /\ sids_fresh s' /\ (linked s -> linked s') /\
  conn s' = conn s /\ mgr s' = mgr s.
Proof.
  intros p acts. induction acts as [| a t IH]; intros s X Hl Hf C; cbn [fold_left map app] in *.
  - refine (conj Hl (conj C (conj Hf (conj (fun H => H) (conj eq_refl eq_refl))))).
  - destruct (svc_open s p) as [s2 r] eqn:E1.
    assert (ES : est_step p s a = match r with Some sid => track_sub s2 p sid a
                                             | None => eng_fail s2 (a_q a) p end).
    { unfold est_step. rewrite E1. reflexivity. }
    rewrite ES. clear ES.
    pose proof (extends_open _ _ _ _ E1) as X1.
    destruct (svc_open_spec _ _ _ _ E1) as (B1 & B2 & B3 & B4 & B5 & B6 & B7 & B8 & B9).
    destruct r as [sid |].
    + destruct (B9 sid eq_refl) as [Es En].
      assert (s2 = w_nsid s (nsid s + 1)) as ->.
      { unfold svc_open in E1. destruct (aget p (conn s)) as [[|] |]; inversion E1; reflexivity. }
      subst sid. destruct (extends_track s p a Hf) as [X2 O2].
      set (s3 := track_sub (w_nsid s (nsid s + 1)) p (nsid s) a) in *.
      assert (C3 : covered s3 (map (kact p) t ++ X)).
      { eapply covered_add; [exact O2 |]. eapply covered_extends; [exact X2 | exact C]. }
      destruct (IH s3 X (live_extends _ _ (ex_eng _ _ X2) Hl) (ex_fresh _ _ X2 Hf) C3) as (I1 & I2 & I3 & I4 & I5 & I6).
      refine (conj I1 (conj I2 (conj I3 (conj _ (conj _ _))))).
      * intro Hk. apply I4. apply (ex_linked _ _ X2 Hf Hk).
      * rewrite I5. apply (ex_conn _ _ X2).
      * rewrite I6. apply (ex_mgr _ _ X2).
    + assert (Hl2 : lookups_live s2) by (eapply live_extends; [exact B1 | exact Hl]).
      assert (C2 : covered (eng_fail s2 (a_q a) p) (map (kact p) t ++ X)).
      { eapply covered_eng_fail; [exact Hl2 | | eapply covered_extends; [exact X1 | exact C]].
        intros z [Hz | Hz]; [right; subst z; reflexivity | left; exact Hz]. }
      assert (Hf2 : sids_fresh (eng_fail s2 (a_q a) p)).
      { eapply fresh_glue; [apply eng_fail_glue | apply (ex_fresh _ _ X1 Hf)]. }
      destruct (IH _ X (eng_fail_live _ _ _ Hl2) Hf2 C2) as (I1 & I2 & I3 & I4 & I5 & I6).
      destruct (eng_fail_glue s2 (a_q a) p) as (G1 & G2 & G3 & G4 & G5 & G6 & G7).
      refine (conj I1 (conj I2 (conj I3 (conj _ (conj _ _))))).
      * intro Hk. apply I4. eapply linked_glue; [apply eng_fail_glue |]. apply (ex_linked _ _ X1 Hf Hk).
      * rewrite I5, G6. exact B6.
      * rewrite I6, G7. exact B7.
Qed.

Lemma on_connection_established_GI : forall s p, GI s ->
  GI (on_connection_established s p) /\ (linked s -> linked (on_connection_established s p)).
Proof.
  intros s p [Hl Hc Hf]. unfold on_connection_established.
  destruct (aget p (peers s)) as [old |] eqn:Ep; [split; [constructor; assumption | auto] |].
  destruct (aget p (pdial s)) as [acts |] eqn:Ed; [| split; [constructor; assumption | auto]].
  set (s1 := w_peers (w_pdial s (adel p (pdial s))) (aset p [] (peers s))).
  assert (C1 : covered s1 (map (kact p) acts ++ [])).
  { pose proof (take_dials s p acts [] Ed Hc) as C0.
    intros q x p0 A B. destruct (C0 q x p0 A B) as [[O | [O | O]] | C2]; [| | | right; exact C2].
    - left. left. exact O.
    - left. right. left. destruct O as (acts0 & sid & a0 & H1 & H2 & H3). proj_in H1.
      exists acts0, sid, a0. subst s1. proj. destruct (N.eq_dec p0 p) as [E | E].
      + subst p0. rewrite Ep in H1. discriminate.
      + rewrite aget_aset_other by exact E. tauto.
    - left. right. right. exact O. }
  assert (Hf1 : sids_fresh s1).
  { destruct Hf as [F1 F2]. split; [| exact F2]. intros p0 acts0 sid a0. subst s1. proj.
    destruct (N.eq_dec p0 p) as [E | E].
    - subst p0. rewrite aget_aset_same. intro H. inversion H. subst acts0. discriminate.
    - rewrite aget_aset_other by exact E. apply F1. }
  assert (Hk1 : linked s -> linked s1).
  { intros Hk p0 acts0 sid a0. subst s1. proj. destruct (N.eq_dec p0 p) as [E | E].
    - subst p0. rewrite aget_aset_same. intro H. inversion H. subst acts0. discriminate.
    - rewrite aget_aset_other by exact E. apply Hk. }
  destruct (est_fold_spec p acts s1 [] Hl Hf1 C1) as (I1 & I2 & I3 & I4 & _).
  split; [constructor; assumption | intro Hk; apply I4; apply Hk1; exact Hk].
Qed.

(* ---- disconnect_peer ---- *)
Definition kpair (p : N) (x : N * pact) : bool * (N * N) := kact p (snd x).

Lemma take_peer : forall s p acts X,
  aget p (peers s) = Some acts -> covered s X ->
  covered (w_peers s (adel p (peers s))) (map (kpair p) acts ++ X).
Proof.
  intros s p acts X Hp C q x p0 A B. proj. destruct (C q x p0 A B) as [[O | [O | O]] | C1].
  - left. left. exact O.
  - destruct O as (acts0 & sid & a0 & H1 & H2 & H3 & H4). destruct (N.eq_dec p0 p) as [E | E].
    + subst p0. rewrite Hp in H1. inversion H1. subst acts0. right. apply in_or_app. left.
      apply in_map_iff. exists (sid, a0). split; [| apply aget_In; exact H2].
      unfold kpair, kact. cbn [snd]. rewrite H3, H4. reflexivity.
    + left. right. left. exists acts0, sid, a0. proj. rewrite aget_adel_other by exact E. tauto.
  - left. right. right. exact O.
  - right. apply in_or_app. right. exact C1.
Qed.

Definition disc_step (p : N) (qo : option N) (acc : st) (x : N * pact) : st :=
  if opt_is qo (a_q (snd x)) then acc else eng_fail acc (a_q (snd x)) p.

Lemma disc_fold_spec : forall p qo acts s X,
  lookups_live s -> covered s (map (kpair p) acts ++ X) ->
  (forall q, qo = Some q -> not_waiting s q p) ->
  let s' := fold_left (disc_step p qo) acts s in
  lookups_live s' /\ covered s' X /\ same_glue s s'.
Proof.
  intros p qo acts. induction acts as [| [sid a] t IH]; intros s X Hl C Hn; cbn [fold_left map app] in *.
  - split; [exact Hl |]. split; [exact C | apply same_glue_refl].
  - assert (ES : disc_step p qo s (sid, a) = if opt_is qo (a_q a) then s else eng_fail s (a_q a) p) by reflexivity.
    rewrite ES. clear ES. destruct (opt_is qo (a_q a)) eqn:Eo.
    + apply IH; [exact Hl | | exact Hn]. unfold kpair, kact in C. cbn [snd] in C.
      destruct qo as [q |]; [| discriminate]. cbn [opt_is] in Eo. apply N.eqb_eq in Eo. subst q.
      eapply covered_drop; [| exact C]. apply Hn. reflexivity.
    + assert (C1 : covered (eng_fail s (a_q a) p) (map (kpair p) t ++ X)).
      { eapply covered_eng_fail; [exact Hl | | exact C].
        intros z [Hz | Hz]; [right; subst z; reflexivity | left; exact Hz]. }
      destruct (IH _ X (eng_fail_live _ _ _ Hl) C1) as (I1 & I2 & I3).
      { intros q Hq. apply not_waiting_eng_fail; [exact Hl | apply Hn; exact Hq]. }
      split; [exact I1 |]. split; [exact I2 |]. eapply same_glue_trans; [apply eng_fail_glue | exact I3].
Qed.

Lemma disconnect_spec : forall s p qo X,
  lookups_live s -> covered s X ->
  (forall z, In z X -> exists q, qo = Some q /\ snd z = (q, p)) ->
  let s' := disconnect_peer s p qo in
  lookups_live s' /\ covered s' [] /\
  aget p (peers s') = None /\ (forall p0, p0 <> p -> aget p0 (peers s') = aget p0 (peers s)) /\
  psub s' = psub s /\ pdial s' = pdial s /\ futs s' = futs s /\ nsid s' = nsid s /\
  conn s' = conn s /\ mgr s' = mgr s.
Proof.
  intros s p qo X Hl C HX. unfold disconnect_peer.
  set (s1 := match qo with Some q => eng_fail s q p | None => s end).
  assert (G1 : same_glue s s1).
  { subst s1. destruct qo; [apply eng_fail_glue | apply same_glue_refl]. }
  assert (Hl1 : lookups_live s1).
  { subst s1. destruct qo; [apply eng_fail_live; exact Hl | exact Hl]. }
  assert (C1 : covered s1 []).
  { subst s1. destruct qo as [q |].
    - eapply covered_eng_fail; [exact Hl | | exact C]. intros z Hz. right.
      destruct (HX z Hz) as (q' & E1 & E2). inversion E1. subst q'. exact E2.
    - intros q x p0 A B. destruct (C q x p0 A B) as [O | O]; [left; exact O |].
      destruct (HX _ O) as (q' & E1 & _). discriminate. }
  assert (Hn1 : forall q, qo = Some q -> not_waiting s1 q p).
  { intros q Hq. subst s1. rewrite Hq. apply eng_fail_not_waiting. exact Hl. }
  destruct G1 as (A1 & A2 & A3 & A4 & A5 & A6 & A7).
  fold (disc_step p qo).
  destruct (aget p (peers s1)) as [acts |] eqn:Ep.
  - pose proof (take_peer s1 p acts [] Ep C1) as C2.
    destruct (disc_fold_spec p qo acts (w_peers s1 (adel p (peers s1))) [] Hl1 C2 Hn1) as (I1 & I2 & I3).
    destruct I3 as (B1 & B2 & B3 & B4 & B5 & B6 & B7). proj_in B1. proj_in B2. proj_in B3. proj_in B4. proj_in B5. proj_in B6. proj_in B7.
    split; [exact I1 |]. split; [exact I2 |]. rewrite B1, B2, B3, B4, B5, B6, B7, A1.
    split; [apply aget_adel_same |]. split; [intros p0 E; apply aget_adel_other; exact E |].
    repeat split; assumption.
  - split; [exact Hl1 |]. split; [exact C1 |]. split; [exact Ep |]. split; [intros p0 _; rewrite A1; reflexivity |].
    repeat split; assumption.
Qed.

Lemma disconnect_fresh : forall s p qo, sids_fresh s -> sids_fresh (disconnect_peer s p qo).
Proof.
  intros s p qo [F1 F2].
  assert (G : forall s0, (forall p0 acts, aget p0 (peers (disconnect_peer s0 p qo)) = Some acts -> aget p0 (peers s0) = Some acts) /\
                         psub (disconnect_peer s0 p qo) = psub s0 /\ nsid (disconnect_peer s0 p qo) = nsid s0).
  { intro s0. unfold disconnect_peer.
    set (s1 := match qo with Some q => eng_fail s0 q p | None => s0 end).
    assert (G1 : same_glue s0 s1) by (subst s1; destruct qo; [apply eng_fail_glue | apply same_glue_refl]).
    destruct G1 as (A1 & A2 & A3 & A4 & A5 & A6 & A7). fold (disc_step p qo).
    destruct (aget p (peers s1)) as [acts |] eqn:Ep.
    - assert (D : forall acts s2, same_glue s2 (fold_left (disc_step p qo) acts s2)).
      { induction acts0 as [| x t IH]; intro s2; cbn [fold_left]; [apply same_glue_refl |].
        eapply same_glue_trans; [| apply IH]. unfold disc_step. destruct (opt_is qo (a_q (snd x))); [apply same_glue_refl | apply eng_fail_glue]. }
      destruct (D acts (w_peers s1 (adel p (peers s1)))) as (B1 & B2 & _ & _ & B5 & _). proj_in B1. proj_in B2. proj_in B5.
      rewrite B1, B2, B5, A1, A2, A5. split; [| split; reflexivity].
      intros p0 acts0. destruct (N.eq_dec p0 p) as [E | E].
      + subst p0. rewrite aget_adel_same. discriminate.
      + rewrite aget_adel_other by exact E. auto.
    - rewrite A1, A2, A5. split; [auto | split; reflexivity]. }
  destruct (G s) as (G1 & G2 & G3). split.
  - intros p0 acts sid a H1 H2. rewrite G3. eapply F1; [apply G1; exact H1 | exact H2].
  - intros sid p0. rewrite G2, G3. apply F2.
Qed.

Lemma disconnect_linked : forall s p qo, linked s -> linked (disconnect_peer s p qo).
Proof.
  intros s p qo Hk.
  assert (G : (forall p0 acts, aget p0 (peers (disconnect_peer s p qo)) = Some acts -> aget p0 (peers s) = Some acts) /\
              psub (disconnect_peer s p qo) = psub s).
  { unfold disconnect_peer.
    set (s1 := match qo with Some q => eng_fail s q p | None => s end).
    assert (G1 : same_glue s s1) by (subst s1; destruct qo; [apply eng_fail_glue | apply same_glue_refl]).
    destruct G1 as (A1 & A2 & A3 & A4 & A5 & A6 & A7). fold (disc_step p qo).
    destruct (aget p (peers s1)) as [acts |] eqn:Ep.
    - assert (D : forall acts s2, same_glue s2 (fold_left (disc_step p qo) acts s2)).
      { induction acts0 as [| x t IH]; intro s2; cbn [fold_left]; [apply same_glue_refl |].
        eapply same_glue_trans; [| apply IH]. unfold disc_step. destruct (opt_is qo (a_q (snd x))); [apply same_glue_refl | apply eng_fail_glue]. }
      destruct (D acts (w_peers s1 (adel p (peers s1)))) as (B1 & B2 & _). proj_in B1. proj_in B2.
      rewrite B1, B2, A1, A2. split; [| reflexivity].
      intros p0 acts0. destruct (N.eq_dec p0 p) as [E | E].
      + subst p0. rewrite aget_adel_same. discriminate.
      + rewrite aget_adel_other by exact E. auto.
    - rewrite A1, A2. split; [auto | reflexivity]. }
  destruct G as (G1 & G2). intros p0 acts sid a H1 H2. rewrite G2. eapply Hk; [apply G1; exact H1 | exact H2].
Qed.

Lemma disconnect_GI : forall s p, GI s -> GI (disconnect_peer s p None).
Proof.
  intros s p [Hl Hc Hf].
  destruct (disconnect_spec s p None [] Hl Hc) as (I1 & I2 & _); [intros z [] |].
  constructor; [exact I1 | exact I2 | apply disconnect_fresh; exact Hf].
Qed.

(* ---- substream events ---- *)
Lemma covered_drop_k : forall s k q p X,
  (forall x, aget q (eng s) = Some x -> negb (is_track x) = k -> ~ In p (waiting x)) ->
  covered s ((k, (q, p)) :: X) -> covered s X.
Proof.
  intros s k q p X Hn C q' x' p' A B. destruct (C q' x' p' A B) as [C1 | [C1 | C1]].
  - left. exact C1.
  - injection C1 as E1 E2 E3. subst. exfalso. eapply Hn; [exact A | reflexivity | exact B].
  - right. exact C1.
Qed.

Lemma add_fut_spec : forall s f,
  (forall k q p, owes s k q p -> owes (add_fut s f) k q p) /\
  (forall k q, f_q f = Some q -> fut_is k f = true -> owes (add_fut s f) k q (f_peer f)) /\
  eng (add_fut s f) = eng s /\ peers (add_fut s f) = peers s /\ psub (add_fut s f) = psub s /\
  nsid (add_fut s f) = nsid s.
Proof.
  intros s f. unfold add_fut. proj. repeat split.
  - intros k q p [O | [O | O]]; [left; exact O | right; left; exact O |].
    right. right. destruct O as (f0 & H1 & H2). exists f0. proj. split; [apply in_or_app; left; exact H1 | exact H2].
  - intros k q H1 H2. right. right. exists f. proj. split; [apply in_or_app; right; left; reflexivity | tauto].
Qed.

Lemma covered_add_fut : forall s f X, covered s X -> covered (add_fut s f) X.
Proof.
  intros s f X C q x p A B. destruct (add_fut_spec s f) as (M & _ & E & _). rewrite E in A.
  destruct (C q x p A B) as [O | O]; [left; apply M; exact O | right; exact O].
Qed.

Lemma fresh_sub : forall s s',
  nsid s' = nsid s ->
  (forall p0 acts sid a, aget p0 (peers s') = Some acts -> aget sid acts = Some a ->
     exists acts0, aget p0 (peers s) = Some acts0 /\ aget sid acts0 = Some a) ->
  (forall sid p0, aget sid (psub s') = Some p0 -> aget sid (psub s) = Some p0) ->
  sids_fresh s -> sids_fresh s'.
Proof.
  intros s s' En Hp Hs [F1 F2]. split.
  - intros p0 acts sid a H1 H2. destruct (Hp _ _ _ _ H1 H2) as (acts0 & H3 & H4). rewrite En. eapply F1; eassumption.
  - intros sid p0 H. rewrite En. eapply F2. apply Hs. exact H.
Qed.

Lemma aget_adel_some : forall A k k' (v : A) l, aget k' (adel k l) = Some v -> k' <> k /\ aget k' l = Some v.
Proof.
  intros A k k' v l H. destruct (N.eq_dec k' k) as [E | E].
  - subst k'. rewrite aget_adel_same in H. discriminate.
  - rewrite aget_adel_other in H by exact E. tauto.
Qed.

Lemma on_outbound_GI : forall s p sid, GI s -> GI (on_outbound_substream s p sid).
Proof.
  intros s p sid [Hl Hc Hf]. unfold on_outbound_substream.
  set (s1 := w_psub s (adel sid (psub s))).
  assert (Hf1 : sids_fresh s1).
  { apply (fresh_sub s s1); [reflexivity | | | exact Hf].
    - intros p0 acts sid0 a H1 H2. exists acts. tauto.
    - intros sid0 p0 H. subst s1. proj_in H. apply aget_adel_some in H. apply H. }
  assert (Hc1 : covered s1 []) by exact Hc.
  destruct (aget p (peers s1)) as [acts |] eqn:Ep; [| constructor; assumption].
  destruct (aget sid acts) as [a |] eqn:Ea; [| constructor; assumption].
  set (s2 := w_peers s1 (aset p (adel sid acts) (peers s1))).
  assert (C2 : covered s2 [kact p a]).
  { intros q x p0 A B. destruct (Hc1 q x p0 A B) as [[O | [O | O]] | []].
    - left. left. exact O.
    - destruct O as (acts0 & sid0 & a0 & H1 & H2 & H3 & H4). destruct (N.eq_dec p0 p) as [E | E].
      + subst p0. rewrite Ep in H1. inversion H1. subst acts0. destruct (N.eq_dec sid0 sid) as [E2 | E2].
        * subst sid0. rewrite Ea in H2. inversion H2. subst a0. right. left. unfold kact. rewrite H3, H4. reflexivity.
        * left. right. left. exists (adel sid acts), sid0, a0. subst s2. proj. rewrite aget_aset_same.
          rewrite aget_adel_other by exact E2. tauto.
      + left. right. left. exists acts0, sid0, a0. subst s2. proj. rewrite aget_aset_other by exact E. tauto.
    - left. right. right. exact O. }
  assert (Hf2 : sids_fresh s2).
  { apply (fresh_sub s1 s2); [reflexivity | | | exact Hf1].
    - intros p0 acts0 sid0 a0. subst s2. proj. destruct (N.eq_dec p0 p) as [E | E].
      + subst p0. rewrite aget_aset_same. intro H. inversion H. subst acts0. intro H2.
        apply aget_adel_some in H2. exists acts. tauto.
      + rewrite aget_aset_other by exact E. intros H1 H2. exists acts0. tauto.
    - intros sid0 p0 H. exact H. }
  assert (Hl2 : lookups_live s2) by exact Hl.
  assert (AddF : forall fk, fut_is (find_act a) (mkFut sid p (Some (a_q a)) fk) = true ->
                            GI (add_fut s2 (mkFut sid p (Some (a_q a)) fk))).
  { intros fk Hk. destruct (add_fut_spec s2 (mkFut sid p (Some (a_q a)) fk)) as (M & O & E1 & E2 & E3 & E4).
    constructor.
    - eapply live_extends; [exact E1 | exact Hl2].
    - eapply covered_add; [apply (O (find_act a) (a_q a) eq_refl Hk) |]. apply covered_add_fut. exact C2.
    - destruct Hf2 as [F1 F2]. split.
      + intros p0 acts0 sid0 a0. rewrite E2, E4. apply F1.
      + intros sid0 p0. rewrite E3, E4. apply F2. }
  destruct a as [[| |] q]; cbn [a_kind a_q] in *.
  - destruct (peer_wanted s2 q p) eqn:Ew.
    + apply AddF. reflexivity.
    + constructor; [exact Hl2 | | exact Hf2]. eapply covered_drop_k; [| exact C2].
      intros x A K. cbn [a_q] in A. unfold peer_wanted in Ew. rewrite A in Ew.
      destruct x as [lk qr c ls | qr ps | pv pd n need]; cbn [waiting].
      * apply LP.pmem_false. exact Ew.
      * intros [].
      * cbn in K. discriminate K.
  - apply AddF. reflexivity.
  - apply AddF. reflexivity.
Qed.

Lemma on_outbound_linked : forall s p sid,
  (aget sid (psub s) = Some p \/ aget sid (psub s) = None) ->
  linked s -> linked (on_outbound_substream s p sid).
Proof.
  intros s p sid Hfeas Hk. unfold on_outbound_substream.
  set (s1 := w_psub s (adel sid (psub s))).
  (* a pending action with this substream id can only sit at peer p *)
  assert (Own : forall p0 acts a, aget p0 (peers s) = Some acts -> aget sid acts = Some a -> p0 = p).
  { intros p0 acts a H1 H2. specialize (Hk _ _ _ _ H1 H2). destruct Hfeas as [H | H]; congruence. }
  assert (K1 : forall p0 acts sid0 a, aget p0 (peers s) = Some acts -> aget sid0 acts = Some a ->
                                      sid0 <> sid -> aget sid0 (psub s1) = Some p0).
  { intros p0 acts sid0 a H1 H2 E. subst s1. proj. rewrite aget_adel_other by exact E. eapply Hk; eassumption. }
  destruct (aget p (peers s1)) as [acts |] eqn:Ep.
  - destruct (aget sid acts) as [a |] eqn:Ea.
    + set (s2 := w_peers s1 (aset p (adel sid acts) (peers s1))).
      assert (K2 : linked s2).
      { intros p0 acts0 sid0 a0. subst s2. proj. destruct (N.eq_dec p0 p) as [E | E].
        - subst p0. rewrite aget_aset_same. intro H. inversion H. subst acts0. intro H2.
          apply aget_adel_some in H2. destruct H2 as [H2 H3]. eapply K1; [exact Ep | exact H3 | exact H2].
        - rewrite aget_aset_other by exact E. intros H1 H2. eapply K1; [exact H1 | exact H2 |].
          intro E2. subst sid0. apply E. eapply Own; eassumption. }
      assert (AddF : forall f, linked (add_fut s2 f)).
      { intro f. destruct (add_fut_spec s2 f) as (_ & _ & _ & E2 & E3 & _). unfold linked. rewrite E2, E3. exact K2. }
      destruct (a_kind a); [destruct (peer_wanted s2 (a_q a) p); [apply AddF | exact K2] | apply AddF | apply AddF].
    + intros p0 acts0 sid0 a0 H1 H2. eapply K1; [exact H1 | exact H2 |].
      intro E. subst sid0. assert (p0 = p) by (eapply Own; eassumption). subst p0.
      change (peers s1) with (peers s) in *. congruence.
  - intros p0 acts0 sid0 a0 H1 H2. eapply K1; [exact H1 | exact H2 |].
    intro E. subst sid0. assert (p0 = p) by (eapply Own; eassumption). subst p0.
    change (peers s1) with (peers s) in *. congruence.
Qed.

Lemma on_open_failure_GI : forall s sid, GI s ->
  GI (on_substream_open_failure s sid) /\ (linked s -> linked (on_substream_open_failure s sid)).
Proof.
  intros s sid [Hl Hc Hf]. unfold on_substream_open_failure.
  destruct (aget sid (psub s)) as [p |] eqn:Es; [| split; [constructor; assumption | auto]].
  set (s1 := w_psub s (adel sid (psub s))).
  assert (Hf1 : sids_fresh s1).
  { apply (fresh_sub s s1); [reflexivity | | | exact Hf].
    - intros p0 acts sid0 a H1 H2. exists acts. tauto.
    - intros sid0 p0 H. subst s1. proj_in H. apply aget_adel_some in H. apply H. }
  destruct (aget p (peers s1)) as [acts |] eqn:Ep.
  - set (s2 := w_peers s1 (aset p (adel sid acts) (peers s1))).
    set (X := match aget sid acts with Some a => [kact p a] | None => [] end).
    assert (C2 : covered s2 X).
    { intros q x p0 A B. destruct (Hc q x p0 A B) as [[O | [O | O]] | []].
      - left. left. exact O.
      - destruct O as (acts0 & sid0 & a0 & H1 & H2 & H3 & H4). destruct (N.eq_dec p0 p) as [E | E].
        + subst p0. change (peers s1) with (peers s) in Ep. rewrite Ep in H1. inversion H1. subst acts0.
          destruct (N.eq_dec sid0 sid) as [E2 | E2].
          * subst sid0. right. subst X. rewrite H2. left. unfold kact. rewrite H3, H4. reflexivity.
          * left. right. left. exists (adel sid acts), sid0, a0. subst s2. proj. rewrite aget_aset_same.
            rewrite aget_adel_other by exact E2. tauto.
        + left. right. left. exists acts0, sid0, a0. subst s2. proj. rewrite aget_aset_other by exact E. tauto.
      - left. right. right. exact O. }
    assert (Hf2 : sids_fresh s2).
    { apply (fresh_sub s1 s2); [reflexivity | | | exact Hf1].
      - intros p0 acts0 sid0 a0. subst s2. proj. destruct (N.eq_dec p0 p) as [E | E].
        + subst p0. rewrite aget_aset_same. intro H. inversion H. subst acts0. intro H2.
          apply aget_adel_some in H2. exists acts. tauto.
        + rewrite aget_aset_other by exact E. intros H1 H2. exists acts0. tauto.
      - intros sid0 p0 H. exact H. }
    destruct (disconnect_spec s2 p (option_map a_q (aget sid acts)) X Hl C2) as (I1 & I2 & _).
    { intros z Hz. subst X. destruct (aget sid acts) as [a |]; [| destruct Hz].
      destruct Hz as [Hz | []]. subst z. exists (a_q a). split; reflexivity. }
    split; [constructor; [exact I1 | exact I2 | apply disconnect_fresh; exact Hf2] |].
    intro Hk. apply disconnect_linked.
    intros p0 acts0 sid0 a0. subst s2 s1. proj. proj_in Ep. destruct (N.eq_dec p0 p) as [E | E].
    + subst p0. rewrite aget_aset_same. intro H. inversion H. subst acts0. intro H2.
      apply aget_adel_some in H2. destruct H2 as [H2 H3]. rewrite aget_adel_other by exact H2.
      eapply Hk; [exact Ep | exact H3].
    + rewrite aget_aset_other by exact E. intros H1 H2.
      assert (sid0 <> sid).
      { intro E2. subst sid0. specialize (Hk _ _ _ _ H1 H2). congruence. }
      rewrite aget_adel_other by assumption. eapply Hk; eassumption.
  - split; [constructor; assumption |]. intros Hk p0 acts0 sid0 a0 H1 H2. subst s1. proj.
    assert (sid0 <> sid).
    { intro E2. subst sid0. specialize (Hk _ _ _ _ H1 H2). assert (p0 = p) by congruence. subst p0.
      congruence. }
    rewrite aget_adel_other by assumption. eapply Hk; eassumption.
Qed.

Lemma on_inbound_GI : forall s p id, GI s ->
  GI (on_inbound_substream s p id) /\ (linked s -> linked (on_inbound_substream s p id)).
Proof.
  intros s p id [Hl Hc Hf]. unfold on_inbound_substream.
  set (s1 := match aget p (peers s) with Some _ => s | None => w_peers s (aset p [] (peers s)) end).
  assert (P1 : forall p0 acts sid a, aget p0 (peers s1) = Some acts -> aget sid acts = Some a ->
                                     aget p0 (peers s) = Some acts).
  { intros p0 acts sid a. subst s1. destruct (aget p (peers s)) eqn:E; [tauto |]. proj.
    destruct (N.eq_dec p0 p) as [E2 | E2].
    - subst p0. rewrite aget_aset_same. intro H. inversion H. subst acts. discriminate.
    - rewrite aget_aset_other by exact E2. tauto. }
  assert (E1 : eng s1 = eng s /\ psub s1 = psub s /\ nsid s1 = nsid s /\ pdial s1 = pdial s /\ futs s1 = futs s).
  { subst s1. destruct (aget p (peers s)); repeat split. }
  destruct E1 as (E1 & E2 & E3 & E4 & E5).
  assert (C1 : covered s1 []).
  { intros q x p0 A B. rewrite E1 in A. destruct (Hc q x p0 A B) as [[O | [O | O]] | []]; left.
    - left. unfold owes_dial. rewrite E4. exact O.
    - right. left. destruct O as (acts0 & sid & a0 & H1 & H2). exists acts0, sid, a0. split; [| exact H2].
      subst s1. destruct (aget p (peers s)) eqn:E; [exact H1 |]. proj.
      destruct (N.eq_dec p0 p) as [E6 | E6]; [subst p0; congruence |]. rewrite aget_aset_other by exact E6. exact H1.
    - right. right. unfold owes_fut. rewrite E5. exact O. }
  destruct (add_fut_spec s1 (mkFut id p None FInRead)) as (M & _ & G1 & G2 & G3 & G4).
  split.
  - constructor.
    + eapply live_extends; [rewrite G1; exact E1 | exact Hl].
    + apply covered_add_fut. exact C1.
    + destruct Hf as [F1 F2]. split.
      * intros p0 acts sid a. rewrite G2, G4, E3. intros H1 H2. eapply F1; [eapply P1; eassumption | exact H2].
      * intros sid p0. rewrite G3, G4, E2, E3. apply F2.
  - intros Hk p0 acts sid a. rewrite G2, G3, E2. intros H1 H2. eapply Hk; [eapply P1; eassumption | exact H2].
Qed.

(* ---- executor completions ---- *)
Lemma find_fut_In : forall id l f, find_fut id l = Some f -> In f l /\ f_id f = id.
Proof.
  intros id l f. induction l as [| h t IH]; [discriminate |]. cbn [find_fut].
  destruct (N.eqb_spec (f_id h) id) as [E | E]; intro H.
  - inversion H. subst h. split; [left; reflexivity | exact E].
  - destruct (IH H) as [I1 I2]. split; [right; exact I1 | exact I2].
Qed.

Lemma del_fut_In : forall id l x, In x l -> In x (del_fut id l) \/ find_fut id l = Some x.
Proof.
  intros id l x. induction l as [| h t IH]; [intros [] |]. cbn [del_fut find_fut In].
  destruct (N.eqb_spec (f_id h) id) as [E | E]; intros [H | H].
  - subst h. right. reflexivity.
  - left. exact H.
  - subst h. left. left. reflexivity.
  - destruct (IH H) as [I | I]; [left; right; exact I | right; exact I].
Qed.

Definition fut_exc (f : fut) : list (bool * (N * N)) :=
  match f_q f with
  | Some q => if fut_is true f then [(true, (q, f_peer f))]
              else if fut_is false f then [(false, (q, f_peer f))] else []
  | None => []
  end.

Lemma fut_is_excl : forall f, fut_is true f = true -> fut_is false f = false.
Proof. intro f. unfold fut_is. destruct (f_kind f); cbn; congruence. Qed.

Lemma take_fut : forall s id f X,
  find_fut id (futs s) = Some f -> covered s X ->
  covered (w_futs s (del_fut id (futs s))) (fut_exc f ++ X).
Proof.
  intros s id f X Hf C q x p A B. proj. destruct (C q x p A B) as [[O | [O | O]] | C1].
  - left. left. exact O.
  - left. right. left. exact O.
  - destruct O as (f0 & H1 & H2 & H3 & H4). destruct (del_fut_In id _ _ H1) as [D | D].
    + left. right. right. exists f0. proj. tauto.
    + rewrite Hf in D. inversion D. subst f0. right. apply in_or_app. left. unfold fut_exc. rewrite H2, H3.
      destruct (negb (is_track x)) eqn:K.
      * rewrite H4. left. reflexivity.
      * destruct (fut_is true f) eqn:K2; [apply fut_is_excl in K2; congruence |]. rewrite H4. left. reflexivity.
  - right. apply in_or_app. right. exact C1.
Qed.

Lemma upd_fresh : forall s q f, sids_fresh s -> sids_fresh (upd_q s q f).
Proof. intros. eapply fresh_glue; [apply upd_q_glue | assumption]. Qed.
Lemma upd_linked : forall s q f, linked s -> linked (upd_q s q f).
Proof. intros. eapply linked_glue; [apply upd_q_glue | assumption]. Qed.

Lemma add_fut_fresh : forall s f, sids_fresh s -> sids_fresh (add_fut s f).
Proof.
  intros s f [F1 F2]. destruct (add_fut_spec s f) as (_ & _ & _ & E2 & E3 & E4). unfold sids_fresh.
  rewrite E2, E3, E4. split; assumption.
Qed.
Lemma add_fut_linked : forall s f, linked s -> linked (add_fut s f).
Proof.
  intros s f H. destruct (add_fut_spec s f) as (_ & _ & _ & E2 & E3 & _). unfold linked. rewrite E2, E3. exact H.
Qed.
Lemma add_fut_live : forall s f, lookups_live s -> lookups_live (add_fut s f).
Proof. intros s f H. eapply live_extends; [| exact H]. apply add_fut_spec. Qed.

Lemma on_message_GI : forall g s id p qo m X,
  lookups_live s -> sids_fresh s -> covered s X ->
  (forall z, In z X -> exists q, qo = Some q /\ z = (true, (q, p))) ->
  let s' := fst (on_message g s id p qo m) in
  lookups_live s' /\ covered s' [] /\ sids_fresh s' /\ (linked s -> linked s').
Proof.
  intros g s id p qo m X Hl Hf C HX. destruct qo as [q |].
  - assert (R : forall fn, (forall x, qlive x ->
                 is_track (fn x) = is_track x /\ qlive (fn x) /\
                 (forall p', In p' (waiting (fn x)) -> In p' (waiting x)) /\
                 (negb (is_track x) = true -> ~ In p (waiting (fn x)))) ->
              lookups_live (upd_q s q fn) /\ covered (upd_q s q fn) [] /\ sids_fresh (upd_q s q fn) /\
              (linked s -> linked (upd_q s q fn))).
    { intros fn Hfn. destruct (covered_upd s q fn X [] true p Hl Hfn) as [I1 I2]; [| exact C |].
      - intros z Hz. right. destruct (HX z Hz) as (q' & E1 & E2). inversion E1. subst. reflexivity.
      - split; [exact I2 |]. split; [exact I1 |]. split; [apply upd_fresh; exact Hf | apply upd_linked]. }
    unfold on_message. destruct m; cbn [fst];
      first [apply (R (q_response p _)); apply f_response | apply (R (q_resp_fail p)); apply f_resp_fail].
  - assert (C0 : covered s []).
    { intros q x p0 A B. destruct (C q x p0 A B) as [O | O]; [left; exact O |].
      destruct (HX _ O) as (q' & E1 & _). discriminate. }
    assert (Base : lookups_live s /\ covered s [] /\ sids_fresh s /\ (linked s -> linked s)) by tauto.
    assert (Add : forall f, lookups_live (add_fut s f) /\ covered (add_fut s f) [] /\ sids_fresh (add_fut s f) /\
                            (linked s -> linked (add_fut s f))).
    { intro f. split; [apply add_fut_live; exact Hl |]. split; [apply covered_add_fut; exact C0 |].
      split; [apply add_fut_fresh; exact Hf | apply add_fut_linked]. }
    unfold on_message. destruct m as [ps | | [|] r ps | [|] | [|] pv ps |]; cbn [fst]; first [apply Add | exact Base].
Qed.

Lemma on_future_GI : forall g s id r, GI s ->
  GI (fst (on_future g s id r)) /\ (linked s -> linked (fst (on_future g s id r))).
Proof.
  intros g s id r [Hl Hc Hf]. unfold on_future.
  destruct (find_fut id (futs s)) as [f |] eqn:Ef; [| split; [constructor; assumption | auto]].
  destruct (res_ok (f_kind f) r) eqn:Eok; [| split; [constructor; assumption | auto]].
  set (s1 := w_futs s (del_fut id (futs s))).
  pose proof (take_fut s id f [] Ef Hc) as C1. rewrite app_nil_r in C1. fold s1 in C1.
  assert (Hl1 : lookups_live s1) by exact Hl.
  assert (Hf1 : sids_fresh s1) by exact Hf.
  assert (Hk1 : linked s -> linked s1) by (intro H; exact H).
  (* register_send_success settles the PUT_VALUE / ADD_PROVIDER exception *)
  assert (SendOk : forall q, f_q f = Some q ->
            lookups_live (eng_send_ok s1 q (f_peer f)) /\
            covered (eng_send_ok s1 q (f_peer f)) (if fut_is true f then [(true, (q, f_peer f))] else [])).
  { intros q Hq. unfold eng_send_ok.
    destruct (covered_upd s1 q (q_send_ok (f_peer f)) (fut_exc f)
                (if fut_is true f then [(true, (q, f_peer f))] else []) false (f_peer f) Hl1) as [I1 I2];
      [apply f_send_ok | | exact C1 | tauto].
    intros z Hz. unfold fut_exc in Hz. rewrite Hq in Hz. destruct (fut_is true f); [left; exact Hz |].
    destruct (fut_is false f); [| destruct Hz]. destruct Hz as [Hz | []]. right. symmetry. exact Hz. }
  destruct r as [| | | m |]; cbn [fst].
  - (* SendSuccess *)
    destruct (f_q f) as [q |] eqn:Eq.
    + destruct (SendOk q eq_refl) as [I1 I2].
      assert (fut_is true f = false) as K.
      { unfold fut_is. destruct (f_kind f); cbn in Eok; try discriminate; reflexivity. }
      rewrite K in I2. split; [constructor; [exact I1 | exact I2 | apply upd_fresh; exact Hf1] |].
      intro H. apply upd_linked. apply Hk1. exact H.
    + unfold fut_exc in C1. rewrite Eq in C1. split; [constructor; assumption | exact Hk1].
  - (* AssumeSendSuccess *)
    destruct (f_q f) as [q |] eqn:Eq.
    + destruct (SendOk q eq_refl) as [I1 I2].
      assert (fut_is true f = false) as K.
      { unfold fut_is. destruct (f_kind f); cbn in Eok; try discriminate; reflexivity. }
      rewrite K in I2. split; [constructor; [exact I1 | exact I2 | apply upd_fresh; exact Hf1] |].
      intro H. apply upd_linked. apply Hk1. exact H.
    + unfold fut_exc in C1. rewrite Eq in C1. split; [constructor; assumption | exact Hk1].
  - (* SendFailure *)
    destruct (disconnect_spec s1 (f_peer f) (f_q f) (fut_exc f) Hl1 C1) as (I1 & I2 & _).
    { intros z Hz. unfold fut_exc in Hz. destruct (f_q f) as [q |]; [| destruct Hz]. exists q. split; [reflexivity |].
      destruct (fut_is true f); [destruct Hz as [Hz | []]; subst z; reflexivity |].
      destruct (fut_is false f); [destruct Hz as [Hz | []]; subst z; reflexivity | destruct Hz]. }
    split; [constructor; [exact I1 | exact I2 | apply disconnect_fresh; exact Hf1] |].
    intro H. apply disconnect_linked. apply Hk1. exact H.
  - (* ReadSuccess *)
    set (s2 := match f_q f with Some q => eng_send_ok s1 q (f_peer f) | None => s1 end).
    assert (P2 : lookups_live s2 /\ sids_fresh s2 /\ (linked s -> linked s2) /\
                 covered s2 (match f_q f with Some q => if fut_is true f then [(true, (q, f_peer f))] else [] | None => [] end)).
    { subst s2. destruct (f_q f) as [q |] eqn:Eq.
      - destruct (SendOk q eq_refl) as [I1 I2]. split; [exact I1 |]. split; [apply upd_fresh; exact Hf1 |].
        split; [intro H; apply upd_linked; apply Hk1; exact H | exact I2].
      - unfold fut_exc in C1. rewrite Eq in C1. tauto. }
    destruct P2 as (L2 & F2 & K2 & C2).
    destruct (on_message_GI g s2 id (f_peer f) (f_q f) (trunc_msg g m) _ L2 F2 C2) as (I1 & I2 & I3 & I4).
    { intros z Hz. destruct (f_q f) as [q |]; [| destruct Hz]. exists q. split; [reflexivity |].
      destruct (fut_is true f); [| destruct Hz]. destruct Hz as [Hz | []]. symmetry. exact Hz. }
    split; [constructor; assumption |]. intro H. apply I4. apply K2. exact H.
  - (* ReadFailure *)
    destruct (disconnect_spec s1 (f_peer f) (f_q f) (fut_exc f) Hl1 C1) as (I1 & I2 & _).
    { intros z Hz. unfold fut_exc in Hz. destruct (f_q f) as [q |]; [| destruct Hz]. exists q. split; [reflexivity |].
      destruct (fut_is true f); [destruct Hz as [Hz | []]; subst z; reflexivity |].
      destruct (fut_is false f); [destruct Hz as [Hz | []]; subst z; reflexivity | destruct Hz]. }
    split; [constructor; [exact I1 | exact I2 | apply disconnect_fresh; exact Hf1] |].
    intro H. apply disconnect_linked. apply Hk1. exact H.
Qed.

(* ---- the send phase ---- *)
Definition trk_step (prov : bool) (q : N) (acc : st) (p : N) : st :=
  let '(s2, ok) := open_or_dial acc p (mkAct (if prov then AProv else APut) q) in
  if ok then s2 else eng_send_fail s2 q p.

Lemma start_track_fold : forall s prov q l qr,
  start_track s prov q l qr =
  fold_left (trk_step prov q) l
            (w_eng s (aset q (QTrack prov (ndedup l) 0 (clamp qr (N.of_nat (length l)))) (eng s))).
Proof. reflexivity. Qed.

Lemma trk_fold_spec : forall prov q l s X,
  lookups_live s -> sids_fresh s -> covered s (map (fun p => (false, (q, p))) l ++ X) ->
  let s' := fold_left (trk_step prov q) l s in
  lookups_live s' /\ covered s' X /\ sids_fresh s' /\ (linked s -> linked s').
Proof.
  intros prov q l. induction l as [| p t IH]; intros s X Hl Hf C; cbn [fold_left map app] in *.
  - tauto.
  - destruct (open_or_dial s p (mkAct (if prov then AProv else APut) q)) as [s2 ok] eqn:E.
    assert (ES : trk_step prov q s p = if ok then s2 else eng_send_fail s2 q p).
    { unfold trk_step. rewrite E. reflexivity. }
    rewrite ES. clear ES. destruct (open_or_dial_spec _ _ _ _ _ Hf E) as [X2 O2].
    assert (Hl2 : lookups_live s2) by (eapply live_extends; [apply (ex_eng _ _ X2) | exact Hl]).
    assert (C2 : covered s2 ((false, (q, p)) :: map (fun p0 => (false, (q, p0))) t ++ X)).
    { eapply covered_extends; [exact X2 | exact C]. }
    destruct ok.
    + assert (C3 : covered s2 (map (fun p0 => (false, (q, p0))) t ++ X)).
      { eapply covered_add; [| exact C2]. specialize (O2 eq_refl). cbn [a_q] in O2.
        assert (find_act (mkAct (if prov then AProv else APut) q) = false) as K by (destruct prov; reflexivity).
        rewrite K in O2. exact O2. }
      destruct (IH s2 X Hl2 (ex_fresh _ _ X2 Hf) C3) as (I1 & I2 & I3 & I4).
      split; [exact I1 |]. split; [exact I2 |]. split; [exact I3 |].
      intro H. apply I4. apply (ex_linked _ _ X2 Hf H).
    + unfold eng_send_fail.
      assert (J : covered (upd_q s2 q (q_send_fail p)) (map (fun p0 => (false, (q, p0))) t ++ X) /\
                  lookups_live (upd_q s2 q (q_send_fail p))).
      { apply (covered_upd s2 q (q_send_fail p) ((false, (q, p)) :: map (fun p0 => (false, (q, p0))) t ++ X)
                           (map (fun p0 => (false, (q, p0))) t ++ X) false p Hl2 (f_send_fail p)); [| exact C2].
        intros z [Hz | Hz]; [right; symmetry; exact Hz | left; exact Hz]. }
      destruct J as [J1 J2].
      destruct (IH _ X J2 (upd_fresh _ _ _ (ex_fresh _ _ X2 Hf)) J1) as (I1 & I2 & I3 & I4).
      split; [exact I1 |]. split; [exact I2 |]. split; [exact I3 |].
      intro H. apply I4. apply upd_linked. apply (ex_linked _ _ X2 Hf H).
Qed.

Lemma start_track_GI : forall s prov q l qr,
  GI s -> GI (start_track s prov q l qr) /\ (linked s -> linked (start_track s prov q l qr)).
Proof.
  intros s prov q l qr [Hl Hc Hf]. rewrite start_track_fold.
  set (s1 := w_eng s (aset q (QTrack prov (ndedup l) 0 (clamp qr (N.of_nat (length l)))) (eng s))).
  assert (Hl1 : lookups_live s1).
  { intros q' x. subst s1. proj. destruct (N.eq_dec q' q) as [E | E].
    - subst q'. rewrite aget_aset_same. intro H. inversion H. exact I.
    - rewrite aget_aset_other by exact E. apply Hl. }
  assert (C1 : covered s1 (map (fun p => (false, (q, p))) l ++ [])).
  { intros q' x p. subst s1. proj. destruct (N.eq_dec q' q) as [E | E].
    - subst q'. rewrite aget_aset_same. intro H. inversion H. subst x. cbn [waiting is_track negb].
      intro B. apply (proj1 (ndedup_In _ _)) in B. right. apply in_or_app. left. apply in_map_iff. exists p. tauto.
    - rewrite aget_aset_other by exact E. intros A B. destruct (Hc q' x p A B) as [O | []]. left. exact O. }
  destruct (trk_fold_spec prov q l s1 [] Hl1 Hf C1) as (I1 & I2 & I3 & I4).
  split; [constructor; assumption |]. intro H. apply I4. exact H.
Qed.

(* ---- serving a query ---- *)
Lemma next_send_shape : forall c ls t ls' p,
  L.next_action c ls t = (ls', L.ASend p) ->
  L.done ls' = false /\ L.pend ls' = L.premove p (L.pend ls) ++ [(p, t)].
Proof.
  intros c ls t ls' p E. pose proof (LP.next_action_shape c ls t) as Sh. rewrite E in Sh. cbn [fst snd] in Sh.
  inversion Sh; subst; try discriminate; split; assumption.
Qed.

Lemma next_partial_shape : forall c ls t ls' p r,
  L.next_action c ls t = (ls', L.APartial p r) ->
  L.done ls' = false /\ L.pend ls' = L.pend ls.
Proof.
  intros c ls t ls' p r E. pose proof (LP.next_action_shape c ls t) as Sh. rewrite E in Sh. cbn [fst snd] in Sh.
  inversion Sh; subst; try discriminate; split; assumption.
Qed.

Lemma set_q_get : forall s q x q',
  aget q' (eng (set_q s q x)) =
  if q' =? q then option_map (fun _ => x) (aget q' (eng s)) else aget q' (eng s).
Proof. intros. unfold set_q. proj. apply aget_map_set. Qed.

Lemma del_q_GI : forall s q, GI s -> GI (del_q s q).
Proof.
  intros s q [Hl Hc Hf]. constructor.
  - intros q' x. unfold del_q. proj. intro H. apply aget_adel_some in H. eapply Hl. apply H.
  - intros q' x p. unfold del_q. proj. intros A B. apply aget_adel_some in A. destruct A as [_ A].
    destruct (Hc q' x p A B) as [O | []]. left. exact O.
  - exact Hf.
Qed.

Lemma start_track_del : forall s pv q l qr, GI s ->
  GI (start_track (del_q s q) pv q l qr) /\ (linked s -> linked (start_track (del_q s q) pv q l qr)).
Proof.
  intros s pv q l qr G. destruct (start_track_GI (del_q s q) pv q l qr (del_q_GI s q G)) as [A B].
  split; [exact A | intro H; apply B; exact H].
Qed.

Lemma serve_GI : forall s q, GI s ->
  GI (fst (fst (serve s q))) /\ (linked s -> linked (fst (fst (serve s q)))).
Proof.
  intros s q G. pose proof G as [Hl Hc Hf]. unfold serve.
  destruct (aget q (eng s)) as [[lk qr c ls | qr ps | pv pd n need] |] eqn:Eq; cbn [fst];
    [| | | split; [exact G | auto]].
  - destruct (L.next_action c ls (now s)) as [ls' a] eqn:En.
    assert (Ha : 1 <= L.c_alpha c) by (apply (Hl _ _ Eq)).
    destruct a as [| p | | l | p r | | l]; cbn [fst].
    + split; [exact G | auto].
    + (* SendMessage *)
      destruct (next_send_shape _ _ _ _ _ En) as [Hd' Hp].
      set (s1 := set_q s q (QLookup lk qr c ls')).
      assert (Hl1 : lookups_live s1).
      { intros q' x. subst s1. rewrite set_q_get. destruct (q' =? q); [| apply Hl].
        destruct (aget q' (eng s)); cbn [option_map]; [| discriminate]. intro H. inversion H. split; [exact Hd' | exact Ha]. }
      assert (C1 : covered s1 [(true, (q, p))]).
      { intros q' x p'. subst s1. rewrite set_q_get. destruct (N.eqb_spec q' q) as [E | E].
        - subst q'. rewrite Eq. cbn [option_map]. intro H. inversion H. subst x. cbn [waiting is_track negb].
          rewrite Hp, map_app. intro B. apply in_app_or in B. destruct B as [B | B].
          + apply LP.premove_fst in B. destruct B as [B _].
            destruct (Hc q _ p' Eq B) as [O | []]. left. exact O.
          + cbn in B. destruct B as [B | []]. subst p'. right. left. reflexivity.
        - intros A B. destruct (Hc q' x p' A B) as [O | []]. left. exact O. }
      assert (Hf1 : sids_fresh s1) by exact Hf.
      assert (Hk1 : linked s -> linked s1) by (intro H; exact H).
      destruct (open_or_dial s1 p (mkAct AFind q)) as [s2 ok] eqn:Eo. cbn [fst].
      destruct (open_or_dial_spec _ _ _ _ _ Hf1 Eo) as [X2 O2].
      assert (Hl2 : lookups_live s2) by (eapply live_extends; [apply (ex_eng _ _ X2) | exact Hl1]).
      assert (C2 : covered s2 [(true, (q, p))]) by (eapply covered_extends; [exact X2 | exact C1]).
      destruct ok.
      * split; [constructor; [exact Hl2 | | apply (ex_fresh _ _ X2 Hf1)] | intro H; apply (ex_linked _ _ X2 Hf1 (Hk1 H))].
        eapply covered_add; [| exact C2]. apply (O2 eq_refl).
      * split.
        -- constructor; [apply eng_fail_live; exact Hl2 | | eapply fresh_glue; [apply eng_fail_glue | apply (ex_fresh _ _ X2 Hf1)]].
           eapply covered_eng_fail; [exact Hl2 | | exact C2]. intros z [Hz | []]. right. subst z. reflexivity.
        -- intro H. eapply linked_glue; [apply eng_fail_glue | apply (ex_linked _ _ X2 Hf1 (Hk1 H))].
    + split; [apply del_q_GI; exact G | auto].
    + destruct lk; cbn [fst]; first [ split; [apply del_q_GI; exact G | auto]
                                    | apply start_track_del; exact G ].
    + (* GetRecordPartialResult *)
      destruct (next_partial_shape _ _ _ _ _ _ En) as [Hd' Hp].
      split; [| auto]. constructor; [| | exact Hf].
      * intros q' x. rewrite set_q_get. destruct (q' =? q); [| apply Hl].
        destruct (aget q' (eng s)); cbn [option_map]; [| discriminate]. intro H. inversion H. split; [exact Hd' | exact Ha].
      * intros q' x p'. rewrite set_q_get. destruct (N.eqb_spec q' q) as [E | E].
        -- subst q'. rewrite Eq. cbn [option_map]. intro H. inversion H. subst x. cbn [waiting is_track negb].
           rewrite Hp. intro B. destruct (Hc q _ p' Eq B) as [O | []]. left. exact O.
        -- intros A B. destruct (Hc q' x p' A B) as [O | []]. left. exact O.
    + split; [apply del_q_GI; exact G | auto].
    + split; [apply del_q_GI; exact G | auto].
  - apply start_track_del. exact G.
  - destruct pd; cbn [fst]; [split; [apply del_q_GI; exact G | auto] | split; [exact G | auto]].
Qed.

(* ------------------------------------------------------------------ every step keeps the invariant *)

Lemma GI_st0 : forall m, GI (st0 m).
Proof.
  intro m. constructor.
  - intros q x H. discriminate H.
  - intros q x p H. discriminate H.
  - split; intros; discriminate.
Qed.

Lemma start_lookup_GI : forall g s q lk qr c seeds,
  1 <= L.c_alpha c -> GI s -> GI (start_lookup g s q lk qr c seeds).
Proof.
  intros g s q lk qr c seeds Ha [Hl Hc Hf]. constructor; [| | exact Hf].
  - intros q' x. unfold start_lookup. proj. destruct (N.eq_dec q' q) as [E | E].
    + subst q'. rewrite aget_aset_same. intro H. inversion H. split; [reflexivity | exact Ha].
    + rewrite aget_aset_other by exact E. apply Hl.
  - intros q' x p. unfold start_lookup. proj. destruct (N.eq_dec q' q) as [E | E].
    + subst q'. rewrite aget_aset_same. intro H. inversion H. subst x. cbn [waiting]. unfold L.init. cbn [L.pend map].
      intros [].
    + rewrite aget_aset_other by exact E. intros A B. destruct (Hc q' x p A B) as [O | []]. left. exact O.
Qed.

Lemma on_cmd_GI : forall g s q c dists seeds,
  1 <= g_alpha g -> GI s -> GI (fst (on_cmd g s q c dists seeds)).
Proof.
  intros g s q c dists seeds Ha G. unfold on_cmd.
  destruct c as [| qr | qr | qr local | kp0 | qr]; cbn [fst]; try (apply start_lookup_GI; [exact Ha | exact G]).
  destruct qr; destruct local; cbn [fst]; first [exact G | apply start_lookup_GI; [exact Ha | exact G]].
Qed.

Definition feasible (s : st) (e : ev) : Prop :=
  match e with
  | EOpened p sid => aget sid (psub s) = Some p \/ aget sid (psub s) = None
  | _ => True
  end.

Lemma step_GI : forall g s e, 1 <= g_alpha g -> GI s -> GI (fst (fst (step g s e))).
Proof.
  intros g s e Ha G. pose proof G as [Hl Hc Hf]. destruct e; cbn [step].
  - destruct (on_cmd g s q c dists seeds) as [s' o] eqn:E. cbn [fst].
    change s' with (fst (s', o)). rewrite <- E. apply on_cmd_GI; [exact Ha | exact G].
  - cbn [fst]. constructor; [| | exact Hf].
    + intros q' x. proj. destruct (N.eq_dec q' q) as [E | E].
      * subst q'. rewrite aget_aset_same. intro H. inversion H. exact I.
      * rewrite aget_aset_other by exact E. apply Hl.
    + intros q' x p. proj. destruct (N.eq_dec q' q) as [E | E].
      * subst q'. rewrite aget_aset_same. intro H. inversion H. subst x. intros [].
      * rewrite aget_aset_other by exact E. intros A B. destruct (Hc q' x p A B) as [O | []]. left. exact O.
  - exact G.
  - apply serve_GI. exact G.
  - destruct (aget p (conn s)); cbn [fst]; [exact G |].
    apply (on_connection_established_GI (w_conn s (aset p alive (conn s))) p). constructor; assumption.
  - destruct (aget p (conn s)); cbn [fst]; [| exact G].
    apply (disconnect_GI (w_conn s (adel p (conn s))) p). constructor; assumption.
  - destruct (aget p (conn s)); cbn [fst]; [constructor; assumption | exact G].
  - cbn [fst]. constructor; assumption.
  - cbn [fst]. apply on_outbound_GI. exact G.
  - cbn [fst]. apply on_open_failure_GI. exact G.
  - cbn [fst]. apply on_dial_failure_GI. exact G.
  - cbn [fst]. apply on_inbound_GI. exact G.
  - destruct (on_future g s id r) as [s' o] eqn:E. cbn [fst].
    change s' with (fst (s', o)). rewrite <- E. apply on_future_GI. exact G.
  - cbn [fst]. constructor; assumption.
Qed.

Lemma on_cmd_linked : forall g s q c dists seeds, linked s -> linked (fst (on_cmd g s q c dists seeds)).
Proof.
  intros g s q c dists seeds H. unfold on_cmd.
  destruct c as [| qr | qr | qr local | kp0 | qr]; cbn [fst]; try exact H.
  destruct qr; destruct local; cbn [fst]; exact H.
Qed.

Lemma step_linked : forall g s e, GI s -> feasible s e -> linked s -> linked (fst (fst (step g s e))).
Proof.
  intros g s e G Fe Hk. destruct e; cbn [step].
  - destruct (on_cmd g s q c dists seeds) as [s' o] eqn:E. cbn [fst].
    change s' with (fst (s', o)). rewrite <- E. apply on_cmd_linked. exact Hk.
  - cbn [fst]. exact Hk.
  - exact Hk.
  - apply serve_GI; assumption.
  - destruct (aget p (conn s)); cbn [fst]; [exact Hk |].
    destruct G as [Hl Hc Hf].
    apply (on_connection_established_GI (w_conn s (aset p alive (conn s))) p); [constructor; assumption | exact Hk].
  - destruct (aget p (conn s)); cbn [fst]; [| exact Hk].
    apply (disconnect_linked (w_conn s (adel p (conn s))) p None). exact Hk.
  - destruct (aget p (conn s)); cbn [fst]; exact Hk.
  - cbn [fst]. exact Hk.
  - cbn [fst]. apply on_outbound_linked; [exact Fe | exact Hk].
  - cbn [fst]. apply on_open_failure_GI; assumption.
  - cbn [fst]. apply on_dial_failure_linked. exact Hk.
  - cbn [fst]. apply on_inbound_GI; assumption.
  - destruct (on_future g s id r) as [s' o] eqn:E. cbn [fst].
    change s' with (fst (s', o)). rewrite <- E. apply on_future_GI; assumption.
  - cbn [fst]. exact Hk.
Qed.

Lemma run_cons : forall g s e t,
  run g s (e :: t) =
  (fst (run g (fst (fst (step g s e))) t), snd (fst (step g s e)) ++ snd (run g (fst (fst (step g s e))) t)).
Proof.
  intros g s e t. cbn [run]. destruct (step g s e) as [[s1 o] b]. cbn [fst snd].
  destruct (run g s1 t) as [s2 o2]. reflexivity.
Qed.

Lemma run_GI : forall g es, 1 <= g_alpha g -> forall s, GI s -> GI (fst (run g s es)).
Proof.
  intros g es Ha. induction es as [| e t IH]; intros s G; [exact G |].
  rewrite run_cons. cbn [fst]. apply IH. apply step_GI; [exact Ha | exact G].
Qed.

(* the environment reports an opened substream for the peer it was requested from *)
Fixpoint feasible_run (g : gcfg) (s : st) (es : list ev) : Prop :=
  match es with
  | [] => True
  | e :: t => feasible s e /\ feasible_run g (fst (fst (step g s e))) t
  end.

Lemma run_linked : forall g es,
  1 <= g_alpha g -> forall s, GI s -> linked s -> feasible_run g s es -> linked (fst (run g s es)).
Proof.
  intros g es Ha. induction es as [| e t IH]; intros s G Hk Fe; [exact Hk |].
  rewrite run_cons. cbn [fst]. destruct Fe as [F1 F2]. apply IH; [apply step_GI; [exact Ha | exact G] | | exact F2].
  apply step_linked; assumption.
Qed.

Lemma no_wait_for_nothing : forall g m es q x p,
  1 <= g_alpha g ->
  let s := fst (run g (st0 m) es) in
  aget q (eng s) = Some x -> In p (waiting x) -> owes s (negb (is_track x)) q p.
Proof.
  intros g m es q x p Ha s A B. destruct (run_GI g es Ha (st0 m) (GI_st0 m)) as [_ Hc _].
  destruct (Hc q x p A B) as [O | []]. exact O.
Qed.

Lemma dischargeable : forall g m es p acts sid a,
  1 <= g_alpha g -> feasible_run g (st0 m) es ->
  let s := fst (run g (st0 m) es) in
  aget p (peers s) = Some acts -> aget sid acts = Some a -> aget sid (psub s) = Some p.
Proof.
  intros g m es p acts sid a Ha Fe s. apply (run_linked g es Ha (st0 m) (GI_st0 m)); [| exact Fe].
  intros p0 acts0 sid0 a0 H. discriminate H.
Qed.

(* ------------------------------------------------------------------ nothing owed and drained => every query has ended *)

Lemma aget_head : forall A k (v : A) t, aget k ((k, v) :: t) = Some v.
Proof. intros. unfold aget. rewrite N.eqb_refl. reflexivity. Qed.

Lemma idle_all_done : forall g m es,
  1 <= g_alpha g ->
  let s := fst (run g (st0 m) es) in
  idle s -> quiescent s = true -> eng s = [].
Proof.
  intros g m es Ha s Hi Hq. destruct (run_GI g es Ha (st0 m) (GI_st0 m)) as [Hl Hc _]. fold s in Hl, Hc.
  destruct (eng s) as [| [q x] t] eqn:E; [reflexivity |]. exfalso.
  assert (A : aget q (eng s) = Some x) by (rewrite E; apply aget_head).
  unfold quiescent in Hq. rewrite E in Hq. cbn [forallb snd] in Hq. apply andb_prop in Hq. destruct Hq as [Hq _].
  assert (W : waiting x = []).
  { destruct (waiting x) as [| p w] eqn:Ew; [reflexivity |]. exfalso.
    destruct (Hc q x p A) as [O | []]; [rewrite Ew; left; reflexivity |]. eapply Hi. exact O. }
  destruct x as [lk qr c ls | qr ps | pv pd n need]; cbn [has_action waiting] in *.
  - destruct (Hl _ _ A) as [Hd Hal].
    assert (Hp : L.pend ls = []) by (destruct (L.pend ls); [reflexivity | discriminate W]).
    pose proof (LP.progress c ls (now s) Hal Hd Hp) as P.
    destruct (snd (L.next_action c ls (now s))); [congruence | | | | | |]; discriminate Hq.
  - discriminate Hq.
  - subst pd. discriminate Hq.
Qed.

(* ------------------------------------------------------------------ one terminal event per operation *)

Definition live_same (s s' : st) : Prop := forall q, live q s' = live q s.

Lemma live_same_refl : forall s, live_same s s.
Proof. intros s q. reflexivity. Qed.
Lemma live_same_trans : forall a b c, live_same a b -> live_same b c -> live_same a c.
Proof. intros a b c H1 H2 q. rewrite H2. apply H1. Qed.
Lemma live_same_eng : forall s s', eng s' = eng s -> live_same s s'.
Proof. intros s s' E q. unfold live. rewrite E. reflexivity. Qed.

Lemma live_upd : forall s q f, live_same s (upd_q s q f).
Proof.
  intros s q f q'. unfold live. rewrite upd_q_get. destruct (q' =? q); [| reflexivity].
  destruct (aget q' (eng s)); reflexivity.
Qed.

Lemma live_eng_fail : forall s q p, live_same s (eng_fail s q p).
Proof. intros. unfold eng_fail, eng_resp_fail, eng_send_fail. eapply live_same_trans; apply live_upd. Qed.

Lemma live_fold : forall A (f : st -> A -> st) l,
  (forall s a, live_same s (f s a)) -> forall s, live_same s (fold_left f l s).
Proof.
  intros A f l H. induction l as [| a t IH]; intro s; cbn [fold_left]; [apply live_same_refl |].
  eapply live_same_trans; [apply H | apply IH].
Qed.

Lemma svc_open_eng : forall s p, eng (fst (svc_open s p)) = eng s.
Proof. intros s p. unfold svc_open. destruct (aget p (conn s)) as [[|] |]; reflexivity. Qed.

Lemma open_or_dial_eng : forall s p a, eng (fst (open_or_dial s p a)) = eng s.
Proof.
  intros s p a. unfold open_or_dial. pose proof (svc_open_eng s p) as E1.
  destruct (svc_open s p) as [s1 r]. cbn [fst] in E1. destruct r as [sid |]; [exact E1 |].
  destruct (svc_dial s1 p); [exact E1 | | exact E1].
  pose proof (svc_open_eng s1 p) as E2. destruct (svc_open s1 p) as [s2 r2]. cbn [fst] in E2.
  destruct r2; cbn [fst]; unfold track_sub, add_paction; proj; congruence.
Qed.

Lemma live_disconnect : forall s p qo, live_same s (disconnect_peer s p qo).
Proof.
  intros s p qo. unfold disconnect_peer.
  set (s1 := match qo with Some q => eng_fail s q p | None => s end).
  assert (L1 : live_same s s1) by (subst s1; destruct qo; [apply live_eng_fail | apply live_same_refl]).
  destruct (aget p (peers s1)); [| exact L1].
  eapply live_same_trans; [exact L1 |]. eapply live_same_trans; [| apply live_fold].
  - apply live_same_eng. reflexivity.
  - intros s0 x. destruct (opt_is qo (a_q (snd x))); [apply live_same_refl | apply live_eng_fail].
Qed.

Lemma live_established : forall s p, live_same s (on_connection_established s p).
Proof.
  intros s p. unfold on_connection_established.
  destruct (aget p (peers s)); [apply live_same_refl |]. destruct (aget p (pdial s)); [| apply live_same_refl].
  eapply live_same_trans; [| apply live_fold].
  - apply live_same_eng. reflexivity.
  - intros s0 a. pose proof (svc_open_eng s0 p) as E. destruct (svc_open s0 p) as [s2 r]. cbn [fst] in E.
    destruct r; [apply live_same_eng; unfold track_sub, add_paction; proj; exact E |].
    eapply live_same_trans; [apply live_same_eng; exact E | apply live_eng_fail].
Qed.

Lemma live_outbound : forall s p sid, live_same s (on_outbound_substream s p sid).
Proof.
  intros s p sid. apply live_same_eng. unfold on_outbound_substream.
  destruct (aget p (peers (w_psub s (adel sid (psub s))))) as [acts |]; [| reflexivity].
  destruct (aget sid acts) as [a |]; [| reflexivity].
  destruct (a_kind a); [destruct (peer_wanted _ _ _) | |]; reflexivity.
Qed.

Lemma live_open_failure : forall s sid, live_same s (on_substream_open_failure s sid).
Proof.
  intros s sid. unfold on_substream_open_failure. destruct (aget sid (psub s)) as [p |]; [| apply live_same_refl].
  destruct (aget p (peers (w_psub s (adel sid (psub s))))) as [acts |]; [| apply live_same_eng; reflexivity].
  eapply live_same_trans; [| apply live_disconnect]. apply live_same_eng. reflexivity.
Qed.

Lemma live_dial_failure : forall s p, live_same s (on_dial_failure s p).
Proof.
  intros s p. unfold on_dial_failure. destruct (aget p (pdial s)); [| apply live_same_refl].
  eapply live_same_trans; [| apply live_fold].
  - apply live_same_eng. reflexivity.
  - intros s0 a. apply live_eng_fail.
Qed.

Lemma live_inbound : forall s p id, live_same s (on_inbound_substream s p id).
Proof.
  intros s p id. apply live_same_eng. unfold on_inbound_substream. destruct (aget p (peers s)); reflexivity.
Qed.

Lemma live_on_message : forall g s id p qo m, live_same s (fst (on_message g s id p qo m)).
Proof.
  intros g s id p qo m. unfold on_message. destruct qo as [q |].
  - destruct m; cbn [fst]; apply live_upd.
  - destruct m as [ps | | [|] r ps | [|] | [|] pv ps |]; cbn [fst]; apply live_same_eng; reflexivity.
Qed.

Lemma live_on_future : forall g s id r, live_same s (fst (on_future g s id r)).
Proof.
  intros g s id r. unfold on_future. destruct (find_fut id (futs s)) as [f |]; [| apply live_same_refl].
  destruct (res_ok (f_kind f) r); [| apply live_same_refl].
  set (s1 := w_futs s (del_fut id (futs s))).
  assert (L1 : live_same s s1) by (apply live_same_eng; reflexivity).
  destruct r as [| | | m |]; cbn [fst].
  - destruct (f_q f); [eapply live_same_trans; [exact L1 | apply live_upd] | exact L1].
  - destruct (f_q f); [eapply live_same_trans; [exact L1 | apply live_upd] | exact L1].
  - eapply live_same_trans; [exact L1 | apply live_disconnect].
  - eapply live_same_trans; [| apply live_on_message].
    destruct (f_q f); [eapply live_same_trans; [exact L1 | apply live_upd] | exact L1].
  - eapply live_same_trans; [exact L1 | apply live_disconnect].
Qed.

Definition lv (q : N) (s : st) : nat := if live q s then 1%nat else 0%nat.

Lemma terminals_app : forall q a b, terminals q (a ++ b) = (terminals q a + terminals q b)%nat.
Proof. intros. unfold terminals. rewrite filter_app, app_length. reflexivity. Qed.

Lemma live_aset : forall s q v q', live q' (w_eng s (aset q v (eng s))) = (q' =? q) || live q' s.
Proof.
  intros s q v q'. unfold live. proj. destruct (N.eqb_spec q' q) as [E | E].
  - subst q'. rewrite aget_aset_same. reflexivity.
  - rewrite aget_aset_other by exact E. reflexivity.
Qed.

Lemma live_del : forall s q q', live q' (del_q s q) = negb (q' =? q) && live q' s.
Proof.
  intros s q q'. unfold live, del_q. proj. destruct (N.eqb_spec q' q) as [E | E].
  - subst q'. rewrite aget_adel_same. reflexivity.
  - rewrite aget_adel_other by exact E. reflexivity.
Qed.

Lemma live_set_q : forall s q x, live_same s (set_q s q x).
Proof.
  intros s q x q'. unfold live. rewrite set_q_get. destruct (q' =? q); [| reflexivity].
  destruct (aget q' (eng s)); reflexivity.
Qed.

Lemma live_start_track : forall s pv q l qr q',
  live q' (start_track s pv q l qr) = (q' =? q) || live q' s.
Proof.
  intros s pv q l qr q'. rewrite start_track_fold. rewrite <- live_aset with (v := QTrack pv (ndedup l) 0 (clamp qr (N.of_nat (length l)))).
  apply live_fold. intros s0 p. unfold trk_step.
  pose proof (open_or_dial_eng s0 p (mkAct (if pv then AProv else APut) q)) as E.
  destruct (open_or_dial s0 p (mkAct (if pv then AProv else APut) q)) as [s2 ok]. cbn [fst] in E.
  destruct ok; [apply live_same_eng; exact E |].
  eapply live_same_trans; [apply live_same_eng; exact E | apply live_upd].
Qed.

Lemma terminals_one : forall q q0 o, term_of o = Some q0 ->
  terminals q [o] = if q0 =? q then 1%nat else 0%nat.
Proof. intros q q0 o H. unfold terminals. cbn [filter]. rewrite H. cbn [opt_is]. destruct (q0 =? q); reflexivity. Qed.

Lemma terminals_none : forall q o, term_of o = None -> terminals q [o] = 0%nat.
Proof. intros q o H. unfold terminals. cbn [filter]. rewrite H. reflexivity. Qed.

Lemma serve_account : forall s q0 q,
  (terminals q (snd (fst (serve s q0))) + lv q (fst (fst (serve s q0))))%nat = lv q s.
Proof.
  intros s q0 q. unfold serve, lv.
  destruct (aget q0 (eng s)) as [[lk qr c ls | qr ps | pv pd n need] |] eqn:Eq; cbn [fst snd]; [| | | reflexivity].
  - assert (Lq0 : live q0 s = true) by (unfold live; rewrite Eq; reflexivity).
    assert (Term : forall o, term_of o = Some q0 ->
              (terminals q [o] + (if live q (del_q s q0) then 1 else 0))%nat = (if live q s then 1 else 0)%nat).
    { intros o Ho. rewrite (terminals_one q q0 o Ho), live_del, N.eqb_sym.
      destruct (N.eqb_spec q q0) as [E | E]; cbn [negb andb]; [subst q; rewrite Lq0; reflexivity | reflexivity]. }
    assert (Trk : forall pv l o, term_of o = None ->
              (terminals q [o] + (if live q (start_track (del_q s q0) pv q0 l qr) then 1 else 0))%nat = (if live q s then 1 else 0)%nat).
    { intros pv l o Ho. rewrite (terminals_none q o Ho), live_start_track, live_del.
      destruct (N.eqb_spec q q0) as [E | E]; cbn [negb andb orb]; [subst q; rewrite Lq0; reflexivity | reflexivity]. }
    destruct (L.next_action c ls (now s)) as [ls' a]. destruct a as [| p | | l | p r | | l]; cbn [fst snd].
    + reflexivity.
    + pose proof (open_or_dial_eng (set_q s q0 (QLookup lk qr c ls')) p (mkAct AFind q0)) as E.
      destruct (open_or_dial (set_q s q0 (QLookup lk qr c ls')) p (mkAct AFind q0)) as [s2 ok]. cbn [fst snd] in *.
      assert (L2 : live q s2 = live q s).
      { unfold live at 1. rewrite E. apply live_set_q. }
      destruct ok; cbn [terminals filter length]; [rewrite L2; reflexivity |].
      rewrite live_eng_fail, L2. reflexivity.
    + apply Term. reflexivity.
    + destruct lk; first [apply Term; reflexivity | apply Trk; reflexivity].
    + rewrite terminals_none by reflexivity. rewrite live_set_q. reflexivity.
    + apply Term. reflexivity.
    + apply Term. reflexivity.
  - assert (Lq0 : live q0 s = true) by (unfold live; rewrite Eq; reflexivity).
    rewrite terminals_none by reflexivity. rewrite live_start_track, live_del.
    destruct (N.eqb_spec q q0) as [E | E]; cbn [negb andb orb]; [subst q; rewrite Lq0; reflexivity | reflexivity].
  - assert (Lq0 : live q0 s = true) by (unfold live; rewrite Eq; reflexivity).
    destruct pd; cbn [fst snd]; [| reflexivity].
    assert (Ht : term_of (if need <=? n then if pv then OProvSuccess q0 else OPutSuccess q0 else OFailed q0) = Some q0).
    { destruct (need <=? n); [destruct pv |]; reflexivity. }
    rewrite (terminals_one q q0 _ Ht), live_del, N.eqb_sym.
    destruct (N.eqb_spec q q0) as [E | E]; cbn [negb andb]; [subst q; rewrite Lq0; reflexivity | reflexivity].
Qed.

Definition st_by (e : ev) (q : N) : nat := if opt_is (started_by e) q then 1%nat else 0%nat.

Lemma no_terminals : forall q outs, (forall o, In o outs -> term_of o = None) -> terminals q outs = 0%nat.
Proof.
  intros q outs H. unfold terminals. induction outs as [| o t IH]; [reflexivity |].
  cbn [filter]. rewrite (H o (or_introl eq_refl)). cbn [opt_is]. apply IH. intros o' Ho. apply H. right. exact Ho.
Qed.

Lemma on_message_outs : forall g s id p qo m o, In o (snd (on_message g s id p qo m)) -> term_of o = None.
Proof.
  intros g s id p qo m o. unfold on_message. destruct qo as [q |].
  - destruct m as [ps | | hk r ps | [|] | hk pv ps |]; cbn [snd In]; intuition; subst; reflexivity.
  - destruct m as [ps | | [|] r ps | [|] | [|] pv ps |]; cbn [snd In]; intuition; subst; reflexivity.
Qed.

Lemma on_future_outs : forall g s id r o, In o (snd (on_future g s id r)) -> term_of o = None.
Proof.
  intros g s id r o. unfold on_future. destruct (find_fut id (futs s)) as [f |]; [| intros []].
  destruct (res_ok (f_kind f) r); [| intros []].
  destruct r as [| | | m |]; cbn [snd]; try (intros []). apply on_message_outs.
Qed.

Lemma step_account : forall g s e q,
  (forall q0, started_by e = Some q0 -> live q0 s = false) ->
  (terminals q (snd (fst (step g s e))) + lv q (fst (fst (step g s e))))%nat = (lv q s + st_by e q)%nat.
Proof.
  intros g s e q Hfr.
  assert (Plain : forall s' outs, live_same s s' -> (forall o, In o outs -> term_of o = None) ->
                    (terminals q outs + lv q s')%nat = (lv q s + 0)%nat).
  { intros s' outs L T. rewrite (no_terminals q outs T). unfold lv. rewrite (L q). lia. }
  destruct e; cbn [step started_by]; unfold st_by; cbn [started_by opt_is].
  - (* command *)
    specialize (Hfr q0 eq_refl). unfold on_cmd.
    assert (Start : forall lk qr c0,
              (terminals q [] + lv q (start_lookup g s q0 lk qr c0 seeds))%nat = (lv q s + (if q0 =? q then 1 else 0))%nat).
    { intros lk qr c0. unfold lv, start_lookup. rewrite live_aset, N.eqb_sym.
      destruct (N.eqb_spec q0 q) as [E | E]; cbn [orb terminals filter length]; [subst q; rewrite Hfr; reflexivity | lia]. }
    destruct c as [| qr | qr | qr local | kp0 | qr]; cbn [fst snd]; try apply Start.
    destruct qr; destruct local; cbn [fst snd]; try apply Start;
      unfold terminals; cbn [filter term_of opt_is]; unfold lv;
      destruct (N.eqb_spec q0 q) as [E | E]; cbn [length]; try (subst q; rewrite Hfr); try lia;
      rewrite live_aset, N.eqb_sym; destruct (N.eqb_spec q0 q); cbn [orb]; try congruence; try lia.
  - specialize (Hfr q0 eq_refl). cbn [fst snd]. unfold lv. rewrite live_aset, N.eqb_sym.
    destruct (N.eqb_spec q0 q) as [E | E]; cbn [orb terminals filter length]; [subst q; rewrite Hfr; reflexivity | lia].
  - cbn [fst snd]. apply Plain; [apply live_same_refl | intros o []].
  - rewrite serve_account. lia.
  - destruct (aget p (conn s)); cbn [fst snd]; (apply Plain; [| intros o []]); [apply live_same_refl |].
    eapply live_same_trans; [| apply live_established]. apply live_same_eng. reflexivity.
  - destruct (aget p (conn s)); cbn [fst snd]; (apply Plain; [| intros o []]); [| apply live_same_refl].
    eapply live_same_trans; [| apply live_disconnect]. apply live_same_eng. reflexivity.
  - destruct (aget p (conn s)); cbn [fst snd]; (apply Plain; [| intros o []]); [apply live_same_eng; reflexivity | apply live_same_refl].
  - cbn [fst snd]. apply Plain; [apply live_same_eng; reflexivity | intros o []].
  - cbn [fst snd]. apply Plain; [apply live_outbound | intros o []].
  - cbn [fst snd]. apply Plain; [apply live_open_failure | intros o []].
  - cbn [fst snd]. apply Plain; [apply live_dial_failure | intros o []].
  - cbn [fst snd]. apply Plain; [apply live_inbound | intros o []].
  - pose proof (live_on_future g s id r) as L. pose proof (on_future_outs g s id r) as T.
    destruct (on_future g s id r) as [s' o]. cbn [fst snd] in *. apply Plain; assumption.
  - cbn [fst snd]. apply Plain; [apply live_same_eng; reflexivity | intros o []].
Qed.

Lemma started_cons : forall q e t, started q (e :: t) = (st_by e q + started q t)%nat.
Proof. intros. unfold started, st_by. cbn [filter]. destruct (opt_is (started_by e) q); reflexivity. Qed.

Lemma run_account : forall g es s seen q,
  (forall q0, live q0 s = true -> In q0 seen) -> fresh_ids seen es ->
  (terminals q (snd (run g s es)) + lv q (fst (run g s es)))%nat = (lv q s + started q es)%nat.
Proof.
  intros g es. induction es as [| e t IH]; intros s seen q Hs Hf.
  - cbn. unfold started. cbn. lia.
  - rewrite run_cons, started_cons. cbn [fst snd]. rewrite terminals_app.
    assert (Hfr : forall q0, started_by e = Some q0 -> live q0 s = false).
    { intros q0 E. cbn [fresh_ids] in Hf. rewrite E in Hf. destruct Hf as [Hn _].
      destruct (live q0 s) eqn:El; [| reflexivity]. exfalso. apply Hn. apply Hs. exact El. }
    set (s1 := fst (fst (step g s e))).
    assert (Hs1 : forall q0, live q0 s1 = true -> In q0 (match started_by e with Some q1 => q1 :: seen | None => seen end)).
    { intros q0 El. pose proof (step_account g s e q0 Hfr) as A. fold s1 in A. unfold lv in A. rewrite El in A.
      unfold st_by in A. destruct (live q0 s) eqn:E0.
      - destruct (started_by e); [right |]; apply Hs; exact E0.
      - destruct (started_by e) as [q1 |]; cbn [opt_is] in A.
        + destruct (N.eqb_spec q1 q0) as [E1 | E1]; [left; exact E1 | lia].
        + lia. }
    assert (Hf1 : fresh_ids (match started_by e with Some q1 => q1 :: seen | None => seen end) t).
    { cbn [fresh_ids] in Hf. destruct (started_by e); [apply Hf | exact Hf]. }
    pose proof (IH s1 _ q Hs1 Hf1) as I. pose proof (step_account g s e q Hfr) as A. fold s1 in A. lia.
Qed.

Lemma fresh_started : forall es seen q,
  fresh_ids seen es -> (started q es <= 1)%nat /\ (In q seen -> started q es = 0%nat).
Proof.
  induction es as [| e t IH]; intros seen q Hf; [split; [unfold started; cbn; lia | reflexivity] |].
  rewrite started_cons. unfold st_by. cbn [fresh_ids] in Hf. destruct (started_by e) as [q0 |]; cbn [opt_is].
  - destruct Hf as [Hn Hf]. destruct (IH (q0 :: seen) q Hf) as [I1 I2].
    destruct (N.eqb_spec q0 q) as [E | E].
    + subst q0. rewrite (I2 (or_introl eq_refl)). split; [lia | intro H; contradiction].
    + split; [lia |]. intro H. apply I2. right. exact H.
  - destruct (IH seen q Hf) as [I1 I2]. split; [lia | exact I2].
Qed.

Lemma one_terminal : forall g m es q,
  fresh_ids [] es ->
  let s := fst (run g (st0 m) es) in
  let outs := snd (run g (st0 m) es) in
  (terminals q outs + (if live q s then 1 else 0) = started q es)%nat /\ (started q es <= 1)%nat.
Proof.
  intros g m es q Hf s outs. split; [| apply (fresh_started es [] q Hf)].
  pose proof (run_account g es (st0 m) [] q) as A. unfold lv in A. cbn [live st0 eng] in A.
  apply A; [| exact Hf]. intros q0 H. unfold live in H. cbn in H. discriminate H.
Qed.

(* when the environment has discharged everything and the engine is drained, every started
   operation has reported exactly once *)
Lemma all_reported : forall g m es q,
  1 <= g_alpha g -> fresh_ids [] es ->
  let s := fst (run g (st0 m) es) in
  let outs := snd (run g (st0 m) es) in
  idle s -> quiescent s = true ->
  terminals q outs = started q es /\ (started q es <= 1)%nat.
Proof.
  intros g m es q Ha Hf s outs Hi Hq. destruct (one_terminal g m es q Hf) as [A B]. fold s outs in A.
  pose proof (idle_all_done g m es Ha Hi Hq) as E. fold s in E.
  assert (Lq : live q s = false) by (unfold live; rewrite E; reflexivity).
  rewrite Lq in A. split; [lia | exact B].
Qed.

Lemma default_config :
  1 <= V.gen.Consts.PARALLELISM_FACTOR /\ 0 < V.gen.Consts.KAD_READ_TIMEOUT_SECS /\
  0 < V.gen.Consts.KAD_WRITE_TIMEOUT_SECS.
Proof. unfold V.gen.Consts.PARALLELISM_FACTOR, V.gen.Consts.KAD_READ_TIMEOUT_SECS, V.gen.Consts.KAD_WRITE_TIMEOUT_SECS. lia. Qed.

(* ------------------------------------------------------------------ quorum honesty *)

(* what engine calls other than register_send_success never change in a query *)
Definition qrel (x x' : qstate) : Prop :=
  match x, x' with
  | QLookup lk qr _ _, QLookup lk' qr' _ _ => lk' = lk /\ qr' = qr
  | QToPeers qr ps, QToPeers qr' ps' => qr' = qr /\ ps' = ps
  | QTrack pv pd n need, QTrack pv' pd' n' need' =>
      pv' = pv /\ n' = n /\ need' = need /\ (forall p, In p pd' -> In p pd)
  | _, _ => False
  end.

Lemma qrel_refl : forall x, qrel x x.
Proof. intros [lk qr c ls | qr ps | pv pd n need]; cbn; auto. Qed.

Lemma qrel_trans : forall a b c, qrel a b -> qrel b c -> qrel a c.
Proof.
  intros [lk qr c0 ls | qr ps | pv pd n need] [lk1 qr1 c1 ls1 | qr1 ps1 | pv1 pd1 n1 need1]
         [lk2 qr2 c2 ls2 | qr2 ps2 | pv2 pd2 n2 need2]; cbn; try tauto.
  - intros [A B] [C D]. split; congruence.
  - intros [A B] [C D]. split; congruence.
  - intros (A & B & C & D) (E & F & G & H). repeat split; try congruence. auto.
Qed.

Definition eng_rel (s s' : st) : Prop :=
  forall q x', aget q (eng s') = Some x' -> exists x, aget q (eng s) = Some x /\ qrel x x'.

Lemma eng_rel_refl : forall s, eng_rel s s.
Proof. intros s q x H. exists x. split; [exact H | apply qrel_refl]. Qed.

Lemma eng_rel_trans : forall a b c, eng_rel a b -> eng_rel b c -> eng_rel a c.
Proof.
  intros a b c H1 H2 q x H. destruct (H2 q x H) as (y & Hy & R1). destruct (H1 q y Hy) as (z & Hz & R2).
  exists z. split; [exact Hz | eapply qrel_trans; eassumption].
Qed.

Lemma eng_rel_eng : forall s s', eng s' = eng s -> eng_rel s s'.
Proof. intros s s' E q x H. rewrite E in H. exists x. split; [exact H | apply qrel_refl]. Qed.

Lemma eng_rel_upd : forall s q f, (forall x, qrel x (f x)) -> eng_rel s (upd_q s q f).
Proof.
  intros s q f Hf q' x'. rewrite upd_q_get. destruct (q' =? q).
  - destruct (aget q' (eng s)) as [x |]; cbn [option_map]; [| discriminate]. intro H. inversion H. subst x'.
    exists x. split; [reflexivity | apply Hf].
  - intro H. exists x'. split; [exact H | apply qrel_refl].
Qed.

Lemma qrel_send_fail : forall p x, qrel x (q_send_fail p x).
Proof.
  intros p [lk qr c ls | qr ps | pv pd n need]; cbn; auto. repeat split; auto.
  intros p0 H. apply nremove_In in H. apply H.
Qed.
Lemma qrel_resp_fail : forall p x, qrel x (q_resp_fail p x).
Proof. intros p [lk qr c ls | qr ps | pv pd n need]; cbn; auto. Qed.
Lemma qrel_response : forall p m x, qrel x (q_response p m x).
Proof.
  intros p m [lk qr c ls | qr ps | pv pd n need]; cbn [q_response]; [| apply qrel_refl | apply qrel_refl].
  destruct lk, m; cbn; auto.
Qed.

Lemma eng_rel_fail : forall s q p, eng_rel s (eng_fail s q p).
Proof.
  intros. unfold eng_fail, eng_resp_fail, eng_send_fail.
  eapply eng_rel_trans; apply eng_rel_upd; [apply qrel_send_fail | apply qrel_resp_fail].
Qed.

Lemma eng_rel_fold : forall A (f : st -> A -> st) l,
  (forall s a, eng_rel s (f s a)) -> forall s, eng_rel s (fold_left f l s).
Proof.
  intros A f l H. induction l as [| a t IH]; intro s; cbn [fold_left]; [apply eng_rel_refl |].
  eapply eng_rel_trans; [apply H | apply IH].
Qed.

Lemma eng_rel_disconnect : forall s p qo, eng_rel s (disconnect_peer s p qo).
Proof.
  intros s p qo. unfold disconnect_peer.
  set (s1 := match qo with Some q => eng_fail s q p | None => s end).
  assert (L1 : eng_rel s s1) by (subst s1; destruct qo; [apply eng_rel_fail | apply eng_rel_refl]).
  destruct (aget p (peers s1)); [| exact L1].
  eapply eng_rel_trans; [exact L1 |]. eapply eng_rel_trans; [| apply eng_rel_fold].
  - apply eng_rel_eng. reflexivity.
  - intros s0 x. destruct (opt_is qo (a_q (snd x))); [apply eng_rel_refl | apply eng_rel_fail].
Qed.

Lemma eng_rel_established : forall s p, eng_rel s (on_connection_established s p).
Proof.
  intros s p. unfold on_connection_established.
  destruct (aget p (peers s)); [apply eng_rel_refl |]. destruct (aget p (pdial s)); [| apply eng_rel_refl].
  eapply eng_rel_trans; [| apply eng_rel_fold].
  - apply eng_rel_eng. reflexivity.
  - intros s0 a. pose proof (svc_open_eng s0 p) as E. destruct (svc_open s0 p) as [s2 r]. cbn [fst] in E.
    destruct r; [apply eng_rel_eng; unfold track_sub, add_paction; proj; exact E |].
    eapply eng_rel_trans; [apply eng_rel_eng; exact E | apply eng_rel_fail].
Qed.

Lemma eng_rel_outbound : forall s p sid, eng_rel s (on_outbound_substream s p sid).
Proof.
  intros s p sid. apply eng_rel_eng. unfold on_outbound_substream.
  destruct (aget p (peers (w_psub s (adel sid (psub s))))) as [acts |]; [| reflexivity].
  destruct (aget sid acts) as [a |]; [| reflexivity].
  destruct (a_kind a); [destruct (peer_wanted _ _ _) | |]; reflexivity.
Qed.

Lemma eng_rel_open_failure : forall s sid, eng_rel s (on_substream_open_failure s sid).
Proof.
  intros s sid. unfold on_substream_open_failure. destruct (aget sid (psub s)) as [p |]; [| apply eng_rel_refl].
  destruct (aget p (peers (w_psub s (adel sid (psub s))))) as [acts |]; [| apply eng_rel_eng; reflexivity].
  eapply eng_rel_trans; [| apply eng_rel_disconnect]. apply eng_rel_eng. reflexivity.
Qed.

Lemma eng_rel_dial_failure : forall s p, eng_rel s (on_dial_failure s p).
Proof.
  intros s p. unfold on_dial_failure. destruct (aget p (pdial s)); [| apply eng_rel_refl].
  eapply eng_rel_trans; [| apply eng_rel_fold].
  - apply eng_rel_eng. reflexivity.
  - intros s0 a. apply eng_rel_fail.
Qed.

Lemma eng_rel_inbound : forall s p id, eng_rel s (on_inbound_substream s p id).
Proof.
  intros s p id. apply eng_rel_eng. unfold on_inbound_substream. destruct (aget p (peers s)); reflexivity.
Qed.

Lemma eng_rel_on_message : forall g s id p qo m, eng_rel s (fst (on_message g s id p qo m)).
Proof.
  intros g s id p qo m. unfold on_message. destruct qo as [q |].
  - destruct m; cbn [fst]; apply eng_rel_upd; first [apply qrel_response | apply qrel_resp_fail].
  - destruct m as [ps | | [|] r ps | [|] | [|] pv ps |]; cbn [fst]; apply eng_rel_eng; reflexivity.
Qed.

(* the per-query bookkeeping behind a reported success *)
Definition QI (es : list ev) (outs : list out) (G : list (N * N)) (q : N) (x : qstate) : Prop :=
  match x with
  | QLookup lk qr _ _ => lk = LPut \/ lk = LProv -> find_quorum q es = Some qr
  | QToPeers qr _ => find_quorum q es = Some qr
  | QTrack _ pd n need =>
      exists targets qr S,
        find_quorum q es = Some qr /\ In (OTrack q targets) outs /\
        need = clamp qr (N.of_nat (length targets)) /\ NoDup S /\ N.of_nat (length S) = n /\
        (forall p, In p S -> In (q, p) G /\ In p targets /\ ~ In p pd) /\
        (forall p, In p pd -> In p targets)
  end.

Lemma QI_qrel : forall es outs G q x x', qrel x x' -> QI es outs G q x -> QI es outs G q x'.
Proof.
  intros es outs G q [lk qr c ls | qr ps | pv pd n need] [lk1 qr1 c1 ls1 | qr1 ps1 | pv1 pd1 n1 need1]; cbn; try tauto.
  - intros [A B] H. subst. exact H.
  - intros [A B] H. subst. exact H.
  - intros (A & B & C & D) (targets & qr & S & H1 & H2 & H3 & H4 & H5 & H6 & H7). subst.
    exists targets, qr, S. repeat split; auto.
    + apply (H6 p H).
    + apply (H6 p H).
    + intro K. apply (proj2 (proj2 (H6 p H))). apply D. exact K.
Qed.

Lemma find_quorum_app : forall q a b,
  find_quorum q (a ++ b) = match find_quorum q a with Some qr => Some qr | None => find_quorum q b end.
Proof.
  intros q a b. induction a as [| e t IH]; [reflexivity |]. cbn [app find_quorum].
  destruct (quorum_of_ev q e); [reflexivity | exact IH].
Qed.

Lemma QI_mono : forall es outs G q x e o G',
  QI es outs G q x -> QI (es ++ [e]) (outs ++ o) (G ++ G') q x.
Proof.
  intros es outs G q x e o G' H.
  assert (Fq : forall qr, find_quorum q es = Some qr -> find_quorum q (es ++ [e]) = Some qr).
  { intros qr E. rewrite find_quorum_app, E. reflexivity. }
  destruct x as [lk qr c ls | qr ps | pv pd n need]; cbn in *.
  - intro K. apply Fq. apply H. exact K.
  - apply Fq. exact H.
  - destruct H as (targets & qr & S & H1 & H2 & H3 & H4 & H5 & H6 & H7).
    exists targets, qr, S. repeat split; auto.
    + apply in_or_app. left. exact H2.
    + apply in_or_app. left. apply (H6 p H).
    + apply (H6 p H).
    + apply (H6 p H).
Qed.

Definition honest (es : list ev) (outs : list out) (G : list (N * N)) (q : N) : Prop :=
  exists targets qr S,
    find_quorum q es = Some qr /\ In (OTrack q targets) outs /\ NoDup S /\
    clamp qr (N.of_nat (length targets)) <= N.of_nat (length S) /\
    (forall p, In p S -> In (q, p) G /\ In p targets).

Definition is_success (o : out) : bool :=
  match o with OPutSuccess _ | OProvSuccess _ => true | _ => false end.
Definition success_of (q : N) (outs : list out) : Prop :=
  In (OPutSuccess q) outs \/ In (OProvSuccess q) outs.

Record HInv (es : list ev) (outs : list out) (G : list (N * N)) (seen : list N) (s : st) : Prop := mkHI {
  hi_q : forall q x, aget q (eng s) = Some x -> QI es outs G q x;
  hi_live : forall q, live q s = true -> In q seen;
  hi_fq : forall q qr, find_quorum q es = Some qr -> In q seen;
  hi_ok : forall q, success_of q outs -> honest es outs G q
}.

Lemma honest_mono : forall es outs G q e o G',
  honest es outs G q -> honest (es ++ [e]) (outs ++ o) (G ++ G') q.
Proof.
  intros es outs G q e o G' (targets & qr & S & H1 & H2 & H3 & H4 & H5).
  exists targets, qr, S. repeat split; auto.
  - rewrite find_quorum_app, H1. reflexivity.
  - apply in_or_app. left. exact H2.
  - apply in_or_app. left. apply (H5 p H).
  - apply (H5 p H).
Qed.

Lemma success_app : forall q outs o,
  (forall x, In x o -> is_success x = false) -> success_of q (outs ++ o) -> success_of q outs.
Proof.
  intros q outs o Hn [H | H]; apply in_app_or in H; destruct H as [H | H].
  - left. exact H.
  - specialize (Hn _ H). discriminate Hn.
  - right. exact H.
  - specialize (Hn _ H). discriminate Hn.
Qed.

(* the increment of n_succeeded *)
Definition okstep (p : N) (x x' : qstate) : Prop :=
  exists pv pd n need pd',
    x = QTrack pv pd n need /\ x' = QTrack pv pd' (n + 1) need /\ In p pd /\
    (forall p', In p' pd' -> In p' pd /\ p' <> p).

Lemma QI_okstep : forall es outs G q p x x',
  okstep p x x' -> In (q, p) G -> QI es outs G q x -> QI es outs G q x'.
Proof.
  intros es outs G q p x x' (pv & pd & n & need & pd' & E1 & E2 & Hp & Hsub) HG H. subst x x'. cbn in *.
  destruct H as (targets & qr & S & H1 & H2 & H3 & H4 & H5 & H6 & H7).
  exists targets, qr, (p :: S). repeat split; auto.
  - constructor; [| exact H4]. intro K. apply (proj2 (proj2 (H6 p K))). exact Hp.
  - cbn [length]. lia.
  - destruct H as [H | H]; [subst p0; exact HG | apply (H6 p0 H)].
  - destruct H as [H | H]; [subst p0; apply H7; exact Hp | apply (H6 p0 H)].
  - intro K. destruct (Hsub _ K) as [K1 K2]. destruct H as [H | H]; [congruence |].
    apply (proj2 (proj2 (H6 p0 H))). exact K1.
  - intros p0 K. apply H7. apply (Hsub _ K).
Qed.

(* a step whose effect on every query is qrel, or the counted send of (q, p) *)
Lemma HInv_step_rel : forall es outs G seen s e o G' s',
  HInv es outs G seen s ->
  (forall q, quorum_of_ev q e = None) ->
  (forall x, In x o -> is_success x = false) ->
  live_same s s' ->
  (forall q x', aget q (eng s') = Some x' ->
     exists x, aget q (eng s) = Some x /\ (qrel x x' \/ exists p, In (q, p) G' /\ okstep p x x')) ->
  HInv (es ++ [e]) (outs ++ o) (G ++ G') seen s'.
Proof.
  intros es outs G seen s e o G' s' [H1 H2 H3 H4] Hq Ho Hl Hr. constructor.
  - intros q x' A. destruct (Hr q x' A) as (x & B & [R | (p & Hp & R)]).
    + eapply QI_qrel; [exact R |]. apply QI_mono. apply H1. exact B.
    + eapply QI_okstep; [exact R | apply in_or_app; right; exact Hp |]. apply QI_mono. apply H1. exact B.
  - intros q L. apply H2. rewrite <- (Hl q). exact L.
  - intros q qr F. rewrite find_quorum_app in F. destruct (find_quorum q es) as [qr0 |] eqn:E.
    + eapply H3. exact E.
    + cbn [find_quorum] in F. rewrite Hq in F. discriminate F.
  - intros q Sx. apply honest_mono. apply H4. eapply success_app; eassumption.
Qed.

Lemma rel_only : forall s s' (G' : list (N * N)),
  eng_rel s s' ->
  forall q x', aget q (eng s') = Some x' ->
     exists x, aget q (eng s) = Some x /\ (qrel x x' \/ exists p, In (q, p) G' /\ okstep p x x').
Proof. intros s s' G' R q x' A. destruct (R q x' A) as (x & B & C). exists x. split; [exact B | left; exact C]. Qed.

Lemma on_future_rel : forall g s id r q x',
  aget q (eng (fst (on_future g s id r))) = Some x' ->
  exists x, aget q (eng s) = Some x /\
            (qrel x x' \/ exists p, In (q, p) (sent_by s (EFut id r)) /\ okstep p x x').
Proof.
  intros g s id r q x'. unfold on_future, sent_by.
  destruct (find_fut id (futs s)) as [f |]; [| apply rel_only; apply eng_rel_refl].
  destruct (res_ok (f_kind f) r); [| apply rel_only; apply eng_rel_refl]. cbn [andb].
  set (s1 := w_futs s (del_fut id (futs s))).
  (* register_send_success on (q0, peer of the future) *)
  assert (SO : forall q0 s2, eng_rel (eng_send_ok s1 q0 (f_peer f)) s2 ->
            aget q (eng s2) = Some x' ->
            exists x, aget q (eng s) = Some x /\
                      (qrel x x' \/ exists p, In (q, p) [(q0, f_peer f)] /\ okstep p x x')).
  { intros q0 s2 R A. destruct (R q x' A) as (y & B & C). unfold eng_send_ok in B. rewrite upd_q_get in B.
    destruct (N.eqb_spec q q0) as [E | E].
    - subst q0. change (eng s1) with (eng s) in B.
      destruct (aget q (eng s)) as [x |] eqn:Ex; cbn [option_map] in B; [| discriminate].
      inversion B. subst y. clear B. exists x. split; [reflexivity |].
      destruct x as [lk qr c ls | qr ps | pv pd n need]; cbn [q_send_ok] in C; try (left; exact C).
      destruct (nmem (f_peer f) pd) eqn:Em; [| left; exact C].
      destruct x' as [lk1 qr1 c1 ls1 | qr1 ps1 | pv1 pd1 n1 need1]; cbn in C; try contradiction.
      destruct C as (C1 & C2 & C3 & C4). subst. right. exists (f_peer f). split; [left; reflexivity |].
      exists pv, pd, n, need, pd1. repeat split; auto.
      + apply nmem_In. exact Em.
      + apply C4 in H. apply nremove_In in H. apply H.
      + apply C4 in H. apply nremove_In in H. apply H.
    - change (eng s1) with (eng s) in B. exists y. split; [exact B | left; exact C]. }
  destruct r as [| | | m |]; cbn [sent_res fst].
  - destruct (f_q f) as [q0 |]; [apply SO; apply eng_rel_refl | apply (rel_only s s1); apply eng_rel_eng; reflexivity].
  - destruct (f_q f) as [q0 |]; [apply SO; apply eng_rel_refl | apply (rel_only s s1); apply eng_rel_eng; reflexivity].
  - apply (rel_only s (disconnect_peer s1 (f_peer f) (f_q f))).
    eapply eng_rel_trans; [apply (eng_rel_eng s s1); reflexivity | apply eng_rel_disconnect].
  - destruct (f_q f) as [q0 |]; [apply SO; apply eng_rel_on_message |].
    apply (rel_only s (fst (on_message g s1 id (f_peer f) None (trunc_msg g m)))).
    eapply eng_rel_trans; [apply (eng_rel_eng s s1); reflexivity | apply eng_rel_on_message].
  - apply (rel_only s (disconnect_peer s1 (f_peer f) (f_q f))).
    eapply eng_rel_trans; [apply (eng_rel_eng s s1); reflexivity | apply eng_rel_disconnect].
Qed.

Lemma on_future_nosuccess : forall g s id r x, In x (snd (on_future g s id r)) -> is_success x = false.
Proof.
  intros g s id r x H. pose proof (on_future_outs g s id r x H) as T. destruct x; cbn in *; congruence.
Qed.

Lemma HInv_intro_step : forall es outs G seen s e o G' s',
  HInv es outs G seen s ->
  (forall q, quorum_of_ev q e = None) ->
  (forall q, live q s' = true -> live q s = true) ->
  (forall q x', aget q (eng s') = Some x' -> QI (es ++ [e]) (outs ++ o) (G ++ G') q x') ->
  (forall q, success_of q (outs ++ o) ->
             success_of q outs \/ honest (es ++ [e]) (outs ++ o) (G ++ G') q) ->
  HInv (es ++ [e]) (outs ++ o) (G ++ G') seen s'.
Proof.
  intros es outs G seen s e o G' s' [H1 H2 H3 H4] Hq Hl Hi Hs. constructor.
  - exact Hi.
  - intros q L. apply H2. apply Hl. exact L.
  - intros q qr F. rewrite find_quorum_app in F. destruct (find_quorum q es) as [qr0 |] eqn:E.
    + eapply H3. exact E.
    + cbn [find_quorum] in F. rewrite Hq in F. discriminate F.
  - intros q Sx. destruct (Hs q Sx) as [K | K]; [apply honest_mono; apply H4; exact K | exact K].
Qed.

Lemma QI_of_rel : forall es outs G s s' e o G',
  (forall q x, aget q (eng s) = Some x -> QI es outs G q x) ->
  eng_rel s s' ->
  forall q x', aget q (eng s') = Some x' -> QI (es ++ [e]) (outs ++ o) (G ++ G') q x'.
Proof.
  intros es outs G s s' e o G' H R q x' A. destruct (R q x' A) as (x & B & C).
  eapply QI_qrel; [exact C |]. apply QI_mono. apply H. exact B.
Qed.

Lemma eng_rel_set_q : forall s q x x', aget q (eng s) = Some x -> qrel x x' -> eng_rel s (set_q s q x').
Proof.
  intros s q x x' A R q' y. rewrite set_q_get. destruct (N.eqb_spec q' q) as [E | E].
  - subst q'. rewrite A. cbn [option_map]. intro H. inversion H. subst y. exists x. tauto.
  - intro H. exists y. split; [exact H | apply qrel_refl].
Qed.

Lemma eng_rel_del_q : forall s q, eng_rel s (del_q s q).
Proof.
  intros s q q' y. unfold del_q. proj. intro H. apply aget_adel_some in H. exists y. split; [apply H | apply qrel_refl].
Qed.

Lemma eng_rel_trk_fold : forall pv q l s, eng_rel s (fold_left (trk_step pv q) l s).
Proof.
  intros pv q l. apply eng_rel_fold. intros s0 p. unfold trk_step.
  pose proof (open_or_dial_eng s0 p (mkAct (if pv then AProv else APut) q)) as E.
  destruct (open_or_dial s0 p (mkAct (if pv then AProv else APut) q)) as [s2 ok]. cbn [fst] in E.
  destruct ok; [apply eng_rel_eng; exact E |].
  eapply eng_rel_trans; [apply eng_rel_eng; exact E | apply eng_rel_upd; apply qrel_send_fail].
Qed.

(* starting the send phase establishes the bookkeeping of the new tracking context *)
Lemma QI_start_track : forall es outs G s pv q0 l qr e o G',
  (forall q x, aget q (eng s) = Some x -> QI es outs G q x) ->
  find_quorum q0 es = Some qr -> In (OTrack q0 l) o ->
  forall q x', aget q (eng (start_track (del_q s q0) pv q0 l qr)) = Some x' ->
               QI (es ++ [e]) (outs ++ o) (G ++ G') q x'.
Proof.
  intros es outs G s pv q0 l qr e o G' H Fq Ho q x' A. rewrite start_track_fold in A.
  set (s1 := w_eng (del_q s q0)
                   (aset q0 (QTrack pv (ndedup l) 0 (clamp qr (N.of_nat (length l)))) (eng (del_q s q0)))) in A.
  destruct (eng_rel_trk_fold pv q0 l s1 q x' A) as (x & B & C). eapply QI_qrel; [exact C |].
  subst s1. proj_in B. destruct (N.eq_dec q q0) as [E | E].
  - subst q. rewrite aget_aset_same in B. inversion B. subst x. cbn [QI].
    exists l, qr, []. split; [rewrite find_quorum_app, Fq; reflexivity |].
    split; [apply in_or_app; right; exact Ho |]. split; [reflexivity |]. split; [constructor |].
    split; [reflexivity |]. split; [intros p [] |]. intros p Hp. apply ndedup_In. exact Hp.
  - rewrite aget_aset_other in B by exact E. unfold del_q in B. proj_in B. rewrite aget_adel_other in B by exact E.
    apply QI_mono. apply H. exact B.
Qed.

Lemma live_start_track_sub : forall s pv q0 l qr q,
  live q0 s = true -> live q (start_track (del_q s q0) pv q0 l qr) = true -> live q s = true.
Proof.
  intros s pv q0 l qr q L0 L. rewrite live_start_track, live_del in L.
  destruct (N.eqb_spec q q0) as [E | E]; [subst q; exact L0 |]. cbn in L. exact L.
Qed.

Lemma success_single : forall q outs o,
  success_of q (outs ++ [o]) -> success_of q outs \/ (o = OPutSuccess q \/ o = OProvSuccess q).
Proof.
  intros q outs o [H | H]; apply in_app_or in H; destruct H as [H | [H | []]]; auto.
  - left. left. exact H.
  - left. right. exact H.
Qed.

Lemma HInv_serve : forall es outs G seen s q0,
  HInv es outs G seen s ->
  HInv (es ++ [EServe q0]) (outs ++ snd (fst (serve s q0))) (G ++ []) seen (fst (fst (serve s q0))).
Proof.
  intros es outs G seen s q0 HI. pose proof HI as [H1 H2 H3 H4].
  assert (Hq : forall q, quorum_of_ev q (EServe q0) = None) by reflexivity.
  assert (Same : HInv (es ++ [EServe q0]) (outs ++ []) (G ++ []) seen s).
  { apply (HInv_intro_step es outs G seen s (EServe q0) [] [] s HI Hq); [auto | |].
    - intros q x A. apply QI_mono. apply H1. exact A.
    - intros q Sx. left. rewrite app_nil_r in Sx. exact Sx. }
  (* steps that only move a query along qrel and report nothing final *)
  assert (Rel : forall s' o, eng_rel s s' -> (forall q, live q s' = true -> live q s = true) ->
                  (forall x, In x o -> is_success x = false) ->
                  HInv (es ++ [EServe q0]) (outs ++ o) (G ++ []) seen s').
  { intros s' o R L Ho. apply (HInv_intro_step es outs G seen s (EServe q0) o [] s' HI Hq L).
    - apply (QI_of_rel es outs G s s'); assumption.
    - intros q Sx. left. eapply success_app; eassumption. }
  assert (Del : forall o, is_success o = false ->
                  HInv (es ++ [EServe q0]) (outs ++ [o]) (G ++ []) seen (del_q s q0)).
  { intros o Ho. apply Rel; [apply eng_rel_del_q | |].
    - intros q L. rewrite live_del in L. apply andb_prop in L. apply L.
    - intros x [Hx | []]. subst x. exact Ho. }
  unfold serve.
  destruct (aget q0 (eng s)) as [[lk qr c ls | qr ps | pv pd n need] |] eqn:Eq; cbn [fst snd]; [| | | exact Same].
  - assert (L0 : live q0 s = true) by (unfold live; rewrite Eq; reflexivity).
    assert (Trk : forall pv l, lk = LPut \/ lk = LProv ->
              HInv (es ++ [EServe q0]) (outs ++ [OTrack q0 l]) (G ++ []) seen (start_track (del_q s q0) pv q0 l qr)).
    { intros pv l Hk. apply (HInv_intro_step es outs G seen s (EServe q0) [OTrack q0 l] [] _ HI Hq).
      - intros q L. eapply live_start_track_sub; eassumption.
      - apply (QI_start_track es outs G s pv q0 l qr); [exact H1 | | left; reflexivity].
        specialize (H1 _ _ Eq). cbn [QI] in H1. apply H1. exact Hk.
      - intros q Sx. left. eapply success_app; [| exact Sx]. intros x [Hx | []]. subst x. reflexivity. }
    destruct (L.next_action c ls (now s)) as [ls' a]. destruct a as [| p | | l | p r | | l]; cbn [fst snd].
    + exact Same.
    + pose proof (open_or_dial_eng (set_q s q0 (QLookup lk qr c ls')) p (mkAct AFind q0)) as E.
      destruct (open_or_dial (set_q s q0 (QLookup lk qr c ls')) p (mkAct AFind q0)) as [s2 ok]. cbn [fst snd] in *.
      assert (R2 : eng_rel s s2).
      { eapply eng_rel_trans; [| apply eng_rel_eng; exact E]. eapply eng_rel_set_q; [exact Eq | cbn; auto]. }
      assert (L2 : forall q, live q s2 = true -> live q s = true).
      { intros q L. unfold live in L. rewrite E in L. fold (live q (set_q s q0 (QLookup lk qr c ls'))) in L.
        rewrite live_set_q in L. exact L. }
      destruct ok; [apply Rel; [exact R2 | exact L2 | intros x []] |].
      apply Rel; [eapply eng_rel_trans; [exact R2 | apply eng_rel_fail] | | intros x []].
      intros q L. rewrite live_eng_fail in L. apply L2. exact L.
    + apply Del. reflexivity.
    + destruct lk; first [apply Del; reflexivity | apply Trk; tauto].
    + apply Rel; [eapply eng_rel_set_q; [exact Eq | cbn; auto] | | intros x [Hx | []]; subst x; reflexivity].
      intros q L. rewrite live_set_q in L. exact L.
    + apply Del. reflexivity.
    + apply Del. reflexivity.
  - assert (L0 : live q0 s = true) by (unfold live; rewrite Eq; reflexivity).
    apply (HInv_intro_step es outs G seen s (EServe q0) [OTrack q0 ps] [] _ HI Hq).
    + intros q L. eapply live_start_track_sub; eassumption.
    + apply (QI_start_track es outs G s false q0 ps qr); [exact H1 | | left; reflexivity].
      specialize (H1 _ _ Eq). exact H1.
    + intros q Sx. left. eapply success_app; [| exact Sx]. intros x [Hx | []]. subst x. reflexivity.
  - destruct pd as [| p0 pd']; cbn [fst snd]; [| exact Same].
    apply (HInv_intro_step es outs G seen s (EServe q0) _ [] _ HI Hq).
    + intros q L. rewrite live_del in L. apply andb_prop in L. apply L.
    + apply (QI_of_rel es outs G s (del_q s q0)); [exact H1 | apply eng_rel_del_q].
    + intros q Sx. apply success_single in Sx. destruct Sx as [Sx | Sx]; [left; exact Sx |]. right.
      assert (need <=? n = true /\ q = q0) as [Hn Eqq].
      { destruct (need <=? n); [destruct pv |]; destruct Sx as [Sx | Sx]; inversion Sx; auto. }
      subst q. specialize (H1 _ _ Eq). cbn [QI] in H1.
      destruct H1 as (targets & qr & S & K1 & K2 & K3 & K4 & K5 & K6 & K7).
      exists targets, qr, S. split; [rewrite find_quorum_app, K1; reflexivity |].
      split; [apply in_or_app; left; exact K2 |]. split; [exact K4 |].
      split; [apply N.leb_le in Hn; lia |].
      intros p Hp. split; [apply in_or_app; left; apply (K6 p Hp) | apply (K6 p Hp)].
Qed.

Lemma HInv_start : forall es outs G seen s e q0 x0 o,
  HInv es outs G seen s -> ~ In q0 seen ->
  (forall q, q <> q0 -> quorum_of_ev q e = None) ->
  (forall x, In x o -> is_success x = false) ->
  QI (es ++ [e]) (outs ++ o) (G ++ []) q0 x0 ->
  HInv (es ++ [e]) (outs ++ o) (G ++ []) (q0 :: seen) (w_eng s (aset q0 x0 (eng s))).
Proof.
  intros es outs G seen s e q0 x0 o [H1 H2 H3 H4] Hn Hq Ho Hx. constructor.
  - intros q x. proj. destruct (N.eq_dec q q0) as [E | E].
    + subst q. rewrite aget_aset_same. intro H. inversion H. subst x. exact Hx.
    + rewrite aget_aset_other by exact E. intro A. apply QI_mono. apply H1. exact A.
  - intros q L. rewrite live_aset in L. destruct (N.eqb_spec q q0) as [E | E]; [left; congruence |].
    right. apply H2. exact L.
  - intros q qr F. rewrite find_quorum_app in F. destruct (find_quorum q es) as [qr0 |] eqn:E.
    + right. eapply H3. exact E.
    + cbn [find_quorum] in F. destruct (N.eq_dec q q0) as [E2 | E2]; [left; congruence |].
      rewrite (Hq q E2) in F. discriminate F.
  - intros q Sx. apply honest_mono. apply H4. eapply success_app; eassumption.
Qed.

Lemma HInv_same_start : forall es outs G seen s e q0 o,
  HInv es outs G seen s ->
  (forall q, quorum_of_ev q e = None) ->
  (forall x, In x o -> is_success x = false) ->
  HInv (es ++ [e]) (outs ++ o) (G ++ []) (q0 :: seen) s.
Proof.
  intros es outs G seen s e q0 o HI Hq Ho.
  destruct (HInv_intro_step es outs G seen s e o [] s HI Hq) as [K1 K2 K3 K4]; [auto | | |].
  - intros q x A. apply QI_mono. apply (hi_q _ _ _ _ _ HI). exact A.
  - intros q Sx. left. eapply success_app; eassumption.
  - constructor; [exact K1 | intros q L; right; apply K2; exact L | intros q qr F; right; eapply K3; exact F | exact K4].
Qed.

Lemma find_quorum_fresh : forall es outs G seen s q0,
  HInv es outs G seen s -> ~ In q0 seen -> find_quorum q0 es = None.
Proof.
  intros es outs G seen s q0 HI Hn. destruct (find_quorum q0 es) as [qr |] eqn:E; [| reflexivity].
  exfalso. apply Hn. eapply (hi_fq _ _ _ _ _ HI). exact E.
Qed.

Lemma HInv_step : forall g es outs G seen s e,
  HInv es outs G seen s ->
  (forall q0, started_by e = Some q0 -> ~ In q0 seen) ->
  HInv (es ++ [e]) (outs ++ snd (fst (step g s e))) (G ++ sent_by s e)
       (match started_by e with Some q0 => q0 :: seen | None => seen end)
       (fst (fst (step g s e))).
Proof.
  intros g es outs G seen s e HI Hfr.
  assert (Plain : forall s', eng_rel s s' -> live_same s s' ->
            (forall q, quorum_of_ev q e = None) ->
            HInv (es ++ [e]) (outs ++ []) (G ++ []) seen s').
  { intros s' R L Hq. apply (HInv_intro_step es outs G seen s e [] [] s' HI Hq).
    - intros q K. rewrite <- (L q). exact K.
    - apply (QI_of_rel es outs G s s'); [apply (hi_q _ _ _ _ _ HI) | exact R].
    - intros q Sx. left. rewrite app_nil_r in Sx. exact Sx. }
  destruct e; cbn [step started_by sent_by].
  - (* command *)
    specialize (Hfr q eq_refl). pose proof (find_quorum_fresh _ _ _ _ _ q HI Hfr) as Fq.
    assert (Start : forall lk qr c0 o, (forall x, In x o -> is_success x = false) ->
              (lk = LPut \/ lk = LProv -> quorum_of_ev q (ECmd q c dists seeds) = Some qr) ->
              (forall q1, q1 <> q -> quorum_of_ev q1 (ECmd q c dists seeds) = None) ->
              HInv (es ++ [ECmd q c dists seeds]) (outs ++ o) (G ++ []) (q :: seen)
                   (start_lookup g s q lk qr c0 seeds)).
    { intros lk qr c0 o Ho Hk Hq1. unfold start_lookup. apply HInv_start; try assumption.
      cbn [QI]. intro K. rewrite find_quorum_app, Fq. cbn [find_quorum]. rewrite (Hk K). reflexivity. }
    assert (Other : forall q1, q1 <> q -> quorum_of_ev q1 (ECmd q c dists seeds) = None).
    { intros q1 E. cbn [quorum_of_ev]. destruct c; try reflexivity;
        destruct (N.eqb_spec q q1); first [congruence | reflexivity]. }
    unfold on_cmd. destruct c as [| qr | qr | qr local | kp0 | qr]; cbn [fst snd].
    + apply Start; [intros x [] | intros [K | K]; discriminate K | exact Other].
    + apply Start; [intros x [] | intros _; cbn [quorum_of_ev]; rewrite N.eqb_refl; reflexivity | exact Other].
    + apply Start; [intros x [] | intros _; cbn [quorum_of_ev]; rewrite N.eqb_refl; reflexivity | exact Other].
    + destruct qr; destruct local; cbn [fst snd];
        first [ apply HInv_same_start; [exact HI | reflexivity | intros x Hx; cbn [In] in Hx; intuition; subst; reflexivity]
              | apply Start; [intros x Hx; cbn [In] in Hx; intuition; subst; reflexivity
                             | intros [K | K]; discriminate K | exact Other] ].
    + apply Start; [intros x [] | intros [K | K]; discriminate K | exact Other].
    + apply Start; [intros x [] | intros _; cbn [quorum_of_ev]; rewrite N.eqb_refl; reflexivity | exact Other].
  - (* put_record_to_peers *)
    specialize (Hfr q eq_refl). pose proof (find_quorum_fresh _ _ _ _ _ q HI Hfr) as Fq. cbn [fst snd].
    apply HInv_start; [exact HI | exact Hfr | | intros x [] |].
    + intros q1 E. cbn [quorum_of_ev]. destruct (N.eqb_spec q q1); [congruence | reflexivity].
    + cbn [QI]. rewrite find_quorum_app, Fq. cbn [find_quorum quorum_of_ev]. rewrite N.eqb_refl. reflexivity.
  - cbn [fst snd]. apply Plain; [apply eng_rel_refl | apply live_same_refl | reflexivity].
  - apply HInv_serve. exact HI.
  - destruct (aget p (conn s)); cbn [fst snd]; [apply Plain; [apply eng_rel_refl | apply live_same_refl | reflexivity] |].
    apply Plain; [| | reflexivity].
    + eapply eng_rel_trans; [| apply eng_rel_established]. apply eng_rel_eng. reflexivity.
    + eapply live_same_trans; [| apply live_established]. apply live_same_eng. reflexivity.
  - destruct (aget p (conn s)); cbn [fst snd]; [| apply Plain; [apply eng_rel_refl | apply live_same_refl | reflexivity]].
    apply Plain; [| | reflexivity].
    + eapply eng_rel_trans; [| apply eng_rel_disconnect]. apply eng_rel_eng. reflexivity.
    + eapply live_same_trans; [| apply live_disconnect]. apply live_same_eng. reflexivity.
  - destruct (aget p (conn s)); cbn [fst snd]; apply Plain; try reflexivity;
      first [apply eng_rel_refl | apply live_same_refl | apply eng_rel_eng; reflexivity | apply live_same_eng; reflexivity].
  - cbn [fst snd]. apply Plain; [apply eng_rel_eng; reflexivity | apply live_same_eng; reflexivity | reflexivity].
  - cbn [fst snd]. apply Plain; [apply eng_rel_outbound | apply live_outbound | reflexivity].
  - cbn [fst snd]. apply Plain; [apply eng_rel_open_failure | apply live_open_failure | reflexivity].
  - cbn [fst snd]. apply Plain; [apply eng_rel_dial_failure | apply live_dial_failure | reflexivity].
  - cbn [fst snd]. apply Plain; [apply eng_rel_inbound | apply live_inbound | reflexivity].
  - (* executor completion *)
    pose proof (on_future_rel g s id r) as R. pose proof (live_on_future g s id r) as L.
    pose proof (on_future_nosuccess g s id r) as T. fold (sent_by s (EFut id r)).
    destruct (on_future g s id r) as [s' o]. cbn [fst snd] in *.
    apply (HInv_step_rel es outs G seen s (EFut id r) o (sent_by s (EFut id r)) s' HI); try assumption. reflexivity.
  - cbn [fst snd]. apply Plain; [apply eng_rel_eng; reflexivity | apply live_same_eng; reflexivity | reflexivity].
Qed.

Lemma run_HInv : forall g es pre outs G seen s,
  HInv pre outs G seen s -> fresh_ids seen es ->
  exists seen', HInv (pre ++ es) (outs ++ snd (run g s es)) (G ++ sends g s es) seen' (fst (run g s es)).
Proof.
  intros g es. induction es as [| e t IH]; intros pre outs G seen s HI Hf.
  - exists seen. cbn [run sends fst snd]. rewrite !app_nil_r. exact HI.
  - assert (Hfr : forall q0, started_by e = Some q0 -> ~ In q0 seen).
    { intros q0 E. cbn [fresh_ids] in Hf. rewrite E in Hf. apply Hf. }
    pose proof (HInv_step g pre outs G seen s e HI Hfr) as H1.
    assert (Hf1 : fresh_ids (match started_by e with Some q0 => q0 :: seen | None => seen end) t).
    { cbn [fresh_ids] in Hf. destruct (started_by e); [apply Hf | exact Hf]. }
    destruct (IH _ _ _ _ _ H1 Hf1) as [seen' H2]. exists seen'.
    rewrite run_cons. cbn [fst snd sends].
    rewrite <- !app_assoc in H2. cbn [app] in H2. exact H2.
Qed.

Lemma HInv_st0 : forall m, HInv [] [] [] [] (st0 m).
Proof.
  intro m. constructor.
  - intros q x H. discriminate H.
  - intros q H. discriminate H.
  - intros q qr H. discriminate H.
  - intros q [H | H]; destruct H.
Qed.

Lemma quorum_honest : forall g m es q,
  fresh_ids [] es ->
  let outs := snd (run g (st0 m) es) in
  In (OPutSuccess q) outs \/ In (OProvSuccess q) outs ->
  exists targets qr S,
    find_quorum q es = Some qr /\ In (OTrack q targets) outs /\ NoDup S /\
    clamp qr (N.of_nat (length targets)) <= N.of_nat (length S) /\
    (forall p, In p S -> In (q, p) (sends g (st0 m) es) /\ In p targets).
Proof.
  intros g m es q Hf outs Sx.
  destruct (run_HInv g es [] [] [] [] (st0 m) (HInv_st0 m) Hf) as [seen' HI]. cbn [app] in HI.
  apply (hi_ok _ _ _ _ _ HI). exact Sx.
Qed.

(* ------------------------------------------------------------------ the drain loop terminates *)

Lemma next_send_cands : forall c ls t ls' p,
  L.next_action c ls t = (ls', L.ASend p) ->
  S (length (L.cands ls')) = length (L.cands ls) /\ L.recq ls' = L.recq ls.
Proof.
  intros c ls t ls' p E. pose proof (LP.next_action_shape c ls t) as Sh. rewrite E in Sh. cbn [fst snd] in Sh.
  inversion Sh; subst; try discriminate.
  match goal with H1 : L.cands ls = _ :: _ |- _ => rewrite H1 end.
  split; [reflexivity | assumption].
Qed.

Lemma next_partial_recq : forall c ls t ls' p r,
  L.next_action c ls t = (ls', L.APartial p r) ->
  L.cands ls' = L.cands ls /\ S (length (L.recq ls')) = length (L.recq ls).
Proof.
  intros c ls t ls' p r E. pose proof (LP.next_action_shape c ls t) as Sh. rewrite E in Sh. cbn [fst snd] in Sh.
  inversion Sh; subst; try discriminate.
  match goal with H1 : L.recq ls = _ :: _ |- _ => rewrite H1 end. split; [assumption | reflexivity].
Qed.

Lemma on_failure_weight : forall c ls p,
  L.cands (L.on_failure c ls p) = L.cands ls /\ L.recq (L.on_failure c ls p) = L.recq ls.
Proof.
  intros c ls p. unfold L.on_failure. destruct (L.done ls); [tauto |]. destruct (L.pmem p (L.pend ls)); cbn; tauto.
Qed.

Lemma q_fail_weight : forall p x, qweight (q_resp_fail p (q_send_fail p x)) = qweight x.
Proof.
  intros p [lk qr c ls | qr ps | pv pd n need]; cbn [q_send_fail q_resp_fail qweight]; [| reflexivity | reflexivity].
  destruct (on_failure_weight c ls p) as [A B]. rewrite A, B. reflexivity.
Qed.

Lemma start_track_get : forall s pv q0 l qr q,
  (q <> q0 -> aget q (eng (start_track s pv q0 l qr)) = aget q (eng s)) /\
  qw (aget q0 (eng (start_track s pv q0 l qr))) = 1%nat.
Proof.
  intros s pv q0 l qr q. rewrite start_track_fold.
  set (s1 := w_eng s (aset q0 (QTrack pv (ndedup l) 0 (clamp qr (N.of_nat (length l)))) (eng s))).
  assert (F : forall l0 s0,
            (q <> q0 -> aget q (eng (fold_left (trk_step pv q0) l0 s0)) = aget q (eng s0)) /\
            (qw (aget q0 (eng s0)) = 1%nat /\ (exists a b c d, aget q0 (eng s0) = Some (QTrack a b c d)) ->
             qw (aget q0 (eng (fold_left (trk_step pv q0) l0 s0))) = 1%nat /\
             (exists a b c d, aget q0 (eng (fold_left (trk_step pv q0) l0 s0)) = Some (QTrack a b c d)))).
  { induction l0 as [| p t IH]; intro s0; cbn [fold_left]; [tauto |].
    assert (St : (q <> q0 -> aget q (eng (trk_step pv q0 s0 p)) = aget q (eng s0)) /\
                 ((exists a b c d, aget q0 (eng s0) = Some (QTrack a b c d)) ->
                  exists a b c d, aget q0 (eng (trk_step pv q0 s0 p)) = Some (QTrack a b c d))).
    { unfold trk_step. pose proof (open_or_dial_eng s0 p (mkAct (if pv then AProv else APut) q0)) as E.
      destruct (open_or_dial s0 p (mkAct (if pv then AProv else APut) q0)) as [s2 ok]. cbn [fst] in E.
      destruct ok; [rewrite E; tauto |]. unfold eng_send_fail. rewrite !upd_q_get, E. split.
      - intro Hn. destruct (N.eqb_spec q q0); [congruence | reflexivity].
      - intros (a & b & c & d & H). rewrite N.eqb_refl, H. cbn. eauto. }
    destruct St as [St1 St2]. destruct (IH (trk_step pv q0 s0 p)) as [I1 I2]. split.
    - intro Hn. rewrite (I1 Hn). apply St1. exact Hn.
    - intros [_ Hx]. apply I2. destruct (St2 Hx) as (a & b & c & d & H). rewrite H. split; [reflexivity | eauto]. }
  destruct (F l s1) as [F1 F2]. split.
  - intro Hn. rewrite (F1 Hn). subst s1. proj. apply aget_aset_other. exact Hn.
  - apply F2. subst s1. proj. rewrite aget_aset_same. split; [reflexivity | eauto].
Qed.

Lemma serve_progress : forall s q0 q,
  snd (serve s q0) = true ->
  (q <> q0 -> aget q (eng (fst (fst (serve s q0)))) = aget q (eng s)) /\
  (qw (aget q0 (eng (fst (fst (serve s q0))))) < qw (aget q0 (eng s)))%nat.
Proof.
  intros s q0 q. unfold serve.
  destruct (aget q0 (eng s)) as [[lk qr c ls | qr ps | pv pd n need] |] eqn:Eq; cbn [fst snd]; [| | | discriminate].
  - assert (Del : (q <> q0 -> aget q (eng (del_q s q0)) = aget q (eng s)) /\
                  (qw (aget q0 (eng (del_q s q0))) < qw (Some (QLookup lk qr c ls)))%nat).
    { unfold del_q. proj. rewrite aget_adel_same. split; [intro Hn; apply aget_adel_other; exact Hn | cbn; lia]. }
    assert (Trk : forall pv l,
              (q <> q0 -> aget q (eng (start_track (del_q s q0) pv q0 l qr)) = aget q (eng s)) /\
              (qw (aget q0 (eng (start_track (del_q s q0) pv q0 l qr))) < qw (Some (QLookup lk qr c ls)))%nat).
    { intros pv l. destruct (start_track_get (del_q s q0) pv q0 l qr q) as [T1 T2]. rewrite T2. split; [| cbn; lia].
      intro Hn. rewrite (T1 Hn). unfold del_q. proj. apply aget_adel_other. exact Hn. }
    destruct (L.next_action c ls (now s)) as [ls' a] eqn:En. destruct a as [| p | | l | p r | | l]; cbn [fst snd].
    + discriminate.
    + intros _. destruct (next_send_cands _ _ _ _ _ En) as [Hc Hr].
      pose proof (open_or_dial_eng (set_q s q0 (QLookup lk qr c ls')) p (mkAct AFind q0)) as E.
      destruct (open_or_dial (set_q s q0 (QLookup lk qr c ls')) p (mkAct AFind q0)) as [s2 ok]. cbn [fst snd] in *.
      assert (G0 : aget q0 (eng s2) = Some (QLookup lk qr c ls')).
      { rewrite E, set_q_get, N.eqb_refl, Eq. reflexivity. }
      assert (Gq : q <> q0 -> aget q (eng s2) = aget q (eng s)).
      { intro Hn. rewrite E, set_q_get. destruct (N.eqb_spec q q0); [congruence | reflexivity]. }
      destruct ok.
      * split; [exact Gq |]. rewrite G0. cbn [qw qweight]. rewrite Hr. lia.
      * split.
        -- intro Hn. rewrite eng_fail_get. destruct (N.eqb_spec q q0); [congruence | apply Gq; exact Hn].
        -- rewrite eng_fail_get, N.eqb_refl, G0. cbn [option_map qw]. rewrite q_fail_weight. cbn [qweight]. rewrite Hr. lia.
    + intros _. exact Del.
    + intros _. destruct lk; first [exact Del | apply Trk].
    + intros _. destruct (next_partial_recq _ _ _ _ _ _ En) as [Hc Hr]. split.
      * intro Hn. rewrite set_q_get. destruct (N.eqb_spec q q0); [congruence | reflexivity].
      * rewrite set_q_get, N.eqb_refl, Eq. cbn [option_map qw qweight]. rewrite Hc. lia.
    + intros _. exact Del.
    + intros _. exact Del.
  - intros _. destruct (start_track_get (del_q s q0) false q0 ps qr q) as [T1 T2]. rewrite T2. split; [| cbn; lia].
    intro Hn. rewrite (T1 Hn). unfold del_q. proj. apply aget_adel_other. exact Hn.
  - destruct pd; cbn [fst snd]; [| discriminate]. intros _. unfold del_q. proj. rewrite aget_adel_same.
    split; [intro Hn; apply aget_adel_other; exact Hn | cbn; lia].
Qed.
