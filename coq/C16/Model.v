(* C16 — executable model of the glue around the Kademlia query engine
   (src/protocol/libp2p/kademlia/mod.rs: on_query_action, open_substream_or_dial,
   on_connection_established, on_outbound_substream, on_substream_open_failure, on_dial_failure,
   disconnect_peer, the `run` loop; executor.rs: the five kinds of futures and their results;
   query/target_peers.rs: PutToTargetPeersContext; query/mod.rs: QueryEngine over several queries).
   Definitions only; proofs are in Proofs.v.

   The lookups inside the engine are the C15 model (V.C15.Model, written V.C15.Model.x below): every engine
   call on a lookup query is one C15 step. What is new here:
   - the engine holds several queries (association list query id -> qstate) and is served in ANY
     order: `EServe q` is one iteration of `while let Some(action) = engine.next_action()`
     that picked query q (the HashMap iteration order of the implementation is an input);
   - the glue maps: peers[..].pending_actions, pending_substreams, pending_dials, the executor's
     futures in flight, the substream-id counter of the TransportService;
   - the environment that decides the synchronous results of service.open_substream /
     service.dial: `conn` (peers the service has a connection to, and whether the connection
     task still reads its command channel) and `mgr` (what the transport manager believes).

   The model follows the REPAIRED code:
   - F-C16a: PutRecordToFoundNodes / AddProviderToFoundNodes start the tracking context first and
     register a send failure for every peer whose open_substream_or_dial fails;
   - F-C16b: on_connection_established reports an open_substream error for every action kind;
   - F-C16c: a response that cannot be decoded, and an ADD_PROVIDER message received as a
     "response", register a response failure for the owning query;
   - F-C16d: on_connection_established records the substreams it opens in pending_substreams.
   Logical time: the state carries a clock `now`; `ETick d` lets d time units pass; every
   next_action call of the drain loop happens at the current time, and a FIND_NODE-type lookup does
   not count a pending peer that is older than the peer timeout `g_tmo` towards the parallelism
   factor (the staleness rule of C15's model, now inside the composition). *)
From Coq Require Import List NArith Bool.
From V.C15 Require Model.
Import ListNotations.
Open Scope N_scope.


(* ---- association lists (HashMap) ---- *)
Fixpoint aget {A} (k : N) (l : list (N * A)) : option A :=
  match l with
  | [] => None
  | (k', v) :: t => if k' =? k then Some v else aget k t
  end.
Definition adel {A} (k : N) (l : list (N * A)) : list (N * A) :=
  filter (fun x => negb (fst x =? k)) l.
Definition aset {A} (k : N) (v : A) (l : list (N * A)) : list (N * A) := adel k l ++ [(k, v)].

Definition nmem (p : N) (l : list N) : bool := existsb (N.eqb p) l.
Definition nremove (p : N) (l : list N) : list N := filter (fun x => negb (x =? p)) l.
Fixpoint ndedup (l : list N) : list N :=
  match l with [] => [] | h :: t => h :: nremove h (ndedup t) end.

(* ---- vocabulary ---- *)
Inductive akind := AFind | APut | AProv.              (* PeerAction::{SendFindNode,SendPutValue,SendAddProvider} *)
Record pact := mkAct { a_kind : akind; a_q : N }.

Inductive quorum := QOne | QN (n : N) | QAll.
Inductive lkind := LFind | LPut | LProv | LRec | LGetProv.

Inductive qstate :=
| QLookup (lk : lkind) (qr : quorum) (c : V.C15.Model.cfg) (s : V.C15.Model.state)   (* FindNode / PutRecord / AddProvider / GetRecord / GetProviders *)
| QToPeers (qr : quorum) (ps : list N)                          (* PutRecordToPeers (FindManyNodesContext) *)
| QTrack (prov : bool) (pending : list N) (nsucc need : N).     (* PutRecordToFoundNodes / AddProviderToFoundNodes *)

(* executor futures: send_request_read_response, send_request_eat_response_failure,
   send_message (outbound ADD_PROVIDER), read_message (inbound), send_message (reply),
   send_message_eat_failure (PUT_VALUE ack) *)
Inductive fkind := FReqResp | FReqEat | FSend | FInRead | FInSend | FInSendEat.
Record fut := mkFut { f_id : N; f_peer : N; f_q : option N; f_kind : fkind }.

Inductive msg :=
| MFindNode (ps : list N)
| MPutValue
| MGetRecord (haskey : bool) (rec : option (N * bool)) (ps : list N)
| MAddProvider (valid : bool)
| MGetProviders (haskey : bool) (provs : list (N * list N)) (ps : list N)
| MInvalid.

Inductive fres := RSendOk | RAssume | RSendFail | RRead (m : msg) | RReadFail.

Inductive out :=
| OFindNodeSuccess (q : N) (ps : list N)
| OPutSuccess (q : N)
| OProvSuccess (q : N)
| OGetRecSuccess (q : N)
| OGetProvSuccess (q : N) (l : list (N * list N))
| OFailed (q : N)
| OPartial (q p r : N)
| ORouting (ps : list N)
| OIncomingRecord
| OIncomingProvider
| OTrack (q : N) (targets : list N).        (* not a KademliaEvent: the target list of the send phase *)

Record st := mkSt {
  eng : list (N * qstate);
  peers : list (N * list (N * pact));       (* peer -> pending_actions (substream id -> action) *)
  psub : list (N * N);                      (* pending_substreams: substream id -> peer *)
  pdial : list (N * list pact);             (* pending_dials *)
  futs : list fut;
  nsid : N;                                 (* TransportService::next_substream_id *)
  conn : list (N * bool);                   (* service connections; true = command channel alive *)
  mgr : list (N * N);                       (* manager: absent/0 no address, 1 dialable, 2 connected, 3 dialing *)
  now : N                                   (* the clock *)
}.

Definition st0 (m : list (N * N)) : st := mkSt [] [] [] [] [] 0 [] m 0.

Definition w_eng (s : st) x := mkSt x (peers s) (psub s) (pdial s) (futs s) (nsid s) (conn s) (mgr s) (now s).
Definition w_peers (s : st) x := mkSt (eng s) x (psub s) (pdial s) (futs s) (nsid s) (conn s) (mgr s) (now s).
Definition w_psub (s : st) x := mkSt (eng s) (peers s) x (pdial s) (futs s) (nsid s) (conn s) (mgr s) (now s).
Definition w_pdial (s : st) x := mkSt (eng s) (peers s) (psub s) x (futs s) (nsid s) (conn s) (mgr s) (now s).
Definition w_futs (s : st) x := mkSt (eng s) (peers s) (psub s) (pdial s) x (nsid s) (conn s) (mgr s) (now s).
Definition w_nsid (s : st) x := mkSt (eng s) (peers s) (psub s) (pdial s) (futs s) x (conn s) (mgr s) (now s).
Definition w_conn (s : st) x := mkSt (eng s) (peers s) (psub s) (pdial s) (futs s) (nsid s) x (mgr s) (now s).
Definition w_mgr (s : st) x := mkSt (eng s) (peers s) (psub s) (pdial s) (futs s) (nsid s) (conn s) x (now s).
Definition w_now (s : st) x := mkSt (eng s) (peers s) (psub s) (pdial s) (futs s) (nsid s) (conn s) (mgr s) x.

(* static configuration of the node *)
(* replication factor, parallelism factor, local peer, peer timeout of FIND_NODE-type lookups *)
Record gcfg := mkG { g_k : N; g_alpha : N; g_local : N; g_tmo : N }.

Definition BIG : N := 1000000000.

(* ---- the engine: per-query calls ---- *)
Definition upd_q (s : st) (q : N) (f : qstate -> qstate) : st :=
  w_eng s (map (fun x => if fst x =? q then (fst x, f (snd x)) else x) (eng s)).

(* register_response_failure *)
Definition q_resp_fail (p : N) (x : qstate) : qstate :=
  match x with
  | QLookup lk qr c ls => QLookup lk qr c (V.C15.Model.on_failure c ls p)
  | _ => x
  end.
(* register_send_failure *)
Definition q_send_fail (p : N) (x : qstate) : qstate :=
  match x with
  | QTrack pv pd n need => QTrack pv (nremove p pd) n need
  | _ => x
  end.
(* register_send_success *)
Definition q_send_ok (p : N) (x : qstate) : qstate :=
  match x with
  | QTrack pv pd n need => if nmem p pd then QTrack pv (nremove p pd) (n + 1) need else x
  | _ => x
  end.
(* register_response with a decoded message *)
Definition q_response (p : N) (m : msg) (x : qstate) : qstate :=
  match x with
  | QLookup lk qr c ls =>
      match lk, m with
      | (LFind | LPut | LProv), MFindNode ps =>
          QLookup lk qr c (V.C15.Model.on_response c ls p (V.C15.Model.mkReply ps None []))
      | LRec, MGetRecord _ r ps => QLookup lk qr c (V.C15.Model.on_response c ls p (V.C15.Model.mkReply ps r []))
      | LGetProv, MGetProviders _ pv ps => QLookup lk qr c (V.C15.Model.on_response c ls p (V.C15.Model.mkReply ps None pv))
      | _, _ => QLookup lk qr c (V.C15.Model.on_failure c ls p)
      end
  | _ => x
  end.

Definition eng_resp_fail (s : st) (q p : N) : st := upd_q s q (q_resp_fail p).
Definition eng_send_fail (s : st) (q p : N) : st := upd_q s q (q_send_fail p).
Definition eng_send_ok (s : st) (q p : N) : st := upd_q s q (q_send_ok p).
Definition eng_response (s : st) (q p : N) (m : msg) : st := upd_q s q (q_response p m).
(* register_peer_failure = register_send_failure; register_response_failure *)
Definition eng_fail (s : st) (q p : N) : st := eng_resp_fail (eng_send_fail s q p) q p.

(* next_peer_action *)
Definition peer_wanted (s : st) (q p : N) : bool :=
  match aget q (eng s) with
  | Some (QLookup _ _ _ ls) => V.C15.Model.pmem p (V.C15.Model.pend ls)
  | _ => false
  end.

(* ---- the service ---- *)
(* TransportService::open_substream: no connection -> error without drawing an id; a connection
   whose task is gone -> an id is drawn and the send fails *)
Definition svc_open (s : st) (p : N) : st * option N :=
  match aget p (conn s) with
  | None => (s, None)
  | Some alive =>
      let s' := w_nsid s (nsid s + 1) in
      if alive then (s', Some (nsid s)) else (s', None)
  end.

Inductive dres := DOk | DAlready | DErr.
Definition svc_dial (s : st) (p : N) : dres :=
  match aget p (mgr s) with
  | Some 1 | Some 3 => DOk
  | Some 2 => DAlready
  | _ => DErr
  end.

Definition pacts (s : st) (p : N) : list (N * pact) :=
  match aget p (peers s) with Some l => l | None => [] end.
Definition add_paction (s : st) (p sid : N) (a : pact) : st :=
  w_peers s (aset p (aset sid a (pacts s p)) (peers s)).
Definition track_sub (s : st) (p sid : N) (a : pact) : st :=
  add_paction (w_psub s (aset sid p (psub s))) p sid a.
Definition push_dial (s : st) (p : N) (a : pact) : st :=
  w_pdial s (aset p ((match aget p (pdial s) with Some l => l | None => [] end) ++ [a]) (pdial s)).

(* Kademlia::open_substream_or_dial; false = Err *)
Definition open_or_dial (s : st) (p : N) (a : pact) : st * bool :=
  let '(s1, r) := svc_open s p in
  match r with
  | Some sid => (track_sub s1 p sid a, true)
  | None =>
      match svc_dial s1 p with
      | DOk => (push_dial s1 p a, true)
      | DAlready =>
          let '(s2, r2) := svc_open s1 p in
          match r2 with
          | Some sid => (track_sub s2 p sid a, true)
          | None => (s2, false)
          end
      | DErr => (s1, false)
      end
  end.

(* ---- disconnect_peer ---- *)
Definition opt_is (o : option N) (q : N) : bool :=
  match o with Some x => x =? q | None => false end.

Definition disconnect_peer (s : st) (p : N) (qo : option N) : st :=
  let s1 := match qo with Some q => eng_fail s q p | None => s end in
  match aget p (peers s1) with
  | None => s1
  | Some acts =>
      fold_left (fun acc x => if opt_is qo (a_q (snd x)) then acc else eng_fail acc (a_q (snd x)) p)
                acts (w_peers s1 (adel p (peers s1)))
  end.

(* ---- the send phase of PUT_VALUE / ADD_PROVIDER (repaired order: track first) ---- *)
Definition clamp (qr : quorum) (len : N) : N :=
  match qr with
  | QOne => 1
  | QN n => N.min n (N.max len 1)
  | QAll => N.max len 1
  end.

Definition start_track (s : st) (prov : bool) (q : N) (l : list N) (qr : quorum) : st :=
  let s1 := w_eng s (aset q (QTrack prov (ndedup l) 0 (clamp qr (N.of_nat (length l)))) (eng s)) in
  fold_left (fun acc p =>
               let '(s2, ok) := open_or_dial acc p (mkAct (if prov then AProv else APut) q) in
               if ok then s2 else eng_send_fail s2 q p)
            l s1.

(* ---- one iteration of the drain loop: engine.next_action() picked query q ---- *)
Definition set_q (s : st) (q : N) (x : qstate) : st :=
  w_eng s (map (fun y => if fst y =? q then (q, x) else y) (eng s)).
Definition del_q (s : st) (q : N) : st := w_eng s (adel q (eng s)).

(* result: new state, emitted events, "the engine really had an action for q" *)
Definition serve (s : st) (q : N) : st * list out * bool :=
  match aget q (eng s) with
  | None => (s, [], false)
  | Some (QLookup lk qr c ls) =>
      let '(ls', a) := V.C15.Model.next_action c ls (now s) in
      match a with
      | V.C15.Model.ANone => (s, [], false)
      | V.C15.Model.ASend p =>
          let s1 := set_q s q (QLookup lk qr c ls') in
          let '(s2, ok) := open_or_dial s1 p (mkAct AFind q) in
          (if ok then s2 else eng_fail s2 q p, [], true)
      | V.C15.Model.APartial p r => (set_q s q (QLookup lk qr c ls'), [OPartial q p r], true)
      | V.C15.Model.AFailed => (del_q s q, [OFailed q], true)
      | V.C15.Model.AFound l =>
          match lk with
          | LFind => (del_q s q, [OFindNodeSuccess q l], true)
          | LPut => (start_track (del_q s q) false q l qr, [OTrack q l], true)
          | LProv => (start_track (del_q s q) true q l qr, [OTrack q l], true)
          | _ => (del_q s q, [OFailed q], true)   (* unreachable: only FIND_NODE-type lookups yield AFound *)
          end
      | V.C15.Model.ARecDone => (del_q s q, [OGetRecSuccess q], true)
      | V.C15.Model.AProvDone l => (del_q s q, [OGetProvSuccess q l], true)
      end
  | Some (QToPeers qr ps) => (start_track (del_q s q) false q ps qr, [OTrack q ps], true)
  | Some (QTrack pv pd n need) =>
      match pd with
      | [] => (del_q s q,
               [if need <=? n then (if pv then OProvSuccess q else OPutSuccess q) else OFailed q], true)
      | _ => (s, [], false)
      end
  end.

(* does next_action yield something for this query? *)
Definition has_action (t : N) (x : qstate) : bool :=
  match x with
  | QLookup _ _ c ls => match snd (V.C15.Model.next_action c ls t) with V.C15.Model.ANone => false | _ => true end
  | QToPeers _ _ => true
  | QTrack _ pd _ _ => match pd with [] => true | _ => false end
  end.
Definition quiescent (s : st) : bool := forallb (fun x => negb (has_action (now s) (snd x))) (eng s).

(* ---- service events ---- *)
Definition on_connection_established (s : st) (p : N) : st :=
  match aget p (peers s) with
  | Some _ => s                                  (* Entry::Occupied: logged, Err *)
  | None =>
      match aget p (pdial s) with
      | None => s
      | Some acts =>
          let s1 := w_peers (w_pdial s (adel p (pdial s))) (aset p [] (peers s)) in
          fold_left (fun acc a =>
                       let '(s2, r) := svc_open acc p in
                       match r with
                       | Some sid => track_sub s2 p sid a
                       | None => eng_fail s2 (a_q a) p
                       end)
                    acts s1
      end
  end.

Definition add_fut (s : st) (f : fut) : st := w_futs s (futs s ++ [f]).

Definition on_outbound_substream (s : st) (p sid : N) : st :=
  let s1 := w_psub s (adel sid (psub s)) in
  match aget p (peers s1) with
  | None => s1                                   (* Err(PeerDoesntExist): substream dropped *)
  | Some acts =>
      match aget sid acts with
      | None => s1                               (* no pending action: substream closed *)
      | Some a =>
          let s2 := w_peers s1 (aset p (adel sid acts) (peers s1)) in
          match a_kind a with
          | AFind => if peer_wanted s2 (a_q a) p
                     then add_fut s2 (mkFut sid p (Some (a_q a)) FReqResp) else s2
          | APut => add_fut s2 (mkFut sid p (Some (a_q a)) FReqEat)
          | AProv => add_fut s2 (mkFut sid p (Some (a_q a)) FSend)
          end
      end
  end.

Definition on_substream_open_failure (s : st) (sid : N) : st :=
  match aget sid (psub s) with
  | None => s
  | Some p =>
      let s1 := w_psub s (adel sid (psub s)) in
      match aget p (peers s1) with
      | None => s1
      | Some acts =>
          let qo := option_map a_q (aget sid acts) in
          disconnect_peer (w_peers s1 (aset p (adel sid acts) (peers s1))) p qo
      end
  end.

Definition on_dial_failure (s : st) (p : N) : st :=
  match aget p (pdial s) with
  | None => s
  | Some acts => fold_left (fun acc a => eng_fail acc (a_q a) p) acts (w_pdial s (adel p (pdial s)))
  end.

Definition on_inbound_substream (s : st) (p id : N) : st :=
  let s1 := match aget p (peers s) with Some _ => s | None => w_peers s (aset p [] (peers s)) end in
  add_fut s1 (mkFut id p None FInRead).

(* ---- executor completions ---- *)
Definition res_ok (k : fkind) (r : fres) : bool :=
  match k, r with
  | FReqResp, (RSendFail | RRead _ | RReadFail) => true
  | FReqEat, (RSendFail | RRead _ | RAssume) => true
  | FSend, (RSendOk | RSendFail) => true
  | FInRead, (RRead _ | RReadFail) => true
  | FInSend, (RSendOk | RSendFail) => true
  | FInSendEat, (RSendOk | RAssume) => true
  | _, _ => false
  end.

Fixpoint find_fut (id : N) (l : list fut) : option fut :=
  match l with [] => None | f :: t => if f_id f =? id then Some f else find_fut id t end.
(* the completed future leaves the executor (the first one with this id: ids are unique as long as
   the environment numbers inbound substreams apart from the service's counter) *)
Fixpoint del_fut (id : N) (l : list fut) : list fut :=
  match l with [] => [] | f :: t => if f_id f =? id then t else f :: del_fut id t end.

Definition not_local (g : gcfg) (ps : list N) : list N := filter (fun p => negb (p =? g_local g)) ps.

(* on_message_received *)
Definition on_message (g : gcfg) (s : st) (id p : N) (qo : option N) (m : msg) : st * list out :=
  match qo with
  | Some q =>
      match m with
      | MFindNode ps => (eng_response s q p m, [ORouting (not_local g ps)])
      | MPutValue => (eng_response s q p m, [])
      | MGetRecord _ _ ps => (eng_response s q p m, [ORouting (not_local g ps)])
      | MAddProvider v => (eng_resp_fail s q p, if v then [OIncomingProvider] else [])
      | MGetProviders _ _ ps => (eng_response s q p m, [ORouting (not_local g ps)])
      | MInvalid => (eng_resp_fail s q p, [])
      end
  | None =>
      match m with
      | MFindNode _ => (add_fut s (mkFut id p None FInSend), [])
      | MPutValue => (add_fut s (mkFut id p None FInSendEat), [OIncomingRecord])
      | MGetRecord true _ _ => (add_fut s (mkFut id p None FInSend), [])
      | MGetProviders true _ _ => (add_fut s (mkFut id p None FInSend), [])
      | MAddProvider true => (s, [OIncomingProvider])
      | _ => (s, [])
      end
  end.

(* KademliaMessage::from_bytes keeps at most `replication_factor` entries of every peer list *)
Definition cut {A} (g : gcfg) (l : list A) : list A := firstn (N.to_nat (g_k g)) l.
Definition trunc_msg (g : gcfg) (m : msg) : msg :=
  match m with
  | MFindNode ps => MFindNode (cut g ps)
  | MGetRecord hk r ps => MGetRecord hk r (cut g ps)
  | MGetProviders hk pv ps => MGetProviders hk (cut g pv) (cut g ps)
  | _ => m
  end.

Definition on_future (g : gcfg) (s : st) (id : N) (r : fres) : st * list out :=
  match find_fut id (futs s) with
  | None => (s, [])
  | Some f =>
      if res_ok (f_kind f) r then
        let s1 := w_futs s (del_fut id (futs s)) in
        let p := f_peer f in
        match r with
        | RSendOk | RAssume =>
            (match f_q f with Some q => eng_send_ok s1 q p | None => s1 end, [])
        | RSendFail | RReadFail => (disconnect_peer s1 p (f_q f), [])
        | RRead m =>
            let s2 := match f_q f with Some q => eng_send_ok s1 q p | None => s1 end in
            on_message g s2 id p (f_q f) (trunc_msg g m)
        end
      else (s, [])
  end.

(* ---- user commands ---- *)
Inductive cmd :=
| CFindNode | CPutRecord (qr : quorum) | CStartProviding (qr : quorum)
| CGetRecord (qr : quorum) (local : bool)
| CGetProviders (kprov : list (N * list N))      (* the providers the local store knows (store.get_providers) *)
| CRefresh (qr : quorum).      (* MemoryStoreAction::RefreshProvider: the store republishes a local provider *)

Definition LOCAL_REC : N := 77.                  (* record id of the locally stored record *)

Definition lcfg (g : gcfg) (kd : V.C15.Model.kind) (needed known : N) (kprov : list (N * list N))
           (dists : list N) : V.C15.Model.cfg :=
  V.C15.Model.mkCfg kd (g_k g) (g_alpha g) (g_tmo g) (g_local g) needed known kprov
          (fun p => nth (N.to_nat p) dists (BIG + p)).

Definition start_lookup (g : gcfg) (s : st) (q : N) (lk : lkind) (qr : quorum) (c : V.C15.Model.cfg)
           (seeds : list N) : st :=
  w_eng s (aset q (QLookup lk qr c (V.C15.Model.init c seeds)) (eng s)).

Definition on_cmd (g : gcfg) (s : st) (q : N) (c : cmd) (dists seeds : list N) : st * list out :=
  match c with
  | CFindNode => (start_lookup g s q LFind QOne (lcfg g V.C15.Model.KFind 0 0 [] dists) seeds, [])
  | CPutRecord qr => (start_lookup g s q LPut qr (lcfg g V.C15.Model.KFind 0 0 [] dists) seeds, [])
  | CStartProviding qr | CRefresh qr =>
      (start_lookup g s q LProv qr (lcfg g V.C15.Model.KFind 0 0 [] dists) seeds, [])
  | CGetProviders kprov =>
      (start_lookup g s q LGetProv QOne (lcfg g V.C15.Model.KProviders 0 0 kprov dists) seeds, [])
  | CGetRecord qr local =>
      match qr, local with
      | QOne, true => (s, [OPartial q (g_local g) LOCAL_REC; OGetRecSuccess q])
      | _, _ =>
          let needed := match qr with QOne => 1 | QN n => n | QAll => g_k g end in
          (start_lookup g s q LRec qr (lcfg g V.C15.Model.KRecord needed (if local then 1 else 0) [] dists) seeds,
           if local then [OPartial q (g_local g) LOCAL_REC] else [])
      end
  end.

(* ---- events of the loop ---- *)
Inductive ev :=
| ECmd (q : N) (c : cmd) (dists seeds : list N)
| EPutToPeers (q : N) (qr : quorum) (ps : list N)   (* ps: the given peers the routing table knows *)
| ENop                                              (* StoreRecord / AddKnownPeer / StopProviding *)
| EServe (q : N)
| EEstablished (p : N) (alive : bool)               (* the service reports a (first) connection; alive = its
                                                       task still serves the command channel *)
| EClosed (p : N)
| EKill (p : N)                                     (* the connection task dies silently *)
| EMgr (p v : N)                                    (* the manager changes its mind about p *)
| EOpened (p sid : N)
| EOpenFail (sid : N)
| EDialFail (p : N)
| EInbound (p id : N)
| EFut (id : N) (r : fres)
| ETick (d : N).                                    (* d time units pass *)

Definition is_serve (e : ev) : bool := match e with EServe _ => true | _ => false end.

(* third component: the oracle/schedule is consistent (a served query had an action; an
   event of `select!` is taken only when the engine is drained) *)
Definition step (g : gcfg) (s : st) (e : ev) : st * list out * bool :=
  match e with
  | EServe q => serve s q
  | ECmd q c dists seeds => let '(s', o) := on_cmd g s q c dists seeds in (s', o, quiescent s)
  | EPutToPeers q qr ps => (w_eng s (aset q (QToPeers qr ps) (eng s)), [], quiescent s)
  | ENop => (s, [], quiescent s)
  | EEstablished p alive =>
      match aget p (conn s) with
      | Some _ => (s, [], quiescent s)           (* secondary connection: not reported *)
      | None => (on_connection_established (w_conn s (aset p alive (conn s))) p, [], quiescent s)
      end
  | EClosed p =>
      match aget p (conn s) with
      | None => (s, [], quiescent s)
      | Some _ => (disconnect_peer (w_conn s (adel p (conn s))) p None, [], quiescent s)
      end
  | EKill p =>
      match aget p (conn s) with
      | None => (s, [], quiescent s)
      | Some _ => (w_conn s (aset p false (conn s)), [], quiescent s)
      end
  | EMgr p v => (w_mgr s (aset p v (mgr s)), [], quiescent s)
  | EOpened p sid => (on_outbound_substream s p sid, [], quiescent s)
  | EOpenFail sid => (on_substream_open_failure s sid, [], quiescent s)
  | EDialFail p => (on_dial_failure s p, [], quiescent s)
  | EInbound p id => (on_inbound_substream s p id, [], quiescent s)
  | EFut id r => let '(s', o) := on_future g s id r in (s', o, quiescent s)
  | ETick d => (w_now s (now s + d), [], quiescent s)
  end.

Fixpoint run (g : gcfg) (s : st) (es : list ev) : st * list out :=
  match es with
  | [] => (s, [])
  | e :: t =>
      let '(s1, o, _) := step g s e in
      let '(s2, o2) := run g s1 t in (s2, o ++ o2)
  end.

(* ---- observers ---- *)
Definition term_of (o : out) : option N :=
  match o with
  | OFindNodeSuccess q _ | OPutSuccess q | OProvSuccess q | OGetRecSuccess q
  | OGetProvSuccess q _ | OFailed q => Some q
  | _ => None
  end.
Definition terminals (q : N) (l : list out) : nat :=
  length (filter (fun o => opt_is (term_of o) q) l).

(* user operations started by an event (with their query id) *)
Definition started_by (e : ev) : option N :=
  match e with ECmd q _ _ _ | EPutToPeers q _ _ => Some q | _ => None end.
Definition started (q : N) (es : list ev) : nat :=
  length (filter (fun e => opt_is (started_by e) q) es).
Definition live (q : N) (s : st) : bool :=
  match aget q (eng s) with Some _ => true | None => false end.

(* query ids are drawn from a counter: every command uses a fresh one *)
Fixpoint fresh_ids (seen : list N) (es : list ev) : Prop :=
  match es with
  | [] => True
  | e :: t =>
      match started_by e with
      | Some q => ~ In q seen /\ fresh_ids (q :: seen) t
      | None => fresh_ids seen t
      end
  end.

(* peers a live query is waiting for *)
Definition waiting (x : qstate) : list N :=
  match x with
  | QLookup _ _ _ ls => map fst (V.C15.Model.pend ls)
  | QToPeers _ _ => []
  | QTrack _ pd _ _ => pd
  end.

(* outstanding obligations of query q for peer p, by kind: `find` = a FIND_NODE / GET_VALUE /
   GET_PROVIDERS request-response, otherwise the PUT_VALUE / ADD_PROVIDER send *)
Definition find_act (a : pact) : bool := match a_kind a with AFind => true | _ => false end.
Definition fut_is (find : bool) (f : fut) : bool :=
  match f_kind f with
  | FReqResp => find
  | FReqEat | FSend => negb find
  | _ => false
  end.

Definition owes_dial (s : st) (find : bool) (q p : N) : Prop :=
  exists acts a, aget p (pdial s) = Some acts /\ In a acts /\ a_q a = q /\ find_act a = find.
Definition owes_sub (s : st) (find : bool) (q p : N) : Prop :=
  exists acts sid a, aget p (peers s) = Some acts /\ aget sid acts = Some a /\ a_q a = q /\ find_act a = find.
Definition owes_fut (s : st) (find : bool) (q p : N) : Prop :=
  exists f, In f (futs s) /\ f_q f = Some q /\ f_peer f = p /\ fut_is find f = true.
Definition owes (s : st) (find : bool) (q p : N) : Prop :=
  owes_dial s find q p \/ owes_sub s find q p \/ owes_fut s find q p.

(* nothing is outstanding: no queued dial action, no pending substream action, no executor future
   working for a query *)
Definition idle (s : st) : Prop := forall find q p, ~ owes s find q p.

Definition is_track (x : qstate) : bool := match x with QTrack _ _ _ _ => true | _ => false end.

(* ---- quorum honesty: what was requested, what was sent ---- *)
(* the quorum a put_record / put_record_to_peers / start_providing command asked for *)
Definition quorum_of_ev (q : N) (e : ev) : option quorum :=
  match e with
  | ECmd q' (CPutRecord qr) _ _ => if q' =? q then Some qr else None
  | ECmd q' (CStartProviding qr) _ _ => if q' =? q then Some qr else None
  | ECmd q' (CRefresh qr) _ _ => if q' =? q then Some qr else None
  | EPutToPeers q' qr _ => if q' =? q then Some qr else None
  | _ => None
  end.
Fixpoint find_quorum (q : N) (es : list ev) : option quorum :=
  match es with
  | [] => None
  | e :: t => match quorum_of_ev q e with Some qr => Some qr | None => find_quorum q t end
  end.

(* a completion that means "the message was written to the peer" *)
Definition sent_res (r : fres) : bool :=
  match r with RSendOk | RAssume | RRead _ => true | _ => false end.

(* (query, peer): an executor future working for the query reported a completed send to the peer *)
Definition sent_by (s : st) (e : ev) : list (N * N) :=
  match e with
  | EFut id r =>
      match find_fut id (futs s) with
      | Some f => if res_ok (f_kind f) r && sent_res r
                  then match f_q f with Some q => [(q, f_peer f)] | None => [] end
                  else []
      | None => []
      end
  | _ => []
  end.
Fixpoint sends (g : gcfg) (s : st) (es : list ev) : list (N * N) :=
  match es with
  | [] => []
  | e :: t => sent_by s e ++ sends g (fst (fst (step g s e))) t
  end.

(* ---- the drain loop terminates: every iteration that finds an action consumes something ---- *)
Definition qweight (x : qstate) : nat :=
  match x with
  | QLookup _ _ _ ls => (3 + length (V.C15.Model.cands ls) + length (V.C15.Model.recq ls))%nat
  | QToPeers _ _ => 2%nat
  | QTrack _ _ _ _ => 1%nat
  end.
Definition qw (o : option qstate) : nat := match o with Some x => qweight x | None => 0%nat end.

(* ---- counting obligations: (kind, query, peer) ---- *)
Definition act_is (k : bool) (q : N) (a : pact) : bool := Bool.eqb (find_act a) k && (a_q a =? q).
Definition fut_for (k : bool) (q p : N) (f : fut) : bool :=
  fut_is k f && opt_is (f_q f) q && (f_peer f =? p).
Definition cnt_dial (s : st) (k : bool) (q p : N) : nat :=
  match aget p (pdial s) with Some acts => length (filter (act_is k q) acts) | None => 0%nat end.
Definition cnt_sub (s : st) (k : bool) (q p : N) : nat :=
  match aget p (peers s) with
  | Some acts => length (filter (fun x : N * pact => act_is k q (snd x)) acts)
  | None => 0%nat
  end.
Definition cnt_fut (s : st) (k : bool) (q p : N) : nat := length (filter (fut_for k q p) (futs s)).
Definition cnt (s : st) (k : bool) (q p : N) : nat :=
  (cnt_dial s k q p + cnt_sub s k q p + cnt_fut s k q p)%nat.

(* completed sends of the send phase only: futures created for SendPutValue / SendAddProvider *)
Definition put_sent_by (s : st) (e : ev) : list (N * N) :=
  match e with
  | EFut id r =>
      match find_fut id (futs s) with
      | Some f => if res_ok (f_kind f) r && sent_res r && fut_is false f
                  then match f_q f with Some q => [(q, f_peer f)] | None => [] end
                  else []
      | None => []
      end
  | _ => []
  end.
Fixpoint put_sends (g : gcfg) (s : st) (es : list ev) : list (N * N) :=
  match es with
  | [] => []
  | e :: t => put_sent_by s e ++ put_sends g (fst (fst (step g s e))) t
  end.

(* well-formed commands: the routing table never hands out the local peer, and
   put_record_to_peers is not given the same peer twice *)
Definition cmd_ok (g : gcfg) (e : ev) : Prop :=
  match e with
  | ECmd _ _ _ seeds => ~ In (g_local g) seeds
  | EPutToPeers _ _ ps => NoDup ps
  | _ => True
  end.

(* ---- fairness vocabulary ---- *)
(* events that give the node new work *)
Definition is_input (e : ev) : bool :=
  match e with ECmd _ _ _ _ | EPutToPeers _ _ _ | EInbound _ _ => true | _ => false end.

(* the event answers something that is owed: the drain loop serves a query that has an action; the
   environment delivers the result of a queued dial, of a pending substream, of an executor future *)
Definition productive (s : st) (e : ev) : Prop :=
  match e with
  | EServe q => snd (serve s q) = true
  | EEstablished p _ =>
      aget p (conn s) = None /\ aget p (peers s) = None /\ exists a acts, aget p (pdial s) = Some (a :: acts)
  | EDialFail p => exists a acts, aget p (pdial s) = Some (a :: acts)
  | EOpened p sid => exists acts a, aget p (peers s) = Some acts /\ aget sid acts = Some a
  | EOpenFail sid =>
      exists p acts a, aget sid (psub s) = Some p /\ aget p (peers s) = Some acts /\ aget sid acts = Some a
  | EFut id r => exists f, find_fut id (futs s) = Some f /\ res_ok (f_kind f) r = true
  | _ => False
  end.

Definition is_tick (e : ev) : bool := match e with ETick _ => true | _ => false end.
Definition work (es : list ev) : list ev := filter (fun e => negb (is_tick e)) es.

(* a schedule without new work in which every event is productive, or time passing *)
Fixpoint fair_run (g : gcfg) (s : st) (es : list ev) : Prop :=
  match es with
  | [] => True
  | e :: t => is_input e = false /\ (is_tick e = true \/ productive s e) /\ fair_run g (fst (fst (step g s e))) t
  end.

(* nothing productive is enabled any more *)
Definition stuck (s : st) : Prop := forall e, ~ productive s e.

(* the explicit bound: what each piece of new work may cost in later productive events
   (n = size of the peer universe, k = replication factor) *)
Definition budget1 (n : nat) (g : gcfg) (e : ev) : nat :=
  match e with
  | ECmd _ _ _ _ => (10 * n + 5 * N.to_nat (g_k g) + 2)%nat
  | EPutToPeers _ _ ps => (5 * length ps + 2)%nat
  | EInbound _ _ => 2%nat
  | _ => 0%nat
  end.
Fixpoint budget (n : nat) (g : gcfg) (es : list ev) : nat :=
  match es with [] => 0%nat | e :: t => (budget1 n g e + budget n g t)%nat end.

(* ---- the bounded event channel: `event_tx.send(..).await` inside the handlers ---- *)
(* The handlers of the loop are sequential code with await points at every `event_tx.send`.  When the
   channel to the KademliaHandle is full the loop parks there: no further event of `select!` is
   taken and the drain loop does not continue until the user receives.  Seen from outside this is
   the atomic handler of `step` followed by a delayed, in-order delivery of its events. *)
Record bst := mkB {
  b_st : st;
  b_chan : list out;        (* in the channel, oldest first *)
  b_back : list out         (* produced by the handler that is parked, not yet sent *)
}.

Inductive bev :=
| BEv (e : ev)              (* the loop takes an event (possible only when it is not parked) *)
| BRecv.                    (* the user receives one event *)

Definition is_event (o : out) : bool := match o with OTrack _ _ => false | _ => true end.

Fixpoint refill (room : nat) (chan back : list out) : list out * list out :=
  match room, back with
  | S r, o :: t => refill r (chan ++ [o]) t
  | _, _ => (chan, back)
  end.
Definition push (cap : nat) (chan back : list out) : list out * list out :=
  refill (cap - length chan) chan back.

(* result: new state, what the user received, "the event was taken / consistent" *)
Definition bstep (g : gcfg) (cap : nat) (b : bst) (e : bev) : bst * list out * bool :=
  match e with
  | BRecv =>
      match b_chan b with
      | [] => (b, [], true)
      | o :: t => let '(c', k') := push cap t (b_back b) in (mkB (b_st b) c' k', [o], true)
      end
  | BEv e =>
      match b_back b with
      | [] => let '(s', o, ok) := step g (b_st b) e in
              let '(c', k') := push cap (b_chan b) (filter is_event o) in
              (mkB s' c' k', [], ok)
      | _ :: _ => (b, [], false)
      end
  end.

Fixpoint brun (g : gcfg) (cap : nat) (b : bst) (es : list bev) : bst * list out :=
  match es with
  | [] => (b, [])
  | e :: t => let '(b1, r, _) := bstep g cap b e in
              let '(b2, r2) := brun g cap b1 t in (b2, r ++ r2)
  end.

(* the events the loop really took *)
Fixpoint taken (g : gcfg) (cap : nat) (b : bst) (es : list bev) : list ev :=
  match es with
  | [] => []
  | e :: t =>
      let b1 := fst (fst (bstep g cap b e)) in
      match e, b_back b with
      | BEv e', [] => e' :: taken g cap b1 t
      | _, _ => taken g cap b1 t
      end
  end.

Definition b0 (m : list (N * N)) : bst := mkB (st0 m) [] [].
