(* C16 — formal links to the models of the layers the Kademlia loop stands on.

   The theorems of this property are relative to an environment: `feasible_run` (C16_dischargeable) assumes
   that the service reports SubstreamOpened{Outbound(id)} for the peer the substream was requested from; the
   liveness theorems quantify over schedules in which the events that discharge an obligation do arrive.
   Here the first assumption is PROVED of the shared TransportService model of C08 / C09 (coq/Ts): along
   every history of the service, with `m` the pending_substreams map kept the way kademlia/mod.rs keeps it
   (inserted when open_substream(p) returns Ok(id), removed when the answer for id arrives), every
   SubstreamOpened{Outbound(id)} the service hands to the protocol names the peer recorded in m — which is
   literally `feasible` for the event EOpened p id.  The identifier is the one open_substream returned
   (C08_primary_only), never answered twice (C08_answered_at_most_once), answered exactly once unless the
   connection is reported closed first (C08_open_answered).

   For the dials (C05: C05_sys_progress / C05_sysT_progress / C05_tr_progress_dial — a dial the manager has
   accepted is answered by ConnectionEstablished, DialFailure or OpenFailure) the link is the shape of the
   interface: whenever an action is queued in pending_dials for p, BOTH answers of the manager are
   productive events of the glue model (`dial_answers_productive`): neither is ever refused or lost.  The deadlines behind these answers are the transports' (C05_tr_progress_open_expire:
   TCP / WebSocket opens have an overall deadline) and the keep-alive timeout of the service (C09_closes,
   C09_never_overdue); they enter C16_bounded_time as the bound D. *)
From Coq Require Import List NArith Bool Lia.
From V.Ts Require Model Proofs Answers.
From V.C16 Require LinkTs.
From V.C16 Require Import Model Proofs.
Import ListNotations.
Open Scope N_scope.

Module TS := V.Ts.Model.
Module TP := V.Ts.Proofs.
Module TA := V.Ts.Answers.

(* ---- pending_substreams of kademlia/mod.rs along a history of the service ---- *)
Definition answered (os : list TS.out) : list N :=
  flat_map (fun o => match o with
                     | TS.OSub _ (Some id) => [id]
                     | TS.OFail id _ => [id]
                     | _ => []
                     end) os.

Definition kad_track (m : list (N * N)) (e : TS.ev) (os : list TS.out) : list (N * N) :=
  let m1 := match e, TP.ret_ids os with
            | TS.EOpen p, [id] => aset id p m           (* open_substream(p) returned Ok(id) *)
            | _, _ => m
            end in
  fold_left (fun acc id => adel id acc) (answered os) m1.

(* the SubstreamOpened{Outbound(id)} events of a step are feasible for the glue model *)
Definition step_feasible (m : list (N * N)) (os : list TS.out) : Prop :=
  forall p id, In (TS.OSub p (Some id)) os -> aget id m = Some p \/ aget id m = None.

Fixpoint feasible_along (s : TS.st) (m : list (N * N)) (tr : list (N * TS.ev)) : Prop :=
  match tr with
  | [] => True
  | (dt, e) :: t =>
      let os := snd (TS.step s dt e) in
      step_feasible m os /\ feasible_along (fst (TS.step s dt e)) (kad_track m e os) t
  end.

(* the coupling: an identifier that is in flight in the service and recorded by the protocol is recorded
   for the peer it is in flight for *)
Definition J (s : TS.st) (m : list (N * N)) : Prop :=
  forall id p k, aget id m = Some p -> TS.pfind id (TS.s_pend s) = Some k -> fst k = p.

(* removing answered identifiers only removes *)
Lemma aget_fold_adel : forall ids m id (p : N),
  aget id (fold_left (fun acc i => adel i acc) ids m) = Some p -> aget id m = Some p.
Proof.
  induction ids as [| i t IH]; intros m id p H; [exact H |]. cbn [fold_left] in H. apply IH in H.
  destruct (N.eq_dec id i) as [-> | Hne]; [rewrite aget_adel_same in H; discriminate |].
  rewrite aget_adel_other in H by exact Hne. exact H.
Qed.

Lemma J_step : forall s dt e m,
  TA.pend_inv s -> TP.nowrap1 s e -> J s m -> J (fst (TS.step s dt e)) (kad_track m e (snd (TS.step s dt e))).
Proof.
  intros s dt e m HP NW HJ id p k Hm Hk. unfold kad_track in Hm. apply aget_fold_adel in Hm.
  destruct (V.C16.LinkTs.pend_after s dt e id k HP Hk) as [Hold | (p0 & -> & -> & Hp0 & Hr)].
  - (* in flight before: an accepted open of this step draws a fresh identifier, different from id *)
    assert (Hm0 : aget id m = Some p).
    { destruct e; try exact Hm. destruct (TP.ret_ids (snd (TS.step s dt (TS.EOpen p0)))) as [| i [| ? ?]] eqn:Er; try exact Hm.
      destruct (N.eq_dec id i) as [-> | Hne]; [| rewrite aget_aset_other in Hm by exact Hne; exact Hm].
      (* i is the value of the counter: nothing in flight carries it *)
      exfalso. destruct HP as [_ Pl]. rewrite Forall_forall in Pl.
      assert (Hin : In i (TA.pend_ids s)) by (eapply TA.pfind_ids; exact Hold).
      specialize (Pl _ Hin).
      assert (Hi : i = TS.s_next s).
      { destruct (TP.step_ret s dt (TS.EOpen p0) NW) as [[E _] | [E _]]; rewrite E in Er; [discriminate |].
        injection Er as <-. reflexivity. }
      lia. }
    apply (HJ id p k Hm0 Hold).
  - rewrite Hr in Hm. rewrite aget_aset_same in Hm. injection Hm as <-. exact Hp0.
Qed.

(* ---- the link ---- *)
Lemma feasible_along_run : forall tr s m,
  TA.pend_inv s -> TP.nowrap s tr -> J s m -> feasible_along s m tr.
Proof.
  induction tr as [| [dt e] t IH]; intros s m HP NW HJ; [exact I |].
  destruct NW as [NW1 NW2]. cbn [feasible_along]. split.
  - intros p id Hin. destruct (V.C16.LinkTs.sub_from_pend s dt e p id Hin) as [c Hc].
    destruct (aget id m) as [p0 |] eqn:Em; [left | right; reflexivity].
    f_equal. symmetry. apply (HJ id p0 (p, c) Em Hc).
  - apply IH; [| exact NW2 | apply J_step; assumption].
    destruct (TA.step_ans s dt e HP NW1) as [P1 _]. exact P1.
Qed.

(* Along EVERY history of the TransportService model (C08 / C09), from its initial state: each
   SubstreamOpened{Outbound(id)} the service hands to the protocol is `feasible` for the glue model whose
   pending_substreams is the map the Kademlia loop keeps — the peer named is the peer the substream was
   requested from, or the identifier is not pending any more *)
Lemma service_answers_feasible : forall ka T n0 tr,
  TP.nowrap (TS.init ka T n0) tr -> feasible_along (TS.init ka T n0) [] tr.
Proof.
  intros ka T n0 tr NW. apply feasible_along_run; [apply TA.pend_inv_init | exact NW |].
  intros id p k H. discriminate H.
Qed.

(* the same statement in the vocabulary of Proofs.feasible: a state of the glue model whose
   pending_substreams is m accepts the event *)
Lemma step_feasible_is_feasible : forall m os s16 p id,
  step_feasible m os -> psub s16 = m -> In (TS.OSub p (Some id)) os -> feasible s16 (EOpened p id).
Proof. intros m os s16 p id H <- Hin. cbn [feasible]. apply H. exact Hin. Qed.

(* ---- dials: both answers of the manager are productive ---- *)
Lemma dial_answers_productive : forall s p a acts,
  aget p (pdial s) = Some (a :: acts) ->
  productive s (EDialFail p) /\
  (aget p (conn s) = None -> aget p (peers s) = None -> forall alive, productive s (EEstablished p alive)).
Proof.
  intros s p a acts H. split; [cbn [productive]; eauto |].
  intros Hc Hp alive. cbn [productive]. split; [exact Hc |]. split; [exact Hp | eauto].
Qed.

