(* C16 — the user's side, definitions: `KademliaHandle` (src/protocol/libp2p/kademlia/handle.rs) in front of
   the composed model.  Proofs and the source tables are in Handle.v.

   - `hquorum`: enum Quorum as the user can write it (N carries a NonZeroUsize: Quorum::N(0) does not exist);
   - `hcmd`: enum KademliaCommand; `hbody` + `tr`: the fifteen methods of the handle (nine `async`, six
     `try_*`); the handle draws the query id from the shared counter BEFORE it sends, sends into a bounded
     channel (the async methods wait for a slot: `h_park`; the try_ methods fail when the channel is full or
     closed; the async ones drop the error of a closed channel), and returns the id;
   - the loop takes the commands in order (`OTake`: one `select!` iteration of the command branch), draws
     the ids of provider refreshes from the same counter (`OFire`), and every command is one user event of
     the composed model (`h2u`). *)
From Coq Require Import List NArith Bool String.
From V.C14 Require Model.
From V.C16 Require Import Model Compose.
Import ListNotations.
Open Scope N_scope.

(* ---- enum Quorum ---- *)
Inductive hquorum := HAll | HOne | HN (n : positive).
Definition q_of (h : hquorum) : quorum :=
  match h with HAll => QAll | HOne => QOne | HN n => QN (Npos n) end.

Lemma q_of_nonzero : forall h, q_of h <> QN 0.
Proof. destruct h; discriminate. Qed.

(* ---- enum KademliaCommand (source order) ---- *)
Inductive hcmd :=
| HAddKnownPeer (p : N) (addr : bool)
| HFindNode (target : key) (q : N)
| HPutRecord (rk len : N) (exp : option N) (target : key) (qr : hquorum) (q : N)
| HPutRecordToPeers (rk len pub : N) (exp : option N) (qr : hquorum) (q : N) (peers : list N) (upd : bool)
| HGetRecord (rk : N) (target : key) (qr : hquorum) (q : N)
| HGetProviders (rk : N) (target : key) (q : N)
| HStartProviding (rk : N) (target : key) (qr : hquorum) (q : N)
| HStopProviding (rk : N) (target : key)
| HStoreRecord (rk len pub : N) (exp : option N).

Definition cmd_name (c : hcmd) : string :=
  match c with
  | HAddKnownPeer _ _ => "AddKnownPeer" | HFindNode _ _ => "FindNode" | HPutRecord _ _ _ _ _ _ => "PutRecord"
  | HPutRecordToPeers _ _ _ _ _ _ _ _ => "PutRecordToPeers" | HGetRecord _ _ _ _ => "GetRecord"
  | HGetProviders _ _ _ => "GetProviders" | HStartProviding _ _ _ _ => "StartProviding"
  | HStopProviding _ _ => "StopProviding" | HStoreRecord _ _ _ _ => "StoreRecord"
  end%string.

(* the query id a command carries *)
Definition cmd_id (c : hcmd) : option N :=
  match c with
  | HFindNode _ q | HPutRecord _ _ _ _ _ q | HPutRecordToPeers _ _ _ _ _ q _ _ | HGetRecord _ _ _ q
  | HGetProviders _ _ q | HStartProviding _ _ _ q => Some q
  | _ => None
  end.

(* what the user passes to a method: a command without its id *)
Inductive hbody :=
| BAddKnownPeer (p : N) (addr : bool)
| BFindNode (target : key)
| BPutRecord (rk len : N) (exp : option N) (target : key) (qr : hquorum)
| BPutRecordToPeers (rk len pub : N) (exp : option N) (qr : hquorum) (peers : list N) (upd : bool)
| BGetRecord (rk : N) (target : key) (qr : hquorum)
| BGetProviders (rk : N) (target : key)
| BStartProviding (rk : N) (target : key) (qr : hquorum)
| BStopProviding (rk : N) (target : key)
| BStoreRecord (rk len pub : N) (exp : option N).

Definition draws (b : hbody) : bool :=
  match b with BAddKnownPeer _ _ | BStopProviding _ _ | BStoreRecord _ _ _ _ => false | _ => true end.

Definition with_id (b : hbody) (q : N) : hcmd :=
  match b with
  | BAddKnownPeer p a => HAddKnownPeer p a
  | BFindNode t => HFindNode t q
  | BPutRecord rk len e t qr => HPutRecord rk len e t qr q
  | BPutRecordToPeers rk len pb e qr ps u => HPutRecordToPeers rk len pb e qr q ps u
  | BGetRecord rk t qr => HGetRecord rk t qr q
  | BGetProviders rk t => HGetProviders rk t q
  | BStartProviding rk t qr => HStartProviding rk t qr q
  | BStopProviding rk t => HStopProviding rk t
  | BStoreRecord rk len pb e => HStoreRecord rk len pb e
  end.

Lemma with_id_id : forall b q, cmd_id (with_id b q) = if draws b then Some q else None.
Proof. destruct b; reflexivity. Qed.

(* the methods: (try_?, kind of body) -> name; None = there is no such method *)
Definition body_kind (b : hbody) : nat :=
  match b with
  | BAddKnownPeer _ _ => 0 | BFindNode _ => 1 | BPutRecord _ _ _ _ _ => 2 | BPutRecordToPeers _ _ _ _ _ _ _ => 3
  | BGetRecord _ _ _ => 4 | BGetProviders _ _ => 5 | BStartProviding _ _ _ => 6 | BStopProviding _ _ => 7
  | BStoreRecord _ _ _ _ => 8
  end%nat.
Definition method_exists (tr : bool) (k : nat) : bool :=
  if tr then match k with 0 | 1 | 2 | 3 | 4 | 8 => true | _ => false end%nat else Nat.ltb k 9.

(* ---- the handle and its channel ---- *)
Record hstate := mkH {
  h_next : N;                   (* next_query_id: shared with the loop (Arc<AtomicUsize>) *)
  h_chan : list hcmd;           (* commands in the channel, oldest first *)
  h_cap : nat;                  (* capacity of the command channel *)
  h_closed : bool;              (* the loop has ended: the receiver is gone *)
  h_park : option hcmd          (* an async method waits for a slot with this command *)
}.
Definition h0 (cap : nat) : hstate := mkH 0 [] cap false None.

Inductive hres :=
| RErr                          (* try_*: Err(()) *)
| ROk (q : option N)            (* returned: the query id, or () *)
| RWait (q : option N).         (* the async method is suspended in send().await; q is already drawn *)

Definition full (h : hstate) : bool := Nat.leb (h_cap h) (List.length (h_chan h)).

Definition hcall (h : hstate) (tr : bool) (b : hbody) : hstate * hres :=
  let q := h_next h in
  let next' := if draws b then q + 1 else q in
  let c := with_id b q in
  let r := if draws b then Some q else None in
  if tr then
    if h_closed h || full h
    then (mkH next' (h_chan h) (h_cap h) (h_closed h) (h_park h), RErr)
    else (mkH next' (h_chan h ++ [c]) (h_cap h) (h_closed h) (h_park h), ROk r)
  else
    if h_closed h then (mkH next' (h_chan h) (h_cap h) true (h_park h), ROk r)     (* `let _ = send().await` *)
    else if full h then
      (* &mut self: no second call while one waits; the model keeps the waiting command *)
      (mkH next' (h_chan h) (h_cap h) false (match h_park h with Some p => Some p | None => Some c end), RWait r)
    else (mkH next' (h_chan h ++ [c]) (h_cap h) false (h_park h), ROk r).

(* cmd_rx.recv(): the oldest command *)
Definition hrecv (h : hstate) : hstate * option hcmd :=
  match h_chan h with
  | [] => (h, None)
  | c :: t => (mkH (h_next h) t (h_cap h) (h_closed h) (h_park h), Some c)
  end.

(* the task of the waiting async method runs: its command enters the channel when there is a slot *)
Definition hwake (h : hstate) : hstate * bool :=
  match h_park h with
  | Some c => if full h then (h, false)
              else (mkH (h_next h) (h_chan h ++ [c]) (h_cap h) (h_closed h) None, true)
  | None => (h, false)
  end.

(* ---- a command is a user event of the composed model ---- *)
Definition h2u (c : hcmd) : uev :=
  match c with
  | HAddKnownPeer p a => UAddKnownPeer p a
  | HFindNode t q => UCmd q UCFind t
  | HPutRecord rk len e t qr q => UCmd q (UCPut (q_of qr) rk len e) t
  | HPutRecordToPeers rk len pb e qr q ps u => UPutToPeers q (q_of qr) rk len pb e u ps
  | HGetRecord rk t qr q => UCmd q (UCGet (q_of qr) rk) t
  | HGetProviders rk t q => UCmd q (UCGetProv rk) t
  | HStartProviding rk t qr q => UCmd q (UCProv (q_of qr) rk) t
  | HStopProviding rk t => UStopProviding rk t
  | HStoreRecord rk len pb e => UStoreRecord rk len pb e
  end.

Lemma h2u_started : forall c, ustarted_by (h2u c) = cmd_id c.
Proof. destruct c; reflexivity. Qed.

(* ---- the system: handle + loop ---- *)
Inductive hop :=
| OCall (tr : bool) (b : hbody)       (* the user calls a method *)
| OTake                               (* the command branch of select! takes the next command *)
| OWake                               (* the task of a waiting async method runs *)
| OFire (rk wait : N) (target : key)  (* the store branch: a refresh future has completed *)
| OEnv (u : uev).                     (* any other event of the loop: it starts no operation by itself *)

Definition env_ok (u : uev) : bool := match ustarted_by u with None => true | Some _ => false end.

(* the user events the loop performs, and the result of every call *)
Fixpoint hrun (h : hstate) (ops : list hop) : hstate * list uev * list hres :=
  match ops with
  | [] => (h, [], [])
  | OCall tr b :: t =>
      let '(h1, r) := hcall h tr b in
      let '(h2, us, rs) := hrun h1 t in (h2, us, r :: rs)
  | OTake :: t =>
      let '(h1, c) := hrecv h in
      let '(h2, us, rs) := hrun h1 t in
      (h2, match c with Some c => h2u c :: us | None => us end, rs)
  | OWake :: t => hrun (fst (hwake h)) t
  | OFire rk wait tg :: t =>
      let h1 := mkH (h_next h + 1) (h_chan h) (h_cap h) (h_closed h) (h_park h) in
      let '(h2, us, rs) := hrun h1 t in (h2, UFire (h_next h) rk wait tg :: us, rs)
  | OEnv u :: t =>
      let '(h2, us, rs) := hrun h t in (h2, (if env_ok u then [u] else []) ++ us, rs)
  end.

